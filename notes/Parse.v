(* Stratified expression grammar of spec/_math.py at token level: printer with minimal parentheses, parser, round trip. *)
From Coq Require Import List Arith Lia Bool.
Import ListNotations.

Section Parse.
  Variables Q V F1 F2 : Type.
  Inductive bop := Add | Sub | Mul | Div | IDiv | Gt | Lt.
  Definition lvl (o : bop) : nat := match o with Add | Sub => 0 | _ => 1 end.
  Inductive expr := Num (q : Q) | Var (v : V) | Bin (o : bop) (a b : expr) | Neg (a : expr) | Fn1 (f : F1) (a : expr) | Fn2 (g : F2) (a b : expr).
  Inductive tok := TNum (q : Q) | TVar (v : V) | TOp (o : bop) | TLP | TRP | TComma | TF1 (f : F1) | TF2 (g : F2).

  (* printer: p l e prints e in a context of level l (0 expr, 1 term, 2 factor) *)
  Fixpoint p (l : nat) (e : expr) : list tok :=
    match e with
    | Num q => [TNum q] | Var v => [TVar v]
    | Bin o a b => let k := lvl o in let body := p k a ++ TOp o :: p (S k) b in
                   if k <? l then TLP :: body ++ [TRP] else body
    | Neg a => TOp Sub :: p 2 a
    | Fn1 f a => TF1 f :: p 0 a ++ [TRP]
    | Fn2 g a b => TF2 g :: p 0 a ++ TComma :: p 0 b ++ [TRP]
    end.

  Inductive mode := MF | MT | ME | MLoopT (acc : expr) | MLoopE (acc : expr).
  Fixpoint P (fuel : nat) (m : mode) (ts : list tok) : option (expr * list tok) :=
    match fuel with
    | O => None
    | S f =>
      match m with
      | MF => match ts with
              | TNum q :: r => Some (Num q, r)
              | TVar v :: r => Some (Var v, r)
              | TOp Sub :: r => match P f MF r with Some (a, r') => Some (Neg a, r') | None => None end
              | TLP :: r => match P f ME r with Some (a, TRP :: r') => Some (a, r') | _ => None end
              | TF1 g :: r => match P f ME r with Some (a, TRP :: r') => Some (Fn1 g a, r') | _ => None end
              | TF2 g :: r => match P f ME r with
                              | Some (a, TComma :: r') => match P f ME r' with Some (b, TRP :: r'') => Some (Fn2 g a b, r'') | _ => None end
                              | _ => None end
              | _ => None
              end
      | MT => match P f MF ts with Some (a, r) => P f (MLoopT a) r | None => None end
      | MLoopT acc => match ts with
                      | TOp o :: r => if lvl o =? 1 then match P f MF r with Some (b, r') => P f (MLoopT (Bin o acc b)) r' | None => None end
                                      else Some (acc, ts)
                      | _ => Some (acc, ts)
                      end
      | ME => match P f MT ts with Some (a, r) => P f (MLoopE a) r | None => None end
      | MLoopE acc => match ts with
                      | TOp o :: r => if lvl o =? 0 then match P f MT r with Some (b, r') => P f (MLoopE (Bin o acc b)) r' | None => None end
                                      else Some (acc, ts)
                      | _ => Some (acc, ts)
                      end
      end
    end.

  Lemma P_mono : forall f m ts x, P f m ts = Some x -> forall f', f <= f' -> P f' m ts = Some x.
  Proof.
    induction f as [|f IH]; intros m ts x H f' Hle; [discriminate|].
    destruct f' as [|f']; [lia|]. assert (Hle' : f <= f') by lia.
    cbn [P] in *. destruct m.
    - destruct ts as [|t r]; [discriminate|]. destruct t; try discriminate; try exact H.
      + destruct o; try discriminate. destruct (P f MF r) as [[a r']|] eqn:E; [|discriminate]. rewrite (IH _ _ _ E f' Hle'). exact H.
      + destruct (P f ME r) as [[a r']|] eqn:E; [|discriminate]. rewrite (IH _ _ _ E f' Hle'). exact H.
      + destruct (P f ME r) as [[a r']|] eqn:E; [|discriminate]. rewrite (IH _ _ _ E f' Hle'). exact H.
      + destruct (P f ME r) as [[a r']|] eqn:E; [|discriminate]. rewrite (IH _ _ _ E f' Hle').
        destruct r' as [|t' r'']; [discriminate|]. destruct t'; try discriminate.
        destruct (P f ME r'') as [[b r3]|] eqn:E2; [|discriminate]. rewrite (IH _ _ _ E2 f' Hle'). exact H.
    - destruct (P f MF ts) as [[a r]|] eqn:E; [|discriminate]. rewrite (IH _ _ _ E f' Hle'). apply IH with (f' := f') in H; auto.
    - destruct (P f MT ts) as [[a r]|] eqn:E; [|discriminate]. rewrite (IH _ _ _ E f' Hle'). apply IH with (f' := f') in H; auto.
    - destruct ts as [|t r]; [exact H|]. destruct t; try exact H. destruct (lvl o =? 1); [|exact H].
      destruct (P f MF r) as [[b r']|] eqn:E; [|discriminate]. rewrite (IH _ _ _ E f' Hle'). apply IH with (f' := f') in H; auto.
    - destruct ts as [|t r]; [exact H|]. destruct t; try exact H. destruct (lvl o =? 0); [|exact H].
      destruct (P f MT r) as [[b r']|] eqn:E; [|discriminate]. rewrite (IH _ _ _ E f' Hle'). apply IH with (f' := f') in H; auto.
  Qed.

  Definition no1 (r : list tok) : Prop := match r with TOp o :: _ => lvl o <> 1 | _ => True end.

  Definition Fst (e : expr) := forall r, exists f, P f MF (p 2 e ++ r) = Some (e, r).
  Definition Tst (e : expr) := forall r res f1, P f1 (MLoopT e) r = Some res -> exists f, P f MT (p 1 e ++ r) = Some res.
  Definition Est (e : expr) := forall r res f1, no1 r -> P f1 (MLoopE e) r = Some res -> exists f, P f ME (p 0 e ++ r) = Some res.

  Lemma loopT_stop e r : no1 r -> P 1 (MLoopT e) r = Some (e, r).
  Proof. intros H. cbn. destruct r as [|t r']; [reflexivity|]. destruct t; try reflexivity. cbn in H. destruct (lvl o =? 1) eqn:E; [apply Nat.eqb_eq in E; contradiction|reflexivity]. Qed.
  Lemma loopE_stop e r : (match r with TOp _ :: _ => False | _ => True end) -> P 1 (MLoopE e) r = Some (e, r).
  Proof. intros H. cbn. destruct r as [|t r']; [reflexivity|]. destruct t; try reflexivity. destruct H. Qed.

  Lemma T_from_F e : Fst e -> p 1 e = p 2 e -> Tst e.
  Proof.
    intros HF Hp r res f1 Hl. destruct (HF r) as [f Hf]. exists (S (max f f1)). cbn [P]. rewrite Hp.
    rewrite (P_mono _ _ _ _ Hf (max f f1)) by lia. apply (P_mono _ _ _ _ Hl). lia.
  Qed.
  Lemma E_from_T e : Tst e -> p 0 e = p 1 e -> Est e.
  Proof.
    intros HT Hp r res f1 Hn Hl. destruct (HT r (e, r) 1 (loopT_stop e r Hn)) as [f Hf]. exists (S (max f f1)). cbn [P]. rewrite Hp.
    rewrite (P_mono _ _ _ _ Hf (max f f1)) by lia. apply (P_mono _ _ _ _ Hl). lia.
  Qed.
  Lemma F_paren_from_E e : Est e -> p 2 e = TLP :: p 0 e ++ [TRP] -> Fst e.
  Proof.
    intros HE Hp r. destruct (HE (TRP :: r) (e, TRP :: r) 1 I (loopE_stop e (TRP :: r) I)) as [f Hf].
    exists (S f). rewrite Hp. cbn [app P]. rewrite <- app_assoc. cbn [app]. rewrite Hf. reflexivity.
  Qed.

  Theorem roundtrip_all : forall e, Fst e /\ Tst e /\ Est e.
  Proof.
    induction e as [q|v|o a [Fa [Ta Ea]] b [Fb [Tb Eb]]|a [Fa [Ta Ea]]|g a [Fa [Ta Ea]]|g a [Fa [Ta Ea]] b [Fb [Tb Eb]]].
    - assert (HF : Fst (Num q)) by (intros r; exists 1; reflexivity).
      pose proof (T_from_F _ HF eq_refl) as HT. split; [exact HF|]. split; [exact HT|]. apply (E_from_T _ HT eq_refl).
    - assert (HF : Fst (Var v)) by (intros r; exists 1; reflexivity).
      pose proof (T_from_F _ HF eq_refl) as HT. split; [exact HF|]. split; [exact HT|]. apply (E_from_T _ HT eq_refl).
    - (* Bin *)
      destruct (lvl o) eqn:Lo; [|destruct n as [|n]; [|destruct o; discriminate]].
      + (* level 0: E first *)
        assert (HE : Est (Bin o a b)).
        { intros r res f1 Hn Hl. cbn [p]. rewrite Lo. cbn [Nat.ltb Nat.leb]. rewrite <- app_assoc. cbn [app].
          destruct (Tb r (b, r) 1 (loopT_stop b r Hn)) as [fb Hfb].
          apply (Ea (TOp o :: p 1 b ++ r) res (S (max fb f1))).
          - cbn. rewrite Lo. discriminate.
          - cbn [P]. rewrite Lo. cbn [Nat.eqb]. rewrite (P_mono _ _ _ _ Hfb (max fb f1)) by lia. apply (P_mono _ _ _ _ Hl). lia. }
        assert (HF : Fst (Bin o a b)).
        { apply (F_paren_from_E _ HE). cbn [p]. rewrite Lo. reflexivity. }
        split; [exact HF|]. split; [|exact HE]. apply (T_from_F _ HF). cbn [p]. rewrite Lo. reflexivity.
      + (* level 1: T first *)
        assert (HT : Tst (Bin o a b)).
        { intros r res f1 Hl. cbn [p]. rewrite Lo. cbn [Nat.ltb Nat.leb]. rewrite <- app_assoc. cbn [app].
          destruct (Fb r) as [fb Hfb].
          apply (Ta (TOp o :: p 2 b ++ r) res (S (max fb f1))).
          cbn [P]. rewrite Lo. cbn [Nat.eqb]. rewrite (P_mono _ _ _ _ Hfb (max fb f1)) by lia. apply (P_mono _ _ _ _ Hl). lia. }
        assert (HE : Est (Bin o a b)) by (apply (E_from_T _ HT); cbn [p]; rewrite Lo; reflexivity).
        split; [|split; [exact HT|exact HE]]. apply (F_paren_from_E _ HE). cbn [p]. rewrite Lo. reflexivity.
    - (* Neg *)
      assert (HF : Fst (Neg a)).
      { intros r. destruct (Fa r) as [f Hf]. exists (S f). cbn [p app P]. rewrite Hf. reflexivity. }
      pose proof (T_from_F _ HF eq_refl) as HT. split; [exact HF|]. split; [exact HT|]. apply (E_from_T _ HT eq_refl).
    - (* Fn1 *)
      assert (HF : Fst (Fn1 g a)).
      { intros r. destruct (Ea (TRP :: r) (a, TRP :: r) 1 I (loopE_stop a (TRP :: r) I)) as [f Hf].
        exists (S f). cbn [p app P]. rewrite <- app_assoc. cbn [app]. rewrite Hf. reflexivity. }
      pose proof (T_from_F _ HF eq_refl) as HT. split; [exact HF|]. split; [exact HT|]. apply (E_from_T _ HT eq_refl).
    - (* Fn2 *)
      assert (HF : Fst (Fn2 g a b)).
      { intros r. destruct (Eb (TRP :: r) (b, TRP :: r) 1 I (loopE_stop b (TRP :: r) I)) as [fb Hfb].
        destruct (Ea (TComma :: p 0 b ++ TRP :: r) (a, TComma :: p 0 b ++ TRP :: r) 1 I (loopE_stop a (TComma :: p 0 b ++ TRP :: r) I)) as [fa Hfa].
        exists (S (max fa fb)). cbn [p app P]. rewrite <- !app_assoc. cbn [app]. rewrite <- !app_assoc. cbn [app].
        rewrite (P_mono _ _ _ _ Hfa (max fa fb)) by lia. rewrite (P_mono _ _ _ _ Hfb (max fa fb)) by lia. reflexivity. }
      pose proof (T_from_F _ HF eq_refl) as HT. split; [exact HF|]. split; [exact HT|]. apply (E_from_T _ HT eq_refl).
  Qed.

  (* printing at expression level and parsing back gives the same tree, for every tree *)
  Theorem parse_print e : exists f, P f ME (p 0 e) = Some (e, []).
  Proof.
    destruct (roundtrip_all e) as (_ & _ & HE). destruct (HE [] (e, []) 1 I (loopE_stop e [] I)) as [f Hf].
    exists f. rewrite app_nil_r in Hf. exact Hf.
  Qed.
End Parse.
Print Assumptions parse_print.
