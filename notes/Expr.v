(* Spec-expression AST, evaluation over Q, and a sound syntactic check "non-decreasing in variable x
   when every variable is >= 0" (used for level formulas that mention other variables). *)
From Coq Require Import QArith Qround Qminmax Lqa List Bool ZArith.
Import ListNotations.

Definition var := nat.
Inductive expr :=
| Num (q : Q) | Var (v : var)
| Add (a b : expr) | Sub (a b : expr) | Mul (a b : expr) | DivC (a : expr) (c : Q)   (* division by a literal *)
| IDivC (a : expr) (c : positive)                                                     (* a // literal *)
| Neg (a : expr) | Floor (a : expr) | Ceil (a : expr) | Min (a b : expr) | Max (a b : expr).

Definition env := var -> Q.
Definition qfloor (q : Q) : Q := inject_Z (Qfloor q).
Definition qceil (q : Q) : Q := inject_Z (Qceiling q).

Fixpoint eval (r : env) (e : expr) : Q :=
  match e with
  | Num q => q | Var v => r v
  | Add a b => eval r a + eval r b | Sub a b => eval r a - eval r b | Mul a b => eval r a * eval r b
  | DivC a c => eval r a / c
  | IDivC a c => qfloor (eval r a / inject_Z (Zpos c))
  | Neg a => - eval r a | Floor a => qfloor (eval r a) | Ceil a => qceil (eval r a)
  | Min a b => Qmin (eval r a) (eval r b) | Max a b => Qmax (eval r a) (eval r b)
  end.

(* sufficient syntactic conditions *)
Fixpoint nonneg (e : expr) : bool :=
  match e with
  | Num q => Qle_bool 0 q | Var _ => true
  | Add a b | Mul a b | Min a b => nonneg a && nonneg b
  | Max a b => nonneg a || nonneg b
  | DivC a c => nonneg a && Qle_bool 0 c && negb (Qeq_bool c 0)
  | IDivC a _ | Floor a | Ceil a => nonneg a
  | Sub _ _ | Neg _ => false
  end.
Fixpoint const_in (x : var) (e : expr) : bool :=   (* does not mention x *)
  match e with
  | Num _ => true | Var v => negb (Nat.eqb v x)
  | Add a b | Sub a b | Mul a b | Min a b | Max a b => const_in x a && const_in x b
  | DivC a _ | IDivC a _ | Neg a | Floor a | Ceil a => const_in x a
  end.
Fixpoint mono (x : var) (e : expr) : bool :=
  match e with
  | Num _ | Var _ => true
  | Add a b | Min a b | Max a b => mono x a && mono x b
  | Sub a b => mono x a && const_in x b
  | Mul a b => mono x a && mono x b && nonneg a && nonneg b
  | DivC a c => mono x a && Qle_bool 0 c && negb (Qeq_bool c 0)
  | IDivC a _ | Floor a | Ceil a => mono x a
  | Neg a => const_in x a
  end.

Definition env_nonneg (r : env) := forall v, 0 <= r v.
Definition upd (r : env) (x : var) (q : Q) : env := fun v => if Nat.eqb v x then q else r v.

Lemma qfloor_mono a b : a <= b -> qfloor a <= qfloor b.
Proof. intros H. unfold qfloor. rewrite <- Zle_Qle. apply Qfloor_resp_le, H. Qed.
Lemma qceil_mono a b : a <= b -> qceil a <= qceil b.
Proof. intros H. unfold qceil. rewrite <- Zle_Qle. apply Qceiling_resp_le, H. Qed.
Lemma qfloor_nonneg a : 0 <= a -> 0 <= qfloor a.
Proof. intros H. change 0 with (qfloor 0). apply qfloor_mono, H. Qed.
Lemma qceil_nonneg a : 0 <= a -> 0 <= qceil a.
Proof. intros H. change 0 with (qceil 0). apply qceil_mono, H. Qed.

Lemma nonneg_sound r e : env_nonneg r -> nonneg e = true -> 0 <= eval r e.
Proof.
  intros Hr. induction e; cbn [nonneg eval]; intros H;
    repeat match goal with H : _ && _ = true |- _ => apply andb_true_iff in H; destruct H end; try discriminate.
  - apply Qle_bool_iff, H.
  - apply Hr.
  - specialize (IHe1 H); specialize (IHe2 H0). lra.
  - specialize (IHe1 H); specialize (IHe2 H0). apply Qmult_le_0_compat; auto.
  - specialize (IHe H). apply Qle_bool_iff in H1. apply negb_true_iff in H0.
    assert (0 < c) by (apply Qle_lteq in H1; destruct H1 as [|E]; auto; exfalso; symmetry in E; apply Qeq_bool_iff in E; congruence).
    apply Qle_shift_div_l; auto. lra.
  - apply qfloor_nonneg. specialize (IHe H). apply Qle_shift_div_l; [reflexivity|]. lra.
  - apply qfloor_nonneg, IHe, H.
  - apply qceil_nonneg, IHe, H.
  - specialize (IHe1 H); specialize (IHe2 H0). apply Q.min_glb; auto.
  - apply orb_true_iff in H. destruct H as [H|H]; [specialize (IHe1 H); eapply Qle_trans; [exact IHe1|apply Q.le_max_l]|specialize (IHe2 H); eapply Qle_trans; [exact IHe2|apply Q.le_max_r]].
Qed.

Lemma qfloor_comp a b : a == b -> qfloor a == qfloor b.
Proof. intros H. unfold qfloor. rewrite (Qfloor_comp _ _ H). reflexivity. Qed.
Lemma qceil_comp a b : a == b -> qceil a == qceil b.
Proof. intros H. unfold qceil. rewrite (Qceiling_comp _ _ H). reflexivity. Qed.

Lemma const_sound r x q e : const_in x e = true -> eval (upd r x q) e == eval r e.
Proof.
  induction e; cbn [const_in eval]; intros H;
    repeat match goal with H : _ && _ = true |- _ => apply andb_true_iff in H; destruct H end.
  - reflexivity.
  - unfold upd. apply negb_true_iff in H. rewrite H. reflexivity.
  - rewrite IHe1, IHe2 by assumption. reflexivity.
  - rewrite IHe1, IHe2 by assumption. reflexivity.
  - rewrite IHe1, IHe2 by assumption. reflexivity.
  - rewrite IHe by assumption. reflexivity.
  - apply qfloor_comp. rewrite IHe by assumption. reflexivity.
  - rewrite IHe by assumption. reflexivity.
  - apply qfloor_comp, IHe, H.
  - apply qceil_comp, IHe, H.
  - rewrite IHe1, IHe2 by assumption. reflexivity.
  - rewrite IHe1, IHe2 by assumption. reflexivity.
Qed.

Lemma upd_nonneg r x q : env_nonneg r -> 0 <= q -> env_nonneg (upd r x q).
Proof. intros Hr Hq v. unfold upd. destruct (Nat.eqb v x); auto. Qed.

(* monotone in x over non-negative environments *)
Theorem mono_sound x e : mono x e = true -> forall r q1 q2, env_nonneg r -> 0 <= q1 -> q1 <= q2 ->
  eval (upd r x q1) e <= eval (upd r x q2) e.
Proof.
  induction e; cbn [mono eval]; intros H r q1 q2 Hr H1 H12;
    repeat match goal with H : _ && _ = true |- _ => apply andb_true_iff in H; destruct H end.
  - apply Qle_refl.
  - unfold upd. destruct (Nat.eqb v x); [exact H12|apply Qle_refl].
  - specialize (IHe1 H r q1 q2 Hr H1 H12). specialize (IHe2 H0 r q1 q2 Hr H1 H12). lra.
  - specialize (IHe1 H r q1 q2 Hr H1 H12). rewrite (const_sound r x q1 e2 H0), (const_sound r x q2 e2 H0). lra.
  - specialize (IHe1 H r q1 q2 Hr H1 H12). specialize (IHe2 H3 r q1 q2 Hr H1 H12).
    assert (N1 : 0 <= eval (upd r x q1) e1) by (apply nonneg_sound; auto; apply upd_nonneg; auto).
    assert (N2 : 0 <= eval (upd r x q1) e2) by (apply nonneg_sound; auto; apply upd_nonneg; auto).
    nra.
  - specialize (IHe H r q1 q2 Hr H1 H12). apply Qle_bool_iff in H2. apply negb_true_iff in H0.
    assert (0 < c) by (apply Qle_lteq in H2; destruct H2 as [|E]; auto; exfalso; symmetry in E; apply Qeq_bool_iff in E; congruence).
    apply Qmult_le_compat_r; auto. apply Qinv_le_0_compat. lra.
  - apply qfloor_mono. specialize (IHe H r q1 q2 Hr H1 H12). apply Qmult_le_compat_r; auto. apply Qinv_le_0_compat. discriminate.
  - rewrite (const_sound r x q1 e H), (const_sound r x q2 e H). apply Qle_refl.
  - apply qfloor_mono, IHe; auto.
  - apply qceil_mono, IHe; auto.
  - specialize (IHe1 H r q1 q2 Hr H1 H12). specialize (IHe2 H0 r q1 q2 Hr H1 H12). apply Q.min_le_compat; auto.
  - specialize (IHe1 H r q1 q2 Hr H1 H12). specialize (IHe2 H0 r q1 q2 Hr H1 H12). apply Q.max_le_compat; auto.
Qed.
Print Assumptions mono_sound.

(* e.g.  floor((18 + 5*character_level) * 0.15) * (1 + 0.1*skill_level)  with skill_level = 0, character_level = 1 *)
Example ex1 : mono 0%nat (Mul (Floor (Mul (Add (Num 18) (Mul (Num 5) (Var 1%nat))) (Num (15#100)))) (Add (Num 1) (Mul (Num (1#10)) (Var 0%nat)))) = true.
Proof. reflexivity. Qed.
