From Coq Require Import QArith Qminmax Lqa.
Open Scope Q_scope.

(* STR-based damage logic, written the way T-num would emit it (literals as rationals) *)
Record Stat := { STR:Q; DEX:Q; STRm:Q; DEXm:Q; STRs:Q; DEXs:Q; att:Q; attm:Q; cr:Q; cd_:Q; boss:Q; dmg:Q; fd:Q; ied:Q; elem:Q }.
Definition coef (b m s : Q) := b * (m * (1#100) + 1) + s.
Definition base_factor (s : Stat) := coef (STR s) (STRm s) (STRs s) * 4 + coef (DEX s) (DEXm s) (DEXs s).
Definition attack_factor (s : Stat) := att s * (1 + (1#100) * attm s).
Definition general (s : Stat) := (1 + (boss s + dmg s) * (1#100)) * (1 + (1#100) * fd s).
Definition armor_f (s : Stat) (armor : Q) := 1 - (1#10000) * (armor * (100 - ied s)).
Definition crit (s : Stat) := 1 + (35 + cd_ s) * Qmin 100 (cr s) * (1#10000).
Definition elemf (s : Stat) := (1#2) * (1 + Qmin 100 (elem s) * (1#100)).
Definition factor (k m : Q) (s : Stat) (armor : Q) :=
  general s * armor_f s armor * crit s * base_factor s * attack_factor s * elemf s * k * (1#100) * ((1 + m) * (1#2)).

Definition nonneg (s : Stat) := 0<=STR s /\ 0<=DEX s /\ 0<=STRm s /\ 0<=DEXm s /\ 0<=STRs s /\ 0<=DEXs s /\ 0<=att s /\ 0<=attm s /\ 0<=cr s /\ 0<=cd_ s /\ 0<=boss s /\ 0<=dmg s /\ 0<=fd s /\ 0<=ied s /\ 0<=elem s.

Lemma Qmin_nonneg a b : 0 <= a -> 0 <= b -> 0 <= Qmin a b.
Proof. intros. destruct (Q.min_spec a b) as [[_ E]|[_ E]]; rewrite E; auto. Qed.
Lemma Qmin_mono a b c : b <= c -> Qmin a b <= Qmin a c.
Proof. intros. apply Q.min_le_compat_l; auto. Qed.

(* product monotonicity: all other factors non-negative, one factor grows *)
Lemma mul_mono_l a a' b : 0 <= b -> a <= a' -> a * b <= a' * b.
Proof. intros. nra. Qed.

Section Mono.
  Variables (k m armor : Q).
  Hypothesis Hk : 0 <= k. Hypothesis Hm : 0 <= m.

  Lemma factors_nonneg s : nonneg s -> 0 <= armor_f s armor ->
     0 <= general s /\ 0 <= crit s /\ 0 <= base_factor s /\ 0 <= attack_factor s /\ 0 <= elemf s.
  Proof.
    unfold nonneg, general, crit, base_factor, attack_factor, elemf, coef. intros (?&?&?&?&?&?&?&?&?&?&?&?&?&?&?) Ha.
    pose proof (Qmin_nonneg 100 (cr s) ltac:(lra) ltac:(assumption)).
    pose proof (Qmin_nonneg 100 (elem s) ltac:(lra) ltac:(assumption)).
    repeat split; nra.
  Qed.

  (* raising boss damage *)
  Definition bump_boss (d : Q) (s : Stat) : Stat :=
    {| STR:=STR s; DEX:=DEX s; STRm:=STRm s; DEXm:=DEXm s; STRs:=STRs s; DEXs:=DEXs s; att:=att s; attm:=attm s; cr:=cr s; cd_:=cd_ s;
       boss:=boss s + d; dmg:=dmg s; fd:=fd s; ied:=ied s; elem:=elem s |}.
  Theorem mono_boss s d : nonneg s -> 0 <= armor_f s armor -> 0 <= d -> factor k m s armor <= factor k m (bump_boss d s) armor.
  Proof.
    intros Hn Ha Hd. destruct (factors_nonneg s Hn Ha) as (G & C & B & A & E).
    unfold factor.
    change (armor_f (bump_boss d s) armor) with (armor_f s armor). change (crit (bump_boss d s)) with (crit s).
    change (base_factor (bump_boss d s)) with (base_factor s). change (attack_factor (bump_boss d s)) with (attack_factor s).
    change (elemf (bump_boss d s)) with (elemf s).
    assert (Gm : general s <= general (bump_boss d s)).
    { unfold general, bump_boss; cbn. destruct Hn as (_&_&_&_&_&_&_&_&_&_&Hb&Hdm&Hfd&_).
      apply mul_mono_l; lra. }
    set (rest := armor_f s armor * crit s * base_factor s * attack_factor s * elemf s * k * (1#100) * ((1 + m) * (1#2))).
    assert (Hr : 0 <= rest).
    { unfold rest. repeat (apply Qmult_le_0_compat; [|first [assumption | lra]]). assumption. }
    assert (E1 : general s * armor_f s armor * crit s * base_factor s * attack_factor s * elemf s * k * (1 # 100) * ((1 + m) * (1#2)) == general s * rest) by (unfold rest; ring).
    assert (E2 : general (bump_boss d s) * armor_f s armor * crit s * base_factor s * attack_factor s * elemf s * k * (1 # 100) * ((1 + m) * (1#2)) == general (bump_boss d s) * rest) by (unfold rest; ring).
    rewrite E1, E2. apply mul_mono_l; auto.
  Qed.
End Mono.
Print Assumptions mono_boss.
