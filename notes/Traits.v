(* Shape of Model/Traits.v + Model/Common.v: entities, events, three traits, three components, C07/C10 statements. *)
From Coq Require Import ZArith List Lia Bool.
Import ListNotations.
Open Scope Z_scope.

Section Components.
  Variable AStat : Type.                                 (* ActionStat held by the Dynamics entity *)
  Variable calc_cd : AStat -> Z -> Z.                    (* ActionStat.calculate_cooldown, abstract here (C12 is about it) *)
  Variable calc_buff : AStat -> Z -> Z.                  (* calculate_buff_duration *)
  Variable Name : Type.

  Inductive tag := TReject | TDamage | TDelay | TElapsed | TMob | TKeydownEnd.
  Record event := { ev_name : Name; ev_tag : tag; ev_x : Z; ev_y : Z }.   (* damage,hit | time,0 | dot damage,lasting *)
  Definition rejected n := {| ev_name := n; ev_tag := TReject; ev_x := 0; ev_y := 0 |}.
  Definition dealt n d h := {| ev_name := n; ev_tag := TDamage; ev_x := d; ev_y := h |}.
  Definition delayed n t := {| ev_name := n; ev_tag := TDelay; ev_x := t; ev_y := 0 |}.
  Definition elapsed n t := {| ev_name := n; ev_tag := TElapsed; ev_x := t; ev_y := 0 |}.
  Definition mob_dot n d l := {| ev_name := n; ev_tag := TMob; ev_x := d; ev_y := l |}.
  Definition is_reject (e : event) := match ev_tag e with TReject => true | _ => false end.
  Definition has_reject (l : list event) := existsb is_reject l.

  (* entities *)
  Record Cooldown := { c_tl : Z }.
  Definition available (c : Cooldown) := c_tl c <=? 0.
  Record Lasting := { l_tl : Z; l_assigned : Z }.
  Definition l_enabled (l : Lasting) := 0 <? l_tl l.

  (* ---- AttackSkillComponent / UseSimpleAttackTrait ---- *)
  Record AttackP := { a_name : Name; a_damage : Z; a_hit : Z; a_delay : Z; a_cd : Z; a_disable_validity : bool }.
  Record AttackS := { as_cd : Cooldown; as_dyn : AStat }.
  Definition use_simple_attack (p : AttackP) (s : AttackS) : AttackS * list event :=
    if negb (available (as_cd s)) then (s, [rejected (a_name p)])
    else ({| as_cd := {| c_tl := calc_cd (as_dyn s) (a_cd p) |}; as_dyn := as_dyn s |},
          [dealt (a_name p) (a_damage p) (a_hit p); delayed (a_name p) (a_delay p)]).
  Definition elapse_simple_attack (p : AttackP) (t : Z) (s : AttackS) : AttackS * list event :=
    ({| as_cd := {| c_tl := c_tl (as_cd s) - t |}; as_dyn := as_dyn s |}, [elapsed (a_name p) t]).
  Definition attack_use_ignore_reject p s := let '(s', ev) := use_simple_attack p s in (s', filter (fun e => negb (is_reject e)) ev).
  Record Validity := { v_time_left : Z; v_valid : bool }.
  Definition attack_validity (p : AttackP) (s : AttackS) : Validity :=
    let v := {| v_time_left := Z.max 0 (c_tl (as_cd s)); v_valid := available (as_cd s) |} in
    if a_disable_validity p then {| v_time_left := v_time_left v; v_valid := false |} else v.

  (* ---- DOTEmittingAttackSkillComponent (with the early return on rejection) ---- *)
  Record DotP := { d_attack : AttackP; d_dot_damage : Z; d_dot_lasting : Z }.
  Definition dot_use_fixed (p : DotP) (s : AttackS) : AttackS * list event :=
    let '(s', ev) := use_simple_attack (d_attack p) s in
    if has_reject ev then (s', ev) else (s', ev ++ [mob_dot (a_name (d_attack p)) (d_dot_damage p) (d_dot_lasting p)]).
  (* as shipped *)
  Definition dot_use_shipped (p : DotP) (s : AttackS) : AttackS * list event :=
    let '(s', ev) := use_simple_attack (d_attack p) s in
    (s', ev ++ [mob_dot (a_name (d_attack p)) (d_dot_damage p) (d_dot_lasting p)]).

  (* ---- BuffSkillComponent / BuffTrait ---- *)
  Record BuffP := { b_name : Name; b_delay : Z; b_cd : Z; b_lasting : Z; b_apply_dur : bool; b_disable_validity : bool }.
  Record BuffS := { bs_cd : Cooldown; bs_lasting : Lasting; bs_dyn : AStat }.
  Definition use_buff (p : BuffP) (s : BuffS) : BuffS * list event :=
    if negb (available (bs_cd s)) then (s, [rejected (b_name p)])
    else let dur := if b_apply_dur p then calc_buff (bs_dyn s) (b_lasting p) else b_lasting p in
         ({| bs_cd := {| c_tl := calc_cd (bs_dyn s) (b_cd p) |}; bs_lasting := {| l_tl := dur; l_assigned := dur |}; bs_dyn := bs_dyn s |},
          [delayed (b_name p) (b_delay p)]).
  Definition buff_validity (p : BuffP) (s : BuffS) : Validity :=
    {| v_time_left := Z.max 0 (c_tl (bs_cd s)); v_valid := available (bs_cd s) && negb (b_disable_validity p) |}.

  (* ================= C07: a rejection is reported alone and changes nothing ================= *)
  Definition reject_alone {St} (n : Name) (s : St) (r : St * list event) : Prop :=
    has_reject (snd r) = true -> r = (s, [rejected n]).

  Theorem C07_attack p s : reject_alone (a_name p) s (use_simple_attack p s).
  Proof. unfold reject_alone, use_simple_attack. destruct (negb (available (as_cd s))); cbn; [reflexivity|discriminate]. Qed.
  Theorem C07_buff p s : reject_alone (b_name p) s (use_buff p s).
  Proof. unfold reject_alone, use_buff. destruct (negb (available (bs_cd s))); cbn; [reflexivity|discriminate]. Qed.
  Theorem C07_attack_ignore p s : has_reject (snd (attack_use_ignore_reject p s)) = false /\
     (has_reject (snd (use_simple_attack p s)) = true -> attack_use_ignore_reject p s = (s, [])).
  Proof. unfold attack_use_ignore_reject, use_simple_attack. destruct (negb (available (as_cd s))); cbn; auto. split; [reflexivity|discriminate]. Qed.
  Theorem C07_dot_fixed p s : reject_alone (a_name (d_attack p)) s (dot_use_fixed p s).
  Proof. unfold reject_alone, dot_use_fixed, use_simple_attack. destruct (negb (available (as_cd s))); cbn; [reflexivity|discriminate]. Qed.
  (* the shipped version violates it: any state on cooldown is a witness *)
  Theorem C07_dot_shipped_refuted p dyn : ~ reject_alone (a_name (d_attack p)) {| as_cd := {| c_tl := 1 |}; as_dyn := dyn |} (dot_use_shipped p {| as_cd := {| c_tl := 1 |}; as_dyn := dyn |}).
  Proof. unfold reject_alone, dot_use_shipped, use_simple_attack. cbn. intros H. specialize (H eq_refl). inversion H. Qed.

  (* ================= C10: validity never negative; valid implies accepted ================= *)
  Theorem C10_attack_time_left p s : 0 <= v_time_left (attack_validity p s).
  Proof. unfold attack_validity. destruct (a_disable_validity p); cbn; lia. Qed.
  Theorem C10_attack_valid_accepts p s : v_valid (attack_validity p s) = true -> has_reject (snd (use_simple_attack p s)) = false.
  Proof. unfold attack_validity, use_simple_attack. destruct (a_disable_validity p); cbn; [discriminate|]. intros ->. reflexivity. Qed.
  Theorem C10_buff_valid_accepts p s : v_valid (buff_validity p s) = true -> has_reject (snd (use_buff p s)) = false.
  Proof. unfold buff_validity, use_buff. cbn. intros H. apply andb_true_iff in H. destruct H as [-> _]. reflexivity. Qed.

  (* ================= C09 / C06 at component level: linear timers ================= *)
  Theorem C09_attack_elapse p s a b : fst (elapse_simple_attack p b (fst (elapse_simple_attack p a s))) = fst (elapse_simple_attack p (a + b) s).
  Proof. unfold elapse_simple_attack; cbn. do 2 f_equal. lia. Qed.
  Theorem C06_attack_elapsed_payload p s t e : In e (snd (elapse_simple_attack p t s)) -> ev_tag e = TElapsed -> ev_x e = t.
  Proof. cbn. intros [<-|[]] _. reflexivity. Qed.
End Components.
Print Assumptions C07_dot_shipped_refuted.
Print Assumptions C10_buff_valid_accepts.
