From Coq Require Import ZArith List Lia Bool Arith.
Import ListNotations.
Open Scope Z_scope.

Section Window.
  Variable L : Z.
  Variable l : list (Z * Z).   (* (clock, damage) *)
  Let n := length l.
  Definition clk (i : nat) : Z := fst (nth i l (0, 0)).
  Definition dmg (i : nat) : Z := snd (nth i l (0, 0)).
  Fixpoint sumr (s k : nat) : Z := match k with O => 0 | S k' => dmg s + sumr (S s) k' end.  (* sum of dmg over [s, s+k) *)
  Definition compute (s e : nat) : Z * Z :=
    let iv := clk e - clk s in if iv =? 0 then (0, 0) else (iv, sumr s (e - s)).

  Record st := mk { start : nat; end_ : nat; best : Z; bs : nat; be : nat }.

  Fixpoint loop (fuel : nat) (x : st) : option st :=
    match fuel with
    | O => None
    | S f =>
      if (n <=? end_ x)%nat then Some x else
      if ((S (end_ x) <? n)%nat && (clk (S (end_ x)) =? clk (start x)))%bool
      then loop f (mk (start x) (S (end_ x)) (best x) (bs x) (be x)) else
      let '(iv, dl) := compute (start x) (end_ x) in
      if iv <? L then loop f (mk (start x) (S (end_ x)) (best x) (bs x) (be x)) else
      if best x <? dl then loop f (mk (S (start x)) (end_ x) dl (start x) (end_ x))
      else loop f (mk (S (start x)) (end_ x) (best x) (bs x) (be x))
    end.

  (* naive definition: for each start the least end reaching span L *)
  Fixpoint find_end (s : nat) (e : nat) (k : nat) : option nat :=   (* search e, e+1, ..., e+k-1 *)
    match k with
    | O => None
    | S k' => if L <=? clk e - clk s then Some e else find_end s (S e) k'
    end.
  Definition e_of (s : nat) : option nat := find_end s s (n - s).
  Definition upd (b : Z * nat * nat) (s : nat) : Z * nat * nat :=
    match e_of s with
    | None => b
    | Some e => let w := sumr s (e - s) in let '(bw, _, _) := b in if bw <? w then (w, s, e) else b
    end.
  Fixpoint naive_from (b : Z * nat * nat) (s k : nat) : Z * nat * nat :=  (* starts s, s+1, ..., s+k-1 *)
    match k with O => b | S k' => naive_from (upd b s) (S s) k' end.
  Definition naive : Z * nat * nat := naive_from (0, 0%nat, 0%nat) 0 n.

  Hypothesis Lpos : 0 < L.
  Hypothesis sorted : forall i j, (i <= j < n)%nat -> clk i <= clk j.

  Lemma find_end_none s e k : find_end s e k = None <-> forall e', (e <= e' < e + k)%nat -> clk e' - clk s < L.
  Proof.
    revert e. induction k as [|k IH]; intros e; cbn.
    - split; auto. intros; lia.
    - destruct (L <=? clk e - clk s) eqn:E.
      + split; [discriminate|]. intros Hall. specialize (Hall e ltac:(lia)). lia.
      + rewrite IH. split; intros Hall e' He'.
        * destruct (Nat.eq_dec e' e) as [->|]; [lia|]. apply Hall. lia.
        * apply Hall. lia.
  Qed.

  Lemma find_end_some s e k r : find_end s e k = Some r ->
     (e <= r < e + k)%nat /\ L <= clk r - clk s /\ forall e', (e <= e' < r)%nat -> clk e' - clk s < L.
  Proof.
    revert e. induction k as [|k IH]; intros e; cbn; [discriminate|].
    destruct (L <=? clk e - clk s) eqn:E.
    - intros X; inversion X; subst. repeat split; try lia.
    - intros X. destruct (IH _ X) as (A & B & C). repeat split; try lia.
      intros e' He'. destruct (Nat.eq_dec e' e) as [->|]; [lia|]. apply C. lia.
  Qed.

  Lemma find_end_intro s e k r : (e <= r < e + k)%nat -> L <= clk r - clk s ->
     (forall e', (e <= e' < r)%nat -> clk e' - clk s < L) -> find_end s e k = Some r.
  Proof.
    revert e. induction k as [|k IH]; intros e Hr Hv Hm; [lia|]. cbn.
    destruct (L <=? clk e - clk s) eqn:E.
    - destruct (Nat.eq_dec e r) as [->|]; [reflexivity|]. specialize (Hm e ltac:(lia)). lia.
    - apply IH; try lia.
      + destruct (Nat.eq_dec e r) as [->|]; [lia|]. lia.
      + intros e' He'. apply Hm. lia.
  Qed.

  (* invariant *)
  Definition Inv (x : st) : Prop :=
    (start x <= end_ x)%nat /\ (end_ x <= n)%nat /\
    (forall e', (start x <= e' < end_ x)%nat -> clk e' - clk (start x) < L) /\
    (best x, bs x, be x) = naive_from (0, 0%nat, 0%nat) 0 (start x).

  Lemma naive_from_snoc b s k : naive_from b s (S k) = upd (naive_from b s k) (s + k).
  Proof.
    revert b s. induction k as [|k IH]; intros b s.
    - cbn. rewrite Nat.add_0_r. reflexivity.
    - change (naive_from b s (S (S k))) with (naive_from (upd b s) (S s) (S k)). rewrite IH. cbn.
      replace (S s + k)%nat with (s + S k)%nat by lia. replace (S (s + k)) with (s + S k)%nat by lia. reflexivity.
  Qed.

  Lemma naive_tail_none b s k : (forall s', (s <= s' < s + k)%nat -> e_of s' = None) -> naive_from b s k = b.
  Proof.
    revert b s. induction k as [|k IH]; intros b s Hn; cbn; [reflexivity|].
    unfold upd at 1. rewrite (Hn s) by lia. apply IH. intros s' Hs'. apply Hn. lia.
  Qed.

  Lemma e_of_none_from x : Inv x -> end_ x = n -> forall s', (start x <= s' < n)%nat -> e_of s' = None.
  Proof.
    intros (I1 & I2 & I3 & _) He s' Hs'. unfold e_of. apply find_end_none. intros e' He'.
    assert (clk e' - clk (start x) < L) by (apply I3; lia).
    assert (clk (start x) <= clk s') by (apply sorted; lia). lia.
  Qed.

  Theorem loop_eq_naive : forall fuel x, Inv x -> (2 * n + 2 <= fuel + start x + end_ x)%nat ->
    exists r, loop fuel x = Some r /\ (best r, bs r, be r) = naive.
  Proof.
    induction fuel as [|f IH]; intros x Hinv Hf.
    - destruct Hinv as (I1 & I2 & _). lia.
    - pose proof Hinv as (I1 & I2 & I3 & I4). cbn [loop].
      destruct (n <=? end_ x)%nat eqn:En.
      + apply Nat.leb_le in En. assert (Ee : end_ x = n) by lia.
        exists x. split; [reflexivity|]. unfold naive.
        replace n with (start x + (n - start x))%nat at 1 by lia.
        (* naive over [0,n) = naive over [0,start) then [start, n) which adds nothing *)
        assert (Hsplit : forall b a k1 k2, naive_from b a (k1 + k2) = naive_from (naive_from b a k1) (a + k1) k2).
        { intros b a k1. revert b a. induction k1 as [|k1 IHk]; intros b a k2; cbn.
          - rewrite Nat.add_0_r. reflexivity.
          - rewrite IHk. replace (S a + k1)%nat with (a + S k1)%nat by lia. reflexivity. }
        rewrite Hsplit. cbn [Nat.add]. rewrite <- I4. rewrite naive_tail_none; [reflexivity|].
        intros s' Hs'. apply (e_of_none_from x Hinv Ee). lia.
      + apply Nat.leb_gt in En.
        destruct ((S (end_ x) <? n)%nat && (clk (S (end_ x)) =? clk (start x)))%bool eqn:EA.
        * (* branch A *)
          apply andb_true_iff in EA. destruct EA as [EA1 EA2]. apply Nat.ltb_lt in EA1. apply Z.eqb_eq in EA2.
          apply IH; [|cbn; lia]. repeat split; cbn [start end_ best bs be]; try lia; auto.
          intros e' He'. destruct (Nat.eq_dec e' (end_ x)) as [->|]; [|apply I3; lia].
          assert (clk (end_ x) <= clk (S (end_ x))) by (apply sorted; lia). lia.
        * unfold compute.
          destruct (clk (end_ x) - clk (start x) =? 0) eqn:E0.
          -- (* interval 0 -> (0,0), 0 < L *)
             destruct (0 <? L) eqn:EL; [|lia].
             apply IH; [|cbn; lia]. repeat split; cbn [start end_ best bs be]; try lia; auto.
             intros e' He'. destruct (Nat.eq_dec e' (end_ x)) as [->|]; [lia|apply I3; lia].
          -- destruct (clk (end_ x) - clk (start x) <? L) eqn:EL.
             ++ apply IH; [|cbn; lia]. repeat split; cbn [start end_ best bs be]; try lia; auto.
                intros e' He'. destruct (Nat.eq_dec e' (end_ x)) as [->|]; [lia|apply I3; lia].
             ++ (* valid window: end = e_of start *)
                assert (Hne : start x <> end_ x) by (intro X; rewrite X in E0; lia).
                assert (Heo : e_of (start x) = Some (end_ x)).
                { unfold e_of. apply find_end_intro; try lia. intros e' He'. apply I3. lia. }
                assert (Hnext : forall e', (S (start x) <= e' < end_ x)%nat -> clk e' - clk (S (start x)) < L).
                { intros e' He'. assert (clk e' - clk (start x) < L) by (apply I3; lia).
                  assert (clk (start x) <= clk (S (start x))) by (apply sorted; lia). lia. }
                destruct (best x <? sumr (start x) (end_ x - start x)) eqn:EB.
                ** apply IH; [|cbn; lia]. repeat split; cbn [start end_ best bs be]; try lia; auto.
                   rewrite (naive_from_snoc _ 0%nat (start x)). cbn [Nat.add].
                   rewrite <- I4. unfold upd. rewrite Heo, EB. reflexivity.
                ** apply IH; [|cbn; lia]. repeat split; cbn [start end_ best bs be]; try lia; auto.
                   rewrite (naive_from_snoc _ 0%nat (start x)). cbn [Nat.add].
                   rewrite <- I4. unfold upd. rewrite Heo, EB. reflexivity.
  Qed.

  Corollary two_pointer_eq_naive : exists r, loop (2 * n + 2) (mk 0 0 0 0 0) = Some r /\ (best r, bs r, be r) = naive.
  Proof. apply loop_eq_naive; [|cbn; lia]. repeat split; cbn [start end_ best bs be]; try lia. Qed.
End Window.
Print Assumptions two_pointer_eq_naive.
