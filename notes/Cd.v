From Coq Require Import QArith Qminmax Lqa.
Open Scope Q_scope.

Definition cd1 (x r : Q) : Q :=
  if Qle_bool (x * (1 - (1#100) * r)) 1000 then Qmin x 1000 else x * (1 - (1#100) * r).

Definition applied (c d : Q) : Q :=
  if Qle_bool (d - c) 10000 then
    let cap := Qmin 10000 d in
    let left := (c - (d - cap)) * (1#1000) in
    cap * (1 - left * (5#100))
  else d - c.

Definition cooldown (x r c : Q) : Q :=
  let d := cd1 x r in Qmax (applied c d) (Qmin d 5000).

Lemma Qmin_cases a b : (a <= b /\ Qmin a b == a) \/ (b <= a /\ Qmin a b == b).
Proof. destruct (Q.min_spec a b) as [[H E]|[H E]]; [left|right]; split; try rewrite E; try reflexivity; lra. Qed.
Lemma Qmax_cases a b : (a <= b /\ Qmax a b == b) \/ (b <= a /\ Qmax a b == a).
Proof. destruct (Q.max_spec a b) as [[H E]|[H E]]; [left|right]; split; try rewrite E; try reflexivity; lra. Qed.

Lemma applied_mono_c c c' d : 0 <= d -> c <= c' -> applied c' d <= applied c d.
Proof.
  intros Hd Hc. unfold applied.
  destruct (Qle_bool (d - c') 10000) eqn:E1; destruct (Qle_bool (d - c) 10000) eqn:E2;
  try (apply Qle_bool_iff in E1); try (apply Qle_bool_iff in E2);
  try (assert (~ d - c' <= 10000) by (intro X; apply Qle_bool_iff in X; congruence));
  try (assert (~ d - c <= 10000) by (intro X; apply Qle_bool_iff in X; congruence)).
  - destruct (Qmin_cases 10000 d) as [[H1 H2]|[H1 H2]]; rewrite !H2; nra.
  - destruct (Qmin_cases 10000 d) as [[H1 H2]|[H1 H2]]; rewrite !H2; nra.
  - lra.
  - lra.
Qed.
