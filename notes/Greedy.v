From Coq Require Import List QArith Lia Bool Arith.
Import ListNotations.
Close Scope Q_scope.
Open Scope nat_scope.

Section Greedy.
  Definition state := list nat.
  Variables value cost : state -> Q.
  Variable incs : list (list nat).
  Variable max_step : nat.
  Variable max_cost : Q.
  Hypothesis incs_nonempty : forall inc, In inc incs -> inc <> [].

  Fixpoint bump (st : state) (i : nat) : state :=
    match st, i with
    | [], _ => []
    | x :: r, O => S x :: r
    | x :: r, S i' => x :: bump r i'
    end.
  (* get_stepped_target: apply the increments one at a time, fail as soon as a slot exceeds the maximum *)
  Fixpoint stepped (st : state) (inc : list nat) : option state :=
    match inc with
    | [] => Some st
    | i :: r => let st' := bump st i in
                if Nat.ltb max_step (nth i st' 0) then None else stepped st' r
    end.

  Definition NO := (-999 # 1)%Q.
  Definition reward (st : state) (inc : list nat) : Q :=
    match stepped st inc with
    | None => NO
    | Some st' => if Qle_bool (cost st') max_cost then (value st' / value st - 1) / (cost st' - cost st) else NO
    end.
  Definition better (a b : Q) : bool := negb (Qle_bool a b).     (* a > b *)

  Definition stepf (st : state) (acc : list nat * Q) (inc : list nat) : list nat * Q :=
    let r := reward st inc in if better r (snd acc) then (inc, r) else acc.
  Definition optimal_increment (st : state) : list nat * Q := fold_left (stepf st) incs ([], (-1 # 1)%Q).

  Fixpoint optimize (fuel : nat) (st : state) : option state :=
    match fuel with
    | O => None
    | S f => match fst (optimal_increment st) with
             | [] => Some st
             | inc => match stepped st inc with Some st' => optimize f st' | None => None end
             end
    end.

  Definition le_state (a b : state) : Prop := Forall2 le a b.
  Definition bounded (a : state) : Prop := Forall (fun x => x <= max_step) a.

  Lemma le_state_refl a : le_state a a. Proof. induction a; constructor; auto. Qed.
  Lemma le_state_trans a b c : le_state a b -> le_state b c -> le_state a c.
  Proof.
    unfold le_state. intros H; revert c; induction H as [|x y l l' Hxy Hl IH]; intros c Hc.
    - inversion Hc; subst; constructor.
    - inversion Hc; subst. constructor; [lia|]. apply IH. assumption.
  Qed.
  Lemma bump_le st i : le_state st (bump st i).
  Proof.
    unfold le_state. revert i; induction st as [|x r IH]; intros [|i]; cbn; try constructor; auto; try apply le_state_refl; try apply IH.
  Qed.

  Lemma stepped_cons st i r : stepped st (i :: r) = if Nat.ltb max_step (nth i (bump st i) 0) then None else stepped (bump st i) r.
  Proof. reflexivity. Qed.

  Lemma stepped_le : forall inc st st', stepped st inc = Some st' -> le_state st st'.
  Proof.
    induction inc as [|i r IH]; intros st st' X.
    - cbn in X. inversion X. apply le_state_refl.
    - rewrite stepped_cons in X. destruct (Nat.ltb max_step (nth i (bump st i) 0)); [discriminate X|].
      eapply le_state_trans; [apply bump_le|apply IH, X].
  Qed.

  Lemma bump_bounded st i : bounded st -> nth i (bump st i) 0 <= max_step -> bounded (bump st i).
  Proof.
    unfold bounded. revert i; induction st as [|x r IH]; intros i Hb Hn.
    - destruct i; cbn; constructor.
    - inversion Hb as [|? ? Hx Hr]; subst. destruct i as [|i]; cbn in *.
      + constructor; auto.
      + constructor; auto.
  Qed.

  Lemma stepped_bounded : forall inc st st', bounded st -> stepped st inc = Some st' -> bounded st'.
  Proof.
    induction inc as [|i r IH]; intros st st' Hb X.
    - cbn in X. inversion X; subst; auto.
    - rewrite stepped_cons in X. destruct (Nat.ltb max_step (nth i (bump st i) 0)) eqn:E; [discriminate X|]. apply Nat.ltb_ge in E.
      eapply IH; [|exact X]. apply bump_bounded; auto.
  Qed.

  (* the fold keeps the first strict maximum above -1 *)
  Lemma optimal_unfold st : optimal_increment st = fold_left (stepf st) incs ([], (-1 # 1)%Q).
  Proof. reflexivity. Qed.

  Definition good (st : state) (acc : list nat * Q) : Prop :=
    (fst acc = [] /\ (snd acc == -1 # 1)%Q) \/ ((snd acc == reward st (fst acc))%Q /\ (-1 # 1 < snd acc)%Q).

  Lemma fold_spec st : forall l acc, good st acc ->
    let res := fold_left (stepf st) l acc in
    (snd acc <= snd res)%Q /\ (forall inc, In inc l -> reward st inc <= snd res)%Q /\
    ((res = acc) \/ (In (fst res) l /\ (snd res == reward st (fst res))%Q /\ (-1 # 1 < snd res)%Q)).
  Proof.
    induction l as [|x l IH]; intros acc Hg; cbn [fold_left].
    - split; [apply Qle_refl|]. split; [intros ? []|]. left; reflexivity.
    - destruct (Qle_bool (reward st x) (snd acc)) eqn:E.
      + assert (Hs : stepf st acc x = acc) by (unfold stepf, better; rewrite E; reflexivity). rewrite Hs.
        apply Qle_bool_iff in E. destruct (IH acc Hg) as (A & B & C).
        split; [exact A|]. split.
        * intros inc [<-|Hin]; [apply Qle_trans with (snd acc); [exact E|exact A]|apply B; exact Hin].
        * destruct C as [C|(C1 & C2 & C3)]; [left; exact C|right; split; [right; exact C1|split; auto]].
      + assert (Hs : stepf st acc x = (x, reward st x)) by (unfold stepf, better; rewrite E; reflexivity). rewrite Hs.
        assert (Hgt : (snd acc < reward st x)%Q) by (apply Qnot_le_lt; intro X; apply Qle_bool_iff in X; congruence).
        assert (Hg' : good st (x, reward st x)).
        { right. cbn [fst snd]. split; [apply Qeq_refl|]. destruct Hg as [[_ H]|[_ H]]; [rewrite <- H; exact Hgt|eapply Qlt_trans; eauto]. }
        destruct (IH (x, reward st x) Hg') as (A & B & C). cbn [fst snd] in A.
        split; [eapply Qle_trans; [apply Qlt_le_weak, Hgt|exact A]|]. split.
        * intros inc [<-|Hin]; [exact A|auto].
        * right. destruct C as [C|(C1 & C2 & C3)].
          -- rewrite C. cbn [fst snd]. split; [left; reflexivity|]. split; [apply Qeq_refl|].
             destruct Hg' as [[_ H]|[_ H]]; cbn [fst snd] in H; [|exact H].
             exfalso. rewrite H in Hgt. destruct Hg as [[_ H0]|[_ H0]]; [rewrite H0 in Hgt; eapply Qlt_irrefl; eauto|].
             eapply Qlt_irrefl. eapply Qlt_trans; eauto.
          -- split; [right; exact C1|split; auto].
  Qed.

  Lemma optimal_spec st :
    (forall inc, In inc incs -> reward st inc <= snd (optimal_increment st))%Q /\
    ((fst (optimal_increment st) = [] /\ (snd (optimal_increment st) == -1 # 1)%Q) \/
     (In (fst (optimal_increment st)) incs /\ (snd (optimal_increment st) == reward st (fst (optimal_increment st)))%Q /\ (-1 # 1 < snd (optimal_increment st))%Q)).
  Proof.
    rewrite optimal_unfold.
    destruct (fold_spec st incs ([], (-1 # 1)%Q)) as (A & B & C); [left; split; [reflexivity|apply Qeq_refl]|].
    split; [exact B|]. destruct C as [C|C]; [left; rewrite C; split; [reflexivity|apply Qeq_refl]|right; exact C].
  Qed.

  (* ---------- invariants of the whole run ---------- *)
  Theorem optimize_inv : forall fuel st st', bounded st -> optimize fuel st = Some st' ->
    le_state st st' /\ bounded st' /\ (st' = st \/ Qle_bool (cost st') max_cost = true) /\
    (forall inc, In inc incs -> reward st' inc <= -1 # 1)%Q.
  Proof.
    induction fuel as [|f IH]; intros st st' Hb; cbn [optimize]; [discriminate|].
    destruct (optimal_spec st) as [Hall Hbest].
    destruct (fst (optimal_increment st)) as [|i bi'] eqn:Ebi.
    - intros X; inversion X; subst. split; [apply le_state_refl|]. split; [auto|]. split; [left; reflexivity|].
      destruct Hbest as [[_ E]|[Hin0 _]]; [|exfalso; exact (incs_nonempty _ Hin0 eq_refl)]. intros inc Hin. rewrite <- E. apply Hall, Hin.
    - destruct (stepped st (i :: bi')) as [st1|] eqn:Es; [|discriminate]. intros X.
      destruct Hbest as [[D _]|(Hin & Hr & Hgt)]; [discriminate|].
      destruct (IH st1 st' (stepped_bounded _ _ _ Hb Es) X) as (A & B & C & D).
      split; [eapply le_state_trans; [eapply stepped_le; eauto|exact A]|]. split; [exact B|]. split; [|exact D].
      right. destruct C as [->|C]; [|exact C].
      unfold reward in Hr. rewrite Es in Hr. destruct (Qle_bool (cost st1) max_cost) eqn:Eb; [reflexivity|].
      exfalso. rewrite Hr in Hgt. unfold NO in Hgt. revert Hgt. apply Qle_not_lt. discriminate.
  Qed.
End Greedy.
Print Assumptions optimize_inv.
