From Coq Require Import ZArith QArith List Lia Bool Lqa.
Import ListNotations.

(* the table as T-num would emit it from simulate/report/dpm.py *)
Definition table : list Q := [12#10;118#100;116#100;114#100;112#100;11#10;10584#10000;10070#10000;9672#10000;9180#10000;88#100;
  85#100;83#100;80#100;78#100;75#100;73#100;70#100;68#100;65#100;63#100;60#100;58#100;55#100;53#100;50#100;48#100;45#100;43#100;40#100;38#100;
  35#100;33#100;30#100;28#100;25#100;23#100;20#100;18#100;15#100;13#100;10#100;8#100;5#100;2#100;0#100].
Definition bias : Z := 5.

(* with the `>=` repair; the shipped `>` version returns None (IndexError) at index 46 *)
Definition get_advantage (ge_fix : bool) (mob chr : Z) : option Q :=
  let idx := (mob - chr + bias)%Z in
  if (idx <? 0)%Z then nth_error table 0
  else if (if ge_fix then Z.of_nat (length table) <=? idx else Z.of_nat (length table) <? idx)%Z then Some 0
  else nth_error table (Z.to_nat idx).

Definition tnth (i : nat) : Q := nth i table 0.

Lemma table_range_b : forallb (fun q => Qle_bool 0 q && Qle_bool q (12#10)) table = true. Proof. vm_compute. reflexivity. Qed.
Lemma table_sorted_b : forallb (fun i => Qle_bool (tnth (S i)) (tnth i)) (seq 0 45) = true. Proof. vm_compute. reflexivity. Qed.

Lemma tnth_sorted_step i : (i < 45)%nat -> tnth (S i) <= tnth i.
Proof. intros H. pose proof table_sorted_b as B. rewrite forallb_forall in B. apply Qle_bool_iff, B, in_seq. lia. Qed.
Lemma tnth_antitone i j : (i <= j)%nat -> (j <= 45)%nat -> tnth j <= tnth i.
Proof. induction 1; intros Hj; [apply Qle_refl|]. eapply Qle_trans; [apply tnth_sorted_step; lia|apply IHle; lia]. Qed.
Lemma tnth_range i : (i < 46)%nat -> 0 <= tnth i <= 12#10.
Proof.
  intros H. pose proof table_range_b as B. rewrite forallb_forall in B.
  assert (In (tnth i) table) by (apply nth_In; exact H). specialize (B _ H0). apply andb_true_iff in B. destruct B as [B1 B2].
  split; apply Qle_bool_iff; assumption.
Qed.

Definition adv (d : Z) : Q := match get_advantage true d 0 with Some q => q | None => 0 end.

Theorem level_adv_total mob chr : exists q, get_advantage true mob chr = Some q.
Proof.
  unfold get_advantage. destruct (mob - chr + bias <? 0)%Z eqn:E1; [eexists; reflexivity|].
  destruct (Z.of_nat (length table) <=? mob - chr + bias)%Z eqn:E2; [eexists; reflexivity|].
  apply Z.ltb_ge in E1. apply Z.leb_gt in E2.
  destruct (nth_error table (Z.to_nat (mob - chr + bias))) eqn:E; [eauto|]. apply nth_error_None in E. lia.
Qed.

Theorem level_adv_refuted_shipped : get_advantage false 241 200 = None.
Proof. reflexivity. Qed.

Lemma get_adv_val mob chr : get_advantage true mob chr = Some
   (let idx := (mob - chr + bias)%Z in if (idx <? 0)%Z then tnth 0 else if (46 <=? idx)%Z then 0 else tnth (Z.to_nat idx)).
Proof.
  unfold get_advantage. change (Z.of_nat (length table)) with 46%Z. cbv zeta.
  destruct (mob - chr + bias <? 0)%Z eqn:E1; [reflexivity|]. destruct (46 <=? mob - chr + bias)%Z eqn:E2; [reflexivity|].
  apply Z.ltb_ge in E1. apply Z.leb_gt in E2. apply nth_error_nth'. change (length table) with 46%nat. lia.
Qed.

Theorem level_adv_range mob chr q : get_advantage true mob chr = Some q -> 0 <= q <= 12#10.
Proof.
  rewrite get_adv_val. intros X; inversion X; subst; clear X. cbv zeta.
  destruct (mob - chr + bias <? 0)%Z eqn:E1; [apply tnth_range; lia|]. destruct (46 <=? mob - chr + bias)%Z eqn:E2; [split; [apply Qle_refl|discriminate]|].
  apply Z.ltb_ge in E1. apply Z.leb_gt in E2. apply tnth_range. lia.
Qed.

(* never increases as the monster out-levels the character *)
Theorem level_adv_antitone m1 m2 chr q1 q2 : (m1 <= m2)%Z -> get_advantage true m1 chr = Some q1 -> get_advantage true m2 chr = Some q2 -> q2 <= q1.
Proof.
  intros Hm. rewrite !get_adv_val. intros X1 X2; inversion X1; inversion X2; subst; clear X1 X2. cbv zeta.
  destruct (m1 - chr + bias <? 0)%Z eqn:A1; destruct (m2 - chr + bias <? 0)%Z eqn:A2;
  destruct (46 <=? m1 - chr + bias)%Z eqn:B1; destruct (46 <=? m2 - chr + bias)%Z eqn:B2;
  try apply Z.ltb_lt in A1; try apply Z.ltb_ge in A1; try apply Z.ltb_lt in A2; try apply Z.ltb_ge in A2;
  try apply Z.leb_le in B1; try apply Z.leb_gt in B1; try apply Z.leb_le in B2; try apply Z.leb_gt in B2; try lia;
  try apply Qle_refl; try (apply tnth_range; lia); try (apply tnth_antitone; lia).
Qed.
Print Assumptions level_adv_antitone.
