From Coq Require Import List QArith Lqa Bool.
Import ListNotations.

Section Report.
  Variable Name : Type.
  Variable neqb : Name -> Name -> bool.
  Definition log := (Name * Q)%type.                 (* (skill name, damage of that log as computed by get_damage) *)
  Definition entry := list log.

  Definition entry_damage (e : entry) : Q := fold_right (fun l acc => snd l + acc) 0 e.      (* calculate_damage *)
  Definition total_damage (es : list entry) : Q := fold_right (fun e acc => entry_damage e + acc) 0 es.

  (* DamageShareFeature: dict name -> accumulated damage, insertion ordered *)
  Fixpoint upd (acc : list log) (n : Name) (d : Q) : list log :=
    match acc with
    | [] => [(n, 0 + d)]
    | (m, v) :: r => if neqb m n then (m, v + d) :: r else (m, v) :: upd r n d
    end.
  Definition update_entry (acc : list log) (e : entry) := fold_left (fun a l => upd a (fst l) (snd l)) e acc.
  Definition shares_acc (es : list entry) := fold_left update_entry es [].
  Definition sumv (acc : list log) : Q := fold_right (fun l a => snd l + a) 0 acc.

  Lemma sumv_upd acc n d : sumv (upd acc n d) == sumv acc + d.
  Proof.
    induction acc as [|[m v] r IH]; cbn [upd sumv fold_right snd]; [ring|].
    destruct (neqb m n); cbn [sumv fold_right snd]; [ring|]. fold (sumv (upd r n d)). fold (sumv r). rewrite IH. ring.
  Qed.

  Lemma sumv_update_entry e : forall acc, sumv (update_entry acc e) == sumv acc + entry_damage e.
  Proof.
    unfold update_entry. induction e as [|l e IH]; intros acc; cbn [fold_left entry_damage fold_right]; [ring|].
    rewrite IH, sumv_upd. fold (entry_damage e). ring.
  Qed.

  Theorem total_eq_sum_skills es : sumv (shares_acc es) == total_damage es.
  Proof.
    unfold shares_acc. assert (G : forall acc, sumv (fold_left update_entry es acc) == sumv acc + total_damage es).
    { induction es as [|e es IH]; intros acc; cbn [fold_left total_damage fold_right]; [ring|]. rewrite IH, sumv_update_entry. fold (total_damage es). ring. }
    rewrite G. cbn [sumv fold_right]. ring.
  Qed.

  (* shares *)
  Definition shares (es : list entry) : list log := let t := sumv (shares_acc es) in map (fun l => (fst l, snd l / t)) (shares_acc es).
  Lemma sum_div acc t : ~ t == 0 -> sumv (map (fun l : log => (fst l, snd l / t)) acc) == sumv acc / t.
  Proof.
    intros Ht. induction acc as [|l r IH]; cbn [map sumv fold_right fst snd]; [field; auto|].
    fold (sumv (map (fun l : log => (fst l, snd l / t)) r)). fold (sumv r). rewrite IH. field; auto.
  Qed.
  Theorem shares_sum_1 es : ~ total_damage es == 0 -> sumv (shares es) == 1.
  Proof.
    intros Ht. unfold shares. rewrite sum_div; [field|]; rewrite total_eq_sum_skills; auto.
  Qed.

  Lemma upd_nonneg acc n d : 0 <= d -> Forall (fun l => 0 <= snd l) acc -> Forall (fun l => 0 <= snd l) (upd acc n d).
  Proof.
    intros Hd. induction acc as [|[m v] r IH]; intros Hf; cbn.
    - constructor; [cbn; lra|constructor].
    - inversion Hf; subst. destruct (neqb m n); constructor; cbn in *; auto; lra.
  Qed.
End Report.
Print Assumptions total_eq_sum_skills.
Print Assumptions shares_sum_1.
