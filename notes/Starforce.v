Require Import SfTables.
From Coq Require Import ZArith List Lia Bool.
Import ListNotations.
Open Scope Z_scope.

(* `for item in reversed(data): if level >= item[0]: return item[target_star]` *)
Fixpoint select_rev (rows : list (list Z)) (lvl : Z) : option (list Z) :=
  match rows with
  | [] => None
  | r :: rest => match select_rev rest lvl with
                 | Some x => Some x
                 | None => if hd 0 r <=? lvl then Some r else None
                 end
  end.
Definition increment (tbl : list (list Z)) (lvl : Z) (star : nat) : option Z :=
  match select_rev tbl lvl with Some r => nth_error r star | None => None end.

(* Enhancement.max_star *)
Definition star_data : list (Z * nat * nat) := [(0, 5%nat, 3%nat); (95, 8%nat, 5%nat); (110, 10%nat, 8%nat); (120, 15%nat, 10%nat); (130, 20%nat, 12%nat); (140, 25%nat, 15%nat)].
Fixpoint max_star_scan (data : list (Z * nat * nat)) (lvl : Z) (cur : option (nat * nat)) : option (nat * nat) :=
  match data with
  | [] => cur
  | (l, a, b) :: rest => if l <=? lvl then max_star_scan rest lvl (Some (a, b)) else cur      (* break *)
  end.
Definition max_star (lvl : Z) (superior : bool) (scrollable : bool) : nat :=
  if negb scrollable then 0%nat else
  match max_star_scan star_data lvl None with None => 0%nat | Some (a, b) => if superior then b else a end.

Lemma select_in tbl lvl r : select_rev tbl lvl = Some r -> In r tbl.
Proof. induction tbl as [|x t IH]; cbn; [discriminate|]. destruct (select_rev t lvl); [intros X; inversion X; subst; right; auto|]. destruct (hd 0 x <=? lvl); [intros X; inversion X; left; reflexivity|discriminate]. Qed.

Lemma select_total tbl lvl : (exists r t, tbl = r :: t /\ hd 0 r <= 0) -> 0 <= lvl -> exists r, select_rev tbl lvl = Some r.
Proof.
  intros (r & t & -> & H0) Hl. cbn. destruct (select_rev t lvl); [eauto|].
  destruct (hd 0 r <=? lvl) eqn:E; [eauto|]. apply Z.leb_gt in E. lia.
Qed.

Lemma max_star_bound lvl sup scr : (max_star lvl sup scr <= (if sup then 15 else 25))%nat.
Proof.
  unfold max_star. destruct scr; cbn [negb]; [|destruct sup; lia]. unfold star_data; cbn [max_star_scan].
  repeat match goal with |- context [?a <=? lvl] => destruct (a <=? lvl) end; destruct sup; cbn; lia.
Qed.

(* every row is long enough and non-negative from column 1 on: checked on the extracted tables *)
Definition row_ok (n : nat) (r : list Z) : bool := (n <=? length r)%nat && forallb (fun z => 0 <=? z) (tl r).
Lemma tables_ok :
  forallb (row_ok 26) starforce_weapon_att_increments && forallb (row_ok 26) starforce_att_increments &&
  forallb (row_ok 26) starforce_stat_increments && forallb (row_ok 16) superior_att_increments &&
  forallb (row_ok 16) superior_stat_increments && (26 <=? length glove_bonus)%nat && (26 <=? length mhp_bonus)%nat = true.
Proof. vm_compute. reflexivity. Qed.

Lemma row_ok_nth n r star : row_ok n r = true -> (1 <= star < n)%nat -> exists v, nth_error r star = Some v /\ 0 <= v.
Proof.
  unfold row_ok. intros H Hs. apply andb_true_iff in H. destruct H as [Hl Hn]. apply Nat.leb_le in Hl.
  destruct (nth_error r star) as [v|] eqn:E; [|apply nth_error_None in E; lia]. exists v. split; [reflexivity|].
  destruct r as [|h t]; [destruct star; discriminate|]. destruct star as [|s]; [lia|]. cbn in E, Hn.
  rewrite forallb_forall in Hn. apply Z.leb_le. apply Hn. eapply nth_error_In; eauto.
Qed.

(* C17, one table: for every level >= 0 and every star up to the cap, the increment exists and is non-negative *)
Theorem stat_increment_defined lvl star scr : 0 <= lvl -> (1 <= star <= max_star lvl false scr)%nat ->
  exists v, increment starforce_stat_increments lvl star = Some v /\ 0 <= v.
Proof.
  intros Hl Hs. pose proof (max_star_bound lvl false scr) as B. cbn in B.
  destruct (select_total starforce_stat_increments lvl) as [r Hr]; [do 2 eexists; split; [reflexivity|cbn; lia]|exact Hl|].
  unfold increment. rewrite Hr. apply (row_ok_nth 26); [|lia].
  pose proof tables_ok as T. repeat (apply andb_true_iff in T; destruct T as [T ?]).
  match goal with H : forallb (row_ok 26) starforce_stat_increments = true |- _ => rewrite forallb_forall in H; apply H end.
  eapply select_in; eauto.
Qed.
Theorem superior_increment_defined lvl star scr : 0 <= lvl -> (1 <= star <= max_star lvl true scr)%nat ->
  exists v, increment superior_stat_increments lvl star = Some v /\ 0 <= v.
Proof.
  intros Hl Hs. pose proof (max_star_bound lvl true scr) as B. cbn in B.
  destruct (select_total superior_stat_increments lvl) as [r Hr]; [do 2 eexists; split; [reflexivity|cbn; lia]|exact Hl|].
  unfold increment. rewrite Hr. apply (row_ok_nth 16); [|lia].
  pose proof tables_ok as T. repeat (apply andb_true_iff in T; destruct T as [T ?]).
  match goal with H : forallb (row_ok 16) superior_stat_increments = true |- _ => rewrite forallb_forall in H; apply H end.
  eapply select_in; eauto.
Qed.
Print Assumptions stat_increment_defined.
