(* Effect skeletons: ownership tags, an instrumented dynamic semantics, a static checker, soundness. *)
From Coq Require Import List Bool Arith Lia PeanoNat.
Import ListNotations.

Definition var := nat.
Inductive tag := L (* deep-fresh, exclusively local *) | P (* protected: parameter / self / global reachable *).
Definition tag_eqb a b := match a, b with L, L | P, P => true | _, _ => false end.

Inductive src :=
| SFresh                      (* deepcopy / constructor over primitives / literal *)
| SFrom (ys : list var).      (* attribute of, alias of, or result of a call over ys: fresh only if all ys are *)

Inductive stmt :=
| Bind (x : var) (s : src)
| Mut (x : var)               (* in-place mutation of the object x denotes (or a part of it) *)
| Store (x y : var)           (* x.attr := y *)
| WriteSelf
| Impure
| If (a b : list stmt)
| Loop (body : list stmt)
| Return.

(* ---------- instrumented dynamic semantics ---------- *)
Definition obj := nat.
Record dstate := { env : var -> obj; otag : obj -> tag }.

Inductive outcome := Ok (d : dstate) | Ret (d : dstate) | Violation.

Definition upd_env (d : dstate) (x : var) (o : obj) : dstate :=
  {| env := fun v => if Nat.eqb v x then o else env d v; otag := otag d |}.

(* demote a set of objects (those reaching a protected reference) *)
Definition demote (d : dstate) (S : obj -> bool) : dstate :=
  {| env := env d; otag := fun o => if S o then P else otag d o |}.

Inductive step : dstate -> stmt -> outcome -> Prop :=
| st_bind_fresh d x o : (forall v, env d v <> o) ->      (* a genuinely new object *)
    step d (Bind x SFresh) (Ok {| env := env (upd_env d x o); otag := fun o' => if Nat.eqb o' o then L else otag d o' |})
| st_bind_from d x ys o : ((forall y, In y ys -> otag d (env d y) = L) -> otag d o = L) -> step d (Bind x (SFrom ys)) (Ok (upd_env d x o))
| st_mut_ok d x : otag d (env d x) = L -> step d (Mut x) (Ok d)
| st_mut_bad d x : otag d (env d x) = P -> step d (Mut x) Violation
| st_store_bad d x y : otag d (env d x) = P -> step d (Store x y) Violation
| st_store_LL d x y : otag d (env d x) = L -> otag d (env d y) = L -> step d (Store x y) (Ok d)
| st_store_LP d x y S : otag d (env d x) = L -> otag d (env d y) = P -> S (env d x) = true -> step d (Store x y) (Ok (demote d S))
| st_self d : step d WriteSelf Violation
| st_impure d : step d Impure Violation
| st_if_a d a b r : steps d a r -> step d (If a b) r
| st_if_b d a b r : steps d b r -> step d (If a b) r
| st_loop_0 d body : step d (Loop body) (Ok d)
| st_loop_S d body d' r : steps d body (Ok d') -> step d' (Loop body) r -> step d (Loop body) r
| st_loop_stop d body r : steps d body r -> (forall d', r <> Ok d') -> step d (Loop body) r
| st_ret d : step d Return (Ret d)
with steps : dstate -> list stmt -> outcome -> Prop :=
| ss_nil d : steps d [] (Ok d)
| ss_cons_ok d s d' rest r : step d s (Ok d') -> steps d' rest r -> steps d (s :: rest) r
| ss_cons_stop d s rest r : step d s r -> (forall d', r <> Ok d') -> steps d (s :: rest) r.

Scheme step_ind2 := Minimality for step Sort Prop
with steps_ind2 := Minimality for steps Sort Prop.
Combined Scheme step_steps_ind from step_ind2, steps_ind2.

(* ---------- static checker: sigma = the set of variables known to denote L objects ---------- *)
Definition sigma := list var.
Definition mem (x : var) (s : sigma) : bool := existsb (Nat.eqb x) s.
Definition inter (a b : sigma) : sigma := filter (fun x => mem x b) a.
Definition subset (a b : sigma) : bool := forallb (fun x => mem x b) a.
Definition remove (x : var) (s : sigma) : sigma := filter (fun v => negb (Nat.eqb v x)) s.

Section Check.
  Variable check : stmt -> sigma -> option sigma.
  Fixpoint checks_with (l : list stmt) (s : sigma) : option sigma :=
    match l with [] => Some s | x :: r => match check x s with Some s' => checks_with r s' | None => None end end.
  Fixpoint iter_with (body : list stmt) (n : nat) (inv : sigma) : option sigma :=
    match n with O => None | S n' =>
      match checks_with body inv with
      | None => None
      | Some out => if subset inv out then Some inv else iter_with body n' (inter inv out)
      end end.
End Check.

Fixpoint check (fuel : nat) (st : stmt) (s : sigma) {struct fuel} : option sigma :=
  match fuel with O => None | S f =>
  match st with
  | Bind x SFresh => Some (x :: remove x s)
  | Bind x (SFrom ys) => if forallb (fun y => mem y s) ys then Some (x :: remove x s) else Some (remove x s)
  | Mut x => if mem x s then Some s else None
  | Store x y => if mem x s then (if mem y s then Some s else Some []) else None
  | WriteSelf | Impure => None
  | If a b => match checks_with (check f) a s, checks_with (check f) b s with Some sa, Some sb => Some (inter sa sb) | _, _ => None end
  | Loop body => iter_with (check f) body (S (length s)) s
  | Return => Some s
  end end.

Definition checks (fuel : nat) := checks_with (check fuel).

Definition agree (s : sigma) (d : dstate) : Prop := forall x, mem x s = true -> otag d (env d x) = L.

Lemma mem_spec x s : mem x s = true <-> In x s.
Proof. unfold mem. rewrite existsb_exists. split; [intros [y [H E]]; apply Nat.eqb_eq in E; subst; auto | intros H; exists x; split; auto; apply Nat.eqb_refl]. Qed.
Lemma mem_inter x a b : mem x (inter a b) = true <-> mem x a = true /\ mem x b = true.
Proof. rewrite !mem_spec. unfold inter. rewrite filter_In, mem_spec. tauto. Qed.
Lemma mem_remove x y s : mem y (remove x s) = true <-> mem y s = true /\ y <> x.
Proof. rewrite !mem_spec. unfold remove. rewrite filter_In, negb_true_iff, Nat.eqb_neq. tauto. Qed.
Lemma subset_spec a b : subset a b = true <-> forall x, mem x a = true -> mem x b = true.
Proof. unfold subset. rewrite forallb_forall. split; intros H x Hx; [apply H, mem_spec, Hx | apply H, mem_spec, Hx]. Qed.
Lemma agree_mono a b d : (forall x, mem x a = true -> mem x b = true) -> agree b d -> agree a d.
Proof. intros H A x Hx. apply A, H, Hx. Qed.

Lemma iter_spec chk body n s inv : iter_with chk body n s = Some inv ->
  (forall x, mem x inv = true -> mem x s = true) /\ exists out, checks_with chk body inv = Some out /\ subset inv out = true.
Proof.
  revert s. induction n as [|n IH]; intros s; cbn; [discriminate|].
  destruct (checks_with chk body s) as [out|] eqn:E; [|discriminate].
  destruct (subset s out) eqn:Sb.
  - intros X; inversion X; subst. split; [auto|]. exists out. auto.
  - intros X. destruct (IH _ X) as [A B]. split; [|exact B]. intros x Hx. apply A in Hx. apply mem_inter in Hx. tauto.
Qed.

Lemma iter_stable chk body n inv out : checks_with chk body inv = Some out -> subset inv out = true -> iter_with chk body (S n) inv = Some inv.
Proof. intros E Sb. cbn. rewrite E, Sb. reflexivity. Qed.

Definition goodr (s' : sigma) (r : outcome) : Prop := r <> Violation /\ forall d', r = Ok d' -> agree s' d'.

Theorem check_sound :
  (forall d st r, step d st r -> forall fuel s s', check fuel st s = Some s' -> agree s d -> goodr s' r) /\
  (forall d l r, steps d l r -> forall fuel s s', checks_with (check fuel) l s = Some s' -> agree s d -> goodr s' r).
Proof.
  apply step_steps_ind.
  - (* bind fresh *) intros d x o Hfresh [|f] s s' Hc A; cbn in Hc; [discriminate|]. inversion Hc; subst; clear Hc.
    split; [discriminate|]. intros d' E; inversion E; subst; clear E. intros y Hy. cbn in Hy |- *.
    destruct (Nat.eqb y x) eqn:Eyx.
    + rewrite Nat.eqb_refl. reflexivity.
    + apply orb_true_iff in Hy. destruct Hy as [Hy|Hy]; [rewrite Nat.eqb_sym in Eyx; congruence|].
      apply mem_remove in Hy. destruct Hy as [Hy _].
      destruct (Nat.eqb (env d y) o) eqn:Eo; [reflexivity|]. apply A, Hy.
  - (* bind from *) intros d x ys o Hdyn [|f] s s' Hc A; cbn in Hc; [discriminate|].
    split; [discriminate|]. intros d' E; inversion E; subst; clear E.
    destruct (forallb (fun y => mem y s) ys) eqn:Eall; inversion Hc; subst; clear Hc; intros y Hy; cbn in Hy |- *.
    + destruct (Nat.eqb y x) eqn:Eyx.
      * apply Hdyn. intros z Hz. apply A. rewrite forallb_forall in Eall. apply Eall, Hz.
      * apply orb_true_iff in Hy. destruct Hy as [Hy|Hy]; [rewrite Nat.eqb_sym in Eyx; congruence|].
        apply mem_remove in Hy. apply A, Hy.
    + apply mem_remove in Hy. destruct Hy as [Hy Hne]. apply Nat.eqb_neq in Hne. rewrite Hne. apply A, Hy.
  - (* mut ok *) intros d x Hx [|f] s s' Hc A; cbn in Hc; [discriminate|]. destruct (mem x s); inversion Hc; subst.
    split; [discriminate|]. intros d' E; inversion E; subst; auto.
  - (* mut bad *) intros d x Hx [|f] s s' Hc A; cbn in Hc; [discriminate|]. destruct (mem x s) eqn:M; [|discriminate].
    specialize (A x M). congruence.
  - (* store bad *) intros d x y Hx [|f] s s' Hc A; cbn in Hc; [discriminate|]. destruct (mem x s) eqn:M; [|discriminate].
    specialize (A x M). congruence.
  - (* store LL *) intros d x y Hx Hy [|f] s s' Hc A; cbn in Hc; [discriminate|]. destruct (mem x s); [|discriminate].
    split; [discriminate|]. intros d' E; inversion E; subst. destruct (mem y s); inversion Hc; subst; auto. intros z Hz; discriminate.
  - (* store LP *) intros d x y S0 Hx Hy HS [|f] s s' Hc A; cbn in Hc; [discriminate|]. destruct (mem x s); [|discriminate].
    destruct (mem y s) eqn:My; [specialize (A y My); congruence|]. inversion Hc; subst.
    split; [discriminate|]. intros d' E z Hz. discriminate.
  - (* self *) intros d [|f] s s' Hc; cbn in Hc; discriminate.
  - (* impure *) intros d [|f] s s' Hc; cbn in Hc; discriminate.
  - (* if a *) intros d a b r _ IH [|f] s s' Hc A; cbn in Hc; [discriminate|].
    destruct (checks_with (check f) a s) as [sa|] eqn:Ea; [|discriminate]. destruct (checks_with (check f) b s) as [sb|]; [|discriminate].
    inversion Hc; subst. destruct (IH f s sa Ea A) as [NV G]. split; [exact NV|]. intros d' E.
    eapply agree_mono; [|apply G, E]. intros x Hx. apply mem_inter in Hx. tauto.
  - (* if b *) intros d a b r _ IH [|f] s s' Hc A; cbn in Hc; [discriminate|].
    destruct (checks_with (check f) a s) as [sa|]; [|discriminate]. destruct (checks_with (check f) b s) as [sb|] eqn:Eb; [|discriminate].
    inversion Hc; subst. destruct (IH f s sb Eb A) as [NV G]. split; [exact NV|]. intros d' E.
    eapply agree_mono; [|apply G, E]. intros x Hx. apply mem_inter in Hx. tauto.
  - (* loop 0 *) intros d body [|f] s s' Hc A; [discriminate Hc|]. change (iter_with (check f) body (S (length s)) s = Some s') in Hc. apply iter_spec in Hc. destruct Hc as [Sub _].
    split; [discriminate|]. intros d' E; inversion E; subst. eapply agree_mono; eauto.
  - (* loop S *) intros d body d' r _ IHbody _ IHloop [|f] s s' Hc A; [discriminate Hc|]. change (iter_with (check f) body (S (length s)) s = Some s') in Hc.
    pose proof (iter_spec _ _ _ _ _ Hc) as [Sub [out [Eo Sb]]].
    assert (Ainv : agree s' d) by (eapply agree_mono; eauto).
    destruct (IHbody f s' out Eo Ainv) as [_ G]. specialize (G d' eq_refl).
    assert (Ainv' : agree s' d') by (eapply agree_mono; [apply subset_spec, Sb|exact G]).
    apply (IHloop (S f) s' s'); [|exact Ainv']. change (iter_with (check f) body (S (length s')) s' = Some s'). apply (iter_stable _ _ _ _ out); auto.
  - (* loop stop *) intros d body r _ IHbody Hn [|f] s s' Hc A; [discriminate Hc|]. change (iter_with (check f) body (S (length s)) s = Some s') in Hc.
    pose proof (iter_spec _ _ _ _ _ Hc) as [Sub [out [Eo Sb]]].
    assert (Ainv : agree s' d) by (eapply agree_mono; eauto).
    destruct (IHbody f s' out Eo Ainv) as [NV _]. split; [exact NV|]. intros d' E. exfalso. eapply Hn; eauto.
  - (* return *) intros d [|f] s s' Hc A; cbn in Hc; [discriminate|]. inversion Hc; subst. split; [discriminate|]. intros d' E; discriminate.
  - (* nil *) intros d fuel s s' Hc A; cbn in Hc. inversion Hc; subst. split; [discriminate|]. intros d' E; inversion E; subst; auto.
  - (* cons ok *) intros d st d' rest r _ IH1 _ IH2 fuel s s' Hc A; cbn in Hc.
    destruct (check fuel st s) as [s1|] eqn:E1; [|discriminate].
    destruct (IH1 fuel s s1 E1 A) as [_ G]. apply (IH2 fuel s1 s' Hc). apply G; reflexivity.
  - (* cons stop *) intros d st rest r _ IH1 Hn fuel s s' Hc A; cbn in Hc.
    destruct (check fuel st s) as [s1|] eqn:E1; [|discriminate].
    destruct (IH1 fuel s s1 E1 A) as [NV _]. split; [exact NV|]. intros d' E. exfalso. eapply Hn; eauto.
Qed.

Corollary safe_no_violation fuel prog s s' d r :
  checks fuel prog s = Some s' -> agree s d -> steps d prog r -> r <> Violation.
Proof. intros Hc A Hs. destruct check_sound as [_ H]. exact (proj1 (H d prog r Hs fuel s s' Hc A)). Qed.
Print Assumptions safe_no_violation.

(* examples: variable 0 = state parameter (protected on entry), 1 = periodic_state, 2 = modifier *)
Example good_reducer : checks 5 [Bind 0 SFresh; Mut 0; Return] [] <> None. Proof. vm_compute. discriminate. Qed.
Example hit_limited : checks 8 [Bind 0 SFresh; Mut 0; Bind 1 (SFrom [0]); Loop [Bind 1 (SFrom [1]); If [Return] []]; Mut 1; Store 0 1; Return] [] <> None.
Proof. vm_compute. discriminate. Qed.
Example full_metal_barrage_elapse : checks 5 [Mut 0; Bind 0 (SFrom [0]); Mut 0; Return] [] = None. Proof. reflexivity. Qed.
Example guard_first_ok : checks 5 [If [Return] []; Bind 0 SFresh; Mut 0; Return] [] <> None. Proof. vm_compute. discriminate. Qed.
