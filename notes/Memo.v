(* C20: memoizer coherence and C02: route-cache coherence — both "a memo keyed by a projection is coherent
   when what it stores depends only on that projection". *)
From Coq Require Import List Bool.
Import ListNotations.

Section Memo.
  Variables Prov Key MemoEnv IndepEnv : Type.
  Variable key_eqb : Key -> Key -> bool.
  Hypothesis key_eqb_spec : forall a b, key_eqb a b = true <-> a = b.
  Variable key : Prov -> Key.                       (* sha256 of name + dump without the excluded fields *)
  Variable memo_part : Prov -> MemoEnv.             (* get_memoizable_environment *)
  Variable indep_part : Prov -> IndepEnv.           (* get_memoization_independent_environment *)
  (* serialise / deserialise of the stored memo is the identity on MemoEnv (hypothesis tested by correspondence) *)
  (* the structural fact T-fields establishes: the memoized part reads only key fields *)
  Hypothesis memo_factors : forall p q, key p = key q -> memo_part p = memo_part q.

  Definition store := list (Key * MemoEnv).
  Fixpoint lookup (s : store) (k : Key) : option MemoEnv :=
    match s with [] => None | (k', v) :: r => if key_eqb k' k then Some v else lookup r k end.

  Definition memoize (s : store) (p : Prov) : store * (MemoEnv * IndepEnv) * bool :=
    match lookup s (key p) with
    | Some m => (s, (m, indep_part p), true)
    | None => ((key p, memo_part p) :: s, (memo_part p, indep_part p), false)
    end.

  Definition direct (p : Prov) : MemoEnv * IndepEnv := (memo_part p, indep_part p).

  (* every stored entry is the memo part of some provider with that key *)
  Definition Inv (s : store) : Prop := forall k m, lookup s k = Some m -> exists q, key q = k /\ memo_part q = m.

  Lemma memoize_inv s p : Inv s -> Inv (fst (fst (memoize s p))).
  Proof.
    intros I. unfold memoize. destruct (lookup s (key p)) eqn:E; cbn; [exact I|].
    intros k m. cbn. destruct (key_eqb (key p) k) eqn:Ek.
    - apply key_eqb_spec in Ek. intros X; inversion X; subst. eauto.
    - apply I.
  Qed.

  Theorem memo_coherent_step s p : Inv s -> snd (fst (memoize s p)) = direct p.
  Proof.
    intros I. unfold memoize, direct. destruct (lookup s (key p)) as [m|] eqn:E; cbn; [|reflexivity].
    destruct (I _ _ E) as [q [Kq Mq]]. rewrite <- Mq. f_equal. apply memo_factors. congruence.
  Qed.

  (* any sequence of requests, starting from any exported-and-reimported store that satisfies Inv *)
  Fixpoint serve (s : store) (ps : list Prov) : list (MemoEnv * IndepEnv) :=
    match ps with [] => [] | p :: r => let '(s', out, _) := memoize s p in out :: serve s' r end.
  Theorem memo_coherent ps : forall s, Inv s -> serve s ps = map direct ps.
  Proof.
    induction ps as [|p r IH]; intros s I; cbn; [reflexivity|].
    pose proof (memo_coherent_step s p I) as C. pose proof (memoize_inv s p I) as I'.
    destruct (memoize s p) as [[s' out] hit]. cbn in *. rewrite C, IH; auto.
  Qed.
  Lemma Inv_nil : Inv []. Proof. intros k m X; discriminate. Qed.
End Memo.
Print Assumptions memo_coherent.
