From Coq Require Import ZArith List Lia Bool.
Import ListNotations.
Open Scope Z_scope.

Definition vec := (Z * Z * Z * Z)%type.
Definition vzero : vec := (0, 0, 0, 0).
Definition vadd (a b : vec) : vec := let '(a1,a2,a3,a4) := a in let '(b1,b2,b3,b4) := b in (a1+b1, a2+b2, a3+b3, a4+b4).
Definition vsub (a b : vec) : vec := let '(a1,a2,a3,a4) := a in let '(b1,b2,b3,b4) := b in (a1-b1, a2-b2, a3-b3, a4-b4).
Definition is_zero (a : vec) : bool := let '(a1,a2,a3,a4) := a in (a1 =? 0) && (a2 =? 0) && (a3 =? 0) && (a4 =? 0).
Definition has_neg (a : vec) : bool := let '(a1,a2,a3,a4) := a in (a1 <? 0) || (a2 <? 0) || (a3 <? 0) || (a4 <? 0).
Definition vnonneg (a : vec) : Prop := let '(a1,a2,a3,a4) := a in 0 <= a1 /\ 0 <= a2 /\ 0 <= a3 /\ 0 <= a4.

Fixpoint find_some {A B} (f : A -> option B) (l : list A) : option B :=
  match l with [] => None | x :: r => match f x with Some y => Some y | None => find_some f r end end.

Lemma find_some_some {A B} (f : A -> option B) l y : find_some f l = Some y -> exists x, In x l /\ f x = Some y.
Proof. induction l as [|x r IH]; cbn; [discriminate|]. destruct (f x) eqn:E; [intros X; inversion X; subst; eauto|]. intros X. destruct (IH X) as [z [Hz Fz]]. eauto. Qed.
Lemma find_some_complete {A B} (f : A -> option B) l x : In x l -> f x <> None -> find_some f l <> None.
Proof.
  induction l as [|z r IH]; cbn; [tauto|]. intros [->|Hin] Hf.
  - destruct (f x); [discriminate|congruence].
  - destruct (f z); [discriminate|]. apply IH; auto.
Qed.

Lemma NoDup_snoc {A} (l : list A) x : NoDup l -> ~ In x l -> NoDup (l ++ [x]).
Proof.
  induction l as [|y l IH]; cbn; intros Hn Hx; [constructor; auto; constructor|].
  inversion Hn; subst. constructor; [|apply IH; auto].
  intro Hin. apply in_app_or in Hin. destruct Hin as [Hin|[->|[]]]; auto.
Qed.

Section Search.
  Variable K : Type.
  Variable keqb : K -> K -> bool.
  Hypothesis keqb_spec : forall a b, keqb a b = true <-> a = b.
  Variable sd : K -> Z -> vec.
  Variable grades : list Z.
  Variable cands : vec -> list K.

  Definition memK (k : K) (l : list K) : bool := existsb (keqb k) l.
  Lemma memK_spec k l : memK k l = true <-> In k l.
  Proof. unfold memK. rewrite existsb_exists. split; [intros [x [H E]]; apply keqb_spec in E; subst; auto | intros H; exists k; split; auto; apply keqb_spec; auto]. Qed.

  Fixpoint rec (left : nat) (rem : vec) (forb : list K) : option (list (K * Z)) :=
    if is_zero rem then Some [] else
    match left with
    | O => None
    | S l' =>
      if has_neg rem then None else
      find_some (fun k => if memK k forb then None else
        find_some (fun g => match rec l' (vsub rem (sd k g)) (k :: forb) with Some r => Some (r ++ [(k, g)]) | None => None end) grades)
        (cands rem)
    end.

  Definition vsum (l : list (K * Z)) : vec := fold_right (fun kg acc => vadd (sd (fst kg) (snd kg)) acc) vzero l.

  Lemma is_zero_spec a : is_zero a = true <-> a = vzero.
  Proof. destruct a as [[[a1 a2] a3] a4]. unfold is_zero, vzero. rewrite !andb_true_iff, !Z.eqb_eq. split; [intros [[[-> ->] ->] ->]; reflexivity|intros X; inversion X; auto]. Qed.
  Lemma vadd_0_l x : vadd vzero x = x.
  Proof. destruct x as [[[? ?] ?] ?]. reflexivity. Qed.
  Lemma vadd_assoc x y z : vadd (vadd x y) z = vadd x (vadd y z).
  Proof. destruct x as [[[? ?] ?] ?], y as [[[? ?] ?] ?], z as [[[? ?] ?] ?]. cbn. f_equal; [f_equal; [f_equal|]|]; lia. Qed.
  Lemma vsum_cons x a : vsum (x :: a) = vadd (sd (fst x) (snd x)) (vsum a).
  Proof. reflexivity. Qed.
  Lemma vsum_app a b : vsum (a ++ b) = vadd (vsum a) (vsum b).
  Proof.
    induction a as [|x a IH].
    - cbn [app]. change (vsum []) with vzero. rewrite vadd_0_l. reflexivity.
    - rewrite <- app_comm_cons, !vsum_cons, IH, vadd_assoc. reflexivity.
  Qed.
  Lemma vsub_add rem x r : r = vsub rem x -> vadd r (vadd x vzero) = rem.
  Proof. intros ->. destruct rem as [[[? ?] ?] ?], x as [[[? ?] ?] ?]. cbn. f_equal; [f_equal; [f_equal|]|]; lia. Qed.

  (* ---- soundness ---- *)
  Theorem rec_sound : forall left rem forb l, rec left rem forb = Some l ->
    vsum l = rem /\ NoDup (map fst l) /\ (forall k, In k (map fst l) -> ~ In k forb) /\
    (length l <= left)%nat /\ (forall kg, In kg l -> In (snd kg) grades).
  Proof.
    induction left as [|n IH]; intros rem forb l; cbn [rec].
    - destruct (is_zero rem) eqn:Z0; [|discriminate]. intros X; inversion X; subst. apply is_zero_spec in Z0.
      subst rem. split; [reflexivity|]. split; [constructor|]. split; [intros ? []|]. split; [cbn; lia|intros ? []].
    - destruct (is_zero rem) eqn:Z0.
      + intros X; inversion X; subst. apply is_zero_spec in Z0. subst rem.
        split; [reflexivity|]. split; [constructor|]. split; [intros ? []|]. split; [cbn; lia|intros ? []].
      + destruct (has_neg rem); [discriminate|]. intros X.
        apply find_some_some in X. destruct X as [k [_ Xk]].
        destruct (memK k forb) eqn:Mk; [discriminate|].
        apply find_some_some in Xk. destruct Xk as [g [Hg Xg]].
        destruct (rec n (vsub rem (sd k g)) (k :: forb)) as [r|] eqn:Er; [|discriminate]. inversion Xg; subst l; clear Xg.
        destruct (IH _ _ _ Er) as (S1 & S2 & S3 & S4 & S5).
        assert (Hnk : ~ In k forb) by (intro H; apply memK_spec in H; congruence).
        repeat split.
        * rewrite vsum_app. cbn [vsum fold_right fst snd]. apply vsub_add. exact S1.
        * rewrite map_app. cbn. apply NoDup_snoc; auto. intro Hin. apply (S3 k Hin). left; reflexivity.
        * intros k' Hin. rewrite map_app in Hin. apply in_app_or in Hin. destruct Hin as [Hin|[<-|[]]]; [|exact Hnk].
          intro Hf. apply (S3 k' Hin). right; exact Hf.
        * rewrite app_length. cbn. lia.
        * intros kg Hin. apply in_app_or in Hin. destruct Hin as [Hin|[<-|[]]]; [apply S5; auto|exact Hg].
  Qed.

  (* ---- completeness ---- *)
  Definition vle (a b : vec) : Prop := let '(a1,a2,a3,a4) := a in let '(b1,b2,b3,b4) := b in a1 <= b1 /\ a2 <= b2 /\ a3 <= b3 /\ a4 <= b4.
  Hypothesis sd_nonneg : forall k g, In g grades -> vnonneg (sd k g).
  (* the candidate table offers every kind whose contribution fits under the remainder and is not zero *)
  Hypothesis cands_complete : forall rem k g, In g grades -> vle (sd k g) rem -> sd k g <> vzero -> In k (cands rem).

  Definition valid (l : list (K * Z)) (forb : list K) (left : nat) : Prop :=
    NoDup (map fst l) /\ (forall k, In k (map fst l) -> ~ In k forb) /\ (length l <= left)%nat /\
    (forall kg, In kg l -> In (snd kg) grades).

  Lemma vsum_nonneg l : (forall kg, In kg l -> In (snd kg) grades) -> vnonneg (vsum l).
  Proof.
    induction l as [|x l IH]; intros Hg; [cbn; lia|]. rewrite vsum_cons.
    pose proof (sd_nonneg (fst x) (snd x) (Hg x (or_introl eq_refl))) as N1.
    pose proof (IH (fun kg H => Hg kg (or_intror H))) as N2.
    destruct (sd (fst x) (snd x)) as [[[? ?] ?] ?], (vsum l) as [[[? ?] ?] ?]. cbn in *. lia.
  Qed.
  Lemma nonneg_no_neg a : vnonneg a -> has_neg a = false.
  Proof. destruct a as [[[? ?] ?] ?]. cbn. intros (?&?&?&?). rewrite !orb_false_iff, !Z.ltb_ge. auto. Qed.

  (* removing one element of a valid decomposition *)
  Lemma vsum_remove_mid a x b : vsum (a ++ x :: b) = vadd (sd (fst x) (snd x)) (vsum (a ++ b)).
  Proof.
    rewrite !vsum_app, vsum_cons.
    destruct (vsum a) as [[[? ?] ?] ?], (sd (fst x) (snd x)) as [[[? ?] ?] ?], (vsum b) as [[[? ?] ?] ?]. cbn. f_equal; [f_equal; [f_equal|]|]; lia.
  Qed.

  Theorem rec_complete : forall left rem forb l, valid l forb left -> vsum l = rem ->
    (forall kg, In kg l -> sd (fst kg) (snd kg) <> vzero) -> rec left rem forb <> None.
  Proof.
    induction left as [|n IH]; intros rem forb l (Hnd & Hforb & Hlen & Hg) Hsum Hnz; cbn [rec].
    - destruct l; [|cbn in Hlen; lia]. cbn in Hsum. subst rem. cbn. discriminate.
    - destruct (is_zero rem) eqn:Z0; [discriminate|].
      assert (Hnn : vnonneg rem) by (rewrite <- Hsum; apply vsum_nonneg; auto).
      rewrite (nonneg_no_neg _ Hnn).
      destruct l as [|[k g] l'].
      { cbn in Hsum. subst rem. cbn in Z0. discriminate. }
      (* use the first element (k, g) of the decomposition *)
      assert (Hgk : In g grades) by (apply (Hg (k, g)); left; reflexivity).
      assert (Hle : vle (sd k g) rem).
      { rewrite <- Hsum, vsum_cons. cbn [fst snd].
        pose proof (vsum_nonneg l' (fun kg H => Hg kg (or_intror H))) as N2.
        destruct (sd k g) as [[[? ?] ?] ?], (vsum l') as [[[? ?] ?] ?]. cbn in *. lia. }
      apply (find_some_complete _ (cands rem) k).
      + apply (cands_complete rem k g); auto. apply (Hnz (k, g)). left; reflexivity.
      + assert (Hkf : memK k forb = false).
        { destruct (memK k forb) eqn:M; auto. apply memK_spec in M. exfalso. apply (Hforb k); [left; reflexivity|exact M]. }
        rewrite Hkf. apply (find_some_complete _ grades g Hgk).
        assert (Hrec : rec n (vsub rem (sd k g)) (k :: forb) <> None).
        { apply (IH _ _ l').
          - inversion Hnd; subst. repeat split; auto.
            + intros k' Hin [<-|Hf]; [contradiction|]. apply (Hforb k'); [right; exact Hin|exact Hf].
            + cbn in Hlen. lia.
            + intros kg H. apply Hg. right; exact H.
          - rewrite <- Hsum, vsum_cons. cbn [fst snd].
            destruct (sd k g) as [[[? ?] ?] ?], (vsum l') as [[[? ?] ?] ?]. cbn. f_equal; [f_equal; [f_equal|]|]; lia.
          - intros kg H. apply Hnz. right; exact H. }
        destruct (rec n (vsub rem (sd k g)) (k :: forb)); [discriminate|congruence].
  Qed.
End Search.
Print Assumptions rec_sound.
Print Assumptions rec_complete.
