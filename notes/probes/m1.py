# Monitor C07 (reject alone/no state change), C08 (input mutation, determinism), C10 (valid => accepted), C06 hypotheses
import json, sys, collections, random, copy
from simaple.container.environment_provider import MinimalEnvironmentProvider
from simaple.container.simulation import get_operation_engine, get_skill_components
from simaple.core import JobType, Stat, ActionStat
from simaple.simulate.policy.parser import parse_simaple_runtime, parse_dsl_to_command
from simaple.simulate.component import base as cbase
from simaple.simulate.reserved_names import Tag
import simaple.simulate.base as sbase

findings = collections.defaultdict(set)
# --- C08 monitor
orig_call = cbase.ComponentMethodWrapper.__call__
def dump(x):
    try: return x.model_dump()
    except Exception: return repr(x)
def wrapped(self, *args):
    before = [dump(a) if hasattr(a,'model_dump') else copy.deepcopy(a) for a in args]
    out = orig_call(self, *args)
    after = [dump(a) if hasattr(a,'model_dump') else a for a in args]
    if before != after:
        findings['C08-input-mutated'].add(self._func.__qualname__)
    return out
cbase.ComponentMethodWrapper.__call__ = wrapped

def canon(store): 
    d = store.save(); d.pop('previous_callbacks', None); return d

class Proxy(sbase.Dispatcher):
    def __init__(self, inner, name): self.inner=inner; self.name=name
    def includes(self, s): return self.inner.includes(s)
    def init_store(self, s): return self.inner.init_store(s)
    def __call__(self, action, store):
        before = canon(store)
        ev = self.inner(action, store)
        after = canon(store)
        if any(e['tag']==Tag.REJECT for e in ev):
            if len(ev)!=1: findings['C07-reject-not-alone'].add((self.name, action['method'], tuple(e['tag'] for e in ev)))
            if before!=after:
                ch=[k for k in after if before.get(k)!=after[k]]
                findings['C07-reject-changes-state'].add((self.name, action['method'], tuple(ch)))
        if before.get('global.time') != after.get('global.time') and self.name!='timer':
            findings['C06-component-writes-clock'].add(self.name)
        for e in ev:
            if e['tag']==Tag.ELAPSED and action['method']=='elapse' and e['payload']['time']!=action['payload']:
                findings['C06-elapsed-payload'].add((self.name, e['payload']['time'], action['payload']))
            if e['tag']==Tag.DELAY and e['payload']['time']>0 and ('.emitted.' in action['method'] or '.done.' in action['method']):
                findings['C06-listener-positive-delay'].add((self.name, action['method'][:40], e['payload']['time']))
        return ev

def mkengine(env):
    e = get_operation_engine(env)
    r = e._router
    r._dispatchers = [Proxy(d, getattr(getattr(d,'_base_dispatcher',d),'_name', 'timer')) for d in r._dispatchers]
    return e

jobs = [JobType.adele, JobType.archmagefb, JobType.archmagetc, JobType.bishop, JobType.dualblade, JobType.mechanic, JobType.soulmaster, JobType.windbreaker]
rng = random.Random(1)
for job in jobs:
    prov = MinimalEnvironmentProvider(level=270, action_stat=ActionStat(buff_duration=50, cooltime_reduce=1000, cooltime_reduce_rate=5), stat=Stat(INT=1000, STR=1000, LUK=1000, DEX=1000, magic_attack=100, attack_power=100), jobtype=job, hexa_skill_level=10, hexa_mastery_level=10, hexa_improvements_level=5)
    env = prov.get_simulation_environment()
    e = mkengine(env)
    names = [c.name for c in get_skill_components(env)]
    # C10: before each USE, check validity => accepted
    nops=0
    for i in range(220):
        viewer = e.get_current_viewer()
        try:
            vals = viewer('validity'); viewer('running'); viewer('buff'); viewer('keydown'); viewer('info'); viewer('clock')
        except Exception as ex:
            findings['C10-view-raises'].add((job.value, type(ex).__name__, str(ex)[:80])); vals=[]
        for v in vals:
            if v.time_left < 0: findings['C10-negative-time_left'].add((job.value, v.name))
        r = rng.random()
        if r < 0.55:
            n = rng.choice(names); cmd = f'{"CAST" if rng.random()<0.6 else "USE"} "{n}"'
        elif r < 0.8: cmd = f'ELAPSE {rng.choice([0, 30, 100, 500, 1000, 3000, 10000, 45000])}'
        elif r < 0.9: cmd = f'RESOLVE "{rng.choice(names)}"'
        else: cmd = f'KEYDOWNSTOP "{rng.choice(names)}"'
        op = parse_dsl_to_command(cmd)[0]
        validmap = {v.name: v for v in vals}
        try:
            log = e.exec(op)
        except Exception as ex:
            findings['EXEC-raises'].add((job.value, cmd[:40], type(ex).__name__, str(ex)[:60])); break
        nops+=1
        if op.command in ('USE','CAST') and op.name in validmap and validmap[op.name].valid:
            evs = log.playlogs[0].events
            if any(ev['tag']==Tag.REJECT and ev['name']==op.name and ev['method']=='use' for ev in evs):
                findings['C10-valid-but-rejected'].add((job.value, op.name))
    print(job.value, 'ops', nops, 'clock', e.get_current_viewer()('clock'), file=sys.stderr)
for k,v in findings.items():
    print(k, len(v))
    for x in sorted(v, key=str)[:25]: print('   ', x)
