import json, random, collections, sys
from simaple.container.environment_provider import MinimalEnvironmentProvider
from simaple.container.simulation import get_operation_engine, get_skill_components
from simaple.core import JobType, Stat, ActionStat
from simaple.simulate.policy.parser import parse_dsl_to_command
from simaple.simulate.policy.base import OperationLog
jobs = sys.argv[1:] or ['archmagetc','mechanic','adele']
rng = random.Random(21); bad=collections.Counter(); ex={}
for job in jobs:
    prov = MinimalEnvironmentProvider(level=270, action_stat=ActionStat(buff_duration=50, cooltime_reduce=2000), stat=Stat(INT=1000, STR=1000, LUK=1000, DEX=1000, magic_attack=100, attack_power=100), jobtype=JobType(job), hexa_skill_level=10, hexa_mastery_level=10)
    env = prov.get_simulation_environment()
    names=[c.name for c in get_skill_components(env)]
    for plan_i in range(4):
        cmds=[]
        for i in range(22):
            r=rng.random()
            cmds.append(f'CAST "{rng.choice(names)}"' if r<0.6 else (f'ELAPSE {rng.choice([30,100,330.5,1000,2500,0])}' if r<0.8 else (f'RESOLVE "{rng.choice(names)}"' if r<0.9 else f'KEYDOWNSTOP "{rng.choice(names)}"')))
        ops=[parse_dsl_to_command(c)[0] for c in cmds]
        e=get_operation_engine(env)
        for o in ops: e.exec(o)
        full=list(e.operation_logs()); fh=[l.hash for l in full]; fd=[l.model_dump(mode="json") for l in full]
        for k in range(1,len(ops)):
            logs=[OperationLog.model_validate(json.loads(l.model_dump_json())) for l in full[:k+1]]
            e2=get_operation_engine(env); e2.reload(logs)
            for o in ops[k:]: e2.exec(o)
            res=list(e2.operation_logs())
            rd=[l.model_dump(mode="json") for l in res]
            if rd!=fd: bad[(job,'value-diff')]+=1; ex.setdefault((job,'value'),(cmds,k))
            elif [l.hash for l in res]!=fh:
                bad[(job,'hash-only-diff')]+=1
                i=next(i for i,(a,b) in enumerate(zip([l.hash for l in res],fh)) if a!=b)
                ex.setdefault((job,'hash'),(cmds[i-1], k, i, res[i]._fast_dumped_string()[:0], [ (x,y) for x,y in zip(json.dumps(rd[i],sort_keys=True).split(','), json.dumps(fd[i],sort_keys=True).split(',')) if x!=y][:3]))
                # find textual difference in dumped strings
                a=res[i]._fast_dumped_string(); b=full[i]._fast_dumped_string()
                j=next((j for j,(x,y) in enumerate(zip(a,b)) if x!=y), None)
                ex[(job,'hashtext')]=(a[max(0,j-60):j+30], b[max(0,j-60):j+30]) if j is not None else None
    print(job, file=sys.stderr)
print(dict(bad))
for k,v in ex.items(): print(k, str(v)[:600])
