import json, random, yaml, collections
from simaple.api.base import run_plan, run_plan_with_hint
from simaple.api.models.simulation import OperationLogResponse
from simaple.container.environment_provider import MinimalEnvironmentProvider
from simaple.core import JobType, Stat, ActionStat
prov = MinimalEnvironmentProvider(level=270, action_stat=ActionStat(), stat=Stat(INT=1000, magic_attack=100), jobtype=JobType.bishop)
env = prov.get_simulation_environment()
hdr = yaml.safe_dump({"author":"x","environment": json.loads(env.model_dump_json())}, allow_unicode=True)
def mk(cmds): return "---\n"+hdr+"\n---\n"+"\n".join(cmds)
pool = ['CAST "엔젤레이 VI"', 'ELAPSE 500', 'CAST "디바인 퍼니시먼트"', 'RESOLVE "디바인 퍼니시먼트"', 'KEYDOWNSTOP "디바인 퍼니시먼트"', 'USE "피스메이커"', 'ELAPSE 0', '!debug "viewer(\'clock\')"', 'CAST "인피니티"']
rng = random.Random(7)
def dump(r): return [x.model_dump(mode="json") for x in r]
fails = collections.Counter(); ex={}
N=0
for it in range(60):
    n = rng.randint(3, 28)
    prev = [rng.choice(pool) for _ in range(n)]
    hist = run_plan(mk(prev))
    if rng.random()<0.5:
        hist = [OperationLogResponse.model_validate(json.loads(json.dumps(x))) for x in dump(hist)]
    for step in range(2):
        kind = rng.choice(['append','trunc','edit','insert','delete','same'])
        new = list(prev)
        pos = rng.randrange(len(new)) if new else 0
        if kind=='append': new += [rng.choice(pool) for _ in range(rng.randint(1,4))]
        elif kind=='trunc': new = new[:pos]
        elif kind=='edit' and new: new[pos] = rng.choice(pool)
        elif kind=='insert': new.insert(pos, rng.choice(pool))
        elif kind=='delete' and new: del new[pos]
        if not new: new=['ELAPSE 1']
        N+=1
        try:
            want = dump(run_plan(mk(new)))
        except Exception as e:
            fails[('full-raises', type(e).__name__)]+=1; break
        try:
            got_r = run_plan_with_hint(mk(prev), hist, mk(new)); got = dump(got_r)
        except Exception as e:
            fails[('hint-raises', type(e).__name__, kind)]+=1
            ex.setdefault(('hint-raises', type(e).__name__), (prev, new, str(e)[:80]))
            break
        if got != want:
            # locate first differing log
            i = next(i for i,(a,b) in enumerate(zip(got,want)) if a!=b) if len(got)==len(want) else -1
            firstnew = None
            # which command sits at the resume point
            cp = 0
            while cp < min(len(prev), len(new)) and prev[cp]==new[cp]: cp+=1
            fails[('mismatch', kind, new[i-1].split()[0] if i>0 else '?')]+=1
            ex.setdefault(('mismatch', new[i-1].split()[0] if i>0 else '?'), (prev, new, i))
        prev, hist = new, got_r if got==want else run_plan(mk(new))
print(N, dict(fails))
for k,v in ex.items(): print(k, v)
