import json, time
from simaple.container.simulation import SimulationEnvironment, get_operation_engine
from simaple.container.environment_provider import MinimalEnvironmentProvider
from simaple.core import JobType, Stat, ActionStat
from simaple.simulate.policy.parser import parse_dsl_to_command
from simaple.simulate.policy.base import OperationLog

t=time.time()
prov = MinimalEnvironmentProvider(level=270, action_stat=ActionStat(), stat=Stat(INT=1000, magic_attack=100), jobtype=JobType.bishop)
env = prov.get_simulation_environment()
print("env", time.time()-t)
def eng():
    return get_operation_engine(env)
t=time.time()
e = eng()
print("engine", time.time()-t)
plan = '''CAST "디바인 퍼니시먼트"
RESOLVE "디바인 퍼니시먼트"
RESOLVE "디바인 퍼니시먼트"
KEYDOWNSTOP "디바인 퍼니시먼트"
ELAPSE 1000'''
cmds = parse_dsl_to_command(plan)
for c in cmds: e.exec(c)
full = [l.model_dump(mode="json") for l in e.operation_logs()]
for k in range(1, len(cmds)):
    e1 = eng()
    for c in cmds[:k]: e1.exec(c)
    logs = [OperationLog.model_validate(json.loads(l.model_dump_json())) for l in e1.operation_logs()]
    e2 = eng()
    e2.reload(logs)
    for c in cmds[k:]: e2.exec(c)
    res = [l.model_dump(mode="json") for l in e2.operation_logs()]
    print(k, res == full, [ (l.command.expr, [p.clock for p in l.playlogs]) for l in e2.operation_logs()][-3:])
print([(l.command.expr, [p.clock for p in l.playlogs]) for l in e.operation_logs()])
