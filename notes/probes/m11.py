import itertools, collections, random
from simaple.core import Stat, JobType
from simaple.data.jobs.builtin import get_damage_logic
from simaple.optimizer import HyperstatTarget, UnionSquadTarget, UnionOccupationTarget, LinkSkillTarget, StepwizeOptimizer, WeaponPotentialOptimizer
from simaple.data.system.hyperstat import get_kms_hyperstat
from simaple.data.system.link import get_kms_link_skill_set
from simaple.data.system.union_block import create_with_some_large_blocks
from simaple.system.union import UnionOccupation
from simaple.system.hyperstat import Hyperstat
from simaple.gear.potential import PotentialTier
rng = random.Random(2)
issues = collections.Counter(); ex={}
def refstat():
    return Stat(STR=rng.randint(500,5000), DEX=rng.randint(500,5000), INT=rng.randint(500,5000), LUK=rng.randint(500,5000), attack_power=rng.randint(100,3000), magic_attack=rng.randint(100,3000),
                STR_multiplier=rng.randint(0,300), INT_multiplier=rng.randint(0,300), critical_rate=rng.randint(0,120), critical_damage=rng.randint(0,100), boss_damage_multiplier=rng.randint(0,300),
                damage_multiplier=rng.randint(0,100), ignored_defence=rng.choice([70,85,90,95]), final_damage_multiplier=rng.randint(0,60))
jobs=[JobType.archmagefb, JobType.adele, JobType.windbreaker, JobType.dualblade]
for it in range(12):
    job = rng.choice(jobs); logic = get_damage_logic(job, 0); st = refstat()
    # hyperstat
    budget = rng.choice([0, 5, 50, 300, 1200, Hyperstat.get_maximum_cost_from_level(rng.choice([140,200,250,275]))])
    t = HyperstatTarget(st, logic, get_kms_hyperstat())
    out = StepwizeOptimizer(t, budget, 1).optimize()
    if out.get_cost() > budget: issues['hyper-over-budget']+=1
    if out.get_value() < t.get_value(): issues['hyper-worse']+=1
    for i in range(out.state_length):
        nt = out.get_stepped_target((i,))
        if nt is not None and nt.get_cost() <= budget and nt.get_value() > out.get_value()*(1+1e-12):
            issues['hyper-not-locally-optimal']+=1; ex.setdefault('hyper-loc',(budget,i,out.state))
    out2 = StepwizeOptimizer(HyperstatTarget(st, logic, get_kms_hyperstat()), budget, 1).optimize()
    if out2.state != out.state: issues['hyper-nondet']+=1
    # union occupation
    b = rng.choice([0,1,5,20,40,80,200])
    t = UnionOccupationTarget(st, logic, UnionOccupation())
    out = StepwizeOptimizer(t, b, 2).optimize()
    if out.get_cost() > b or max(out.state) > 40: issues['occ-over']+=1
    if out.get_value() < t.get_value(): issues['occ-worse']+=1
    # link
    b = rng.choice([0,1,3,6,12,13])
    t = LinkSkillTarget(st, logic, get_kms_link_skill_set(), preempted_jobs=[job])
    out = StepwizeOptimizer(t, b, 1).optimize()
    if out.get_cost() > max(b, t.get_cost()): issues['link-over']+=1
    if any(a < p for a,p in zip(out.state, t.state)): issues['link-preset-lost']+=1
    if out.get_value() < t.get_value()*(1-1e-12): issues['link-worse']+=1; ex.setdefault('link-worse',(b, t.get_value(), out.get_value()))
    # union squad
    b = rng.choice([0,1,5,10,30,37])
    t = UnionSquadTarget(st, logic, create_with_some_large_blocks(large_block_jobs=[job]), preempted_jobs=[job])
    out = StepwizeOptimizer(t, b, 1).optimize()
    if out.get_cost() > max(b, t.get_cost()): issues['squad-over']+=1
    if out.get_value() < t.get_value()*(1-1e-12): issues['squad-worse']+=1
    # weapon potential
    tiers = tuple(rng.choice([PotentialTier.legendary, PotentialTier.unique, PotentialTier.epic]) for _ in range(3))
    armor = rng.choice([0, 100, 300])
    w = WeaponPotentialOptimizer(default_stat=st, tiers=tiers, damage_logic=logic, armor=armor)
    pot = w.get_optimal_potential()
    got = w.get_reward(pot.get_stat())
    from simaple.optimizer.weapon_potential_optimizer import _WEAPON_POTENTIALS
    best = 0
    for combo in itertools.product(*[_WEAPON_POTENTIALS[t_] for t_ in tiers]):
        if sum(1 for s in combo if s.boss_damage_multiplier>0)>2 or sum(1 for s in combo if s.ignored_defence>0)>2: continue
        s = Stat()
        for c in combo: s = s + c
        best = max(best, w.get_reward(s))
    if got < best*(1-1e-12): issues['weapon-not-best']+=1; ex.setdefault('weapon',(tiers, armor, got, best))
print(dict(issues)); print(ex)
