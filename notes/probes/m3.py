import itertools, random, collections
from simaple.core import Stat
from simaple.gear.gear_repository import GearRepository
from simaple.gear.compute.bonus import BonusCalculator
from simaple.gear.bonus_factory import BonusFactory, BonusType
from simaple.gear.gear import Gear
repo = GearRepository()
import json
calc = BonusCalculator(); bf = BonusFactory()
kinds = list(BonusType)
def tot(bs, meta):
    s = Stat()
    for b in bs: s = s + b.calculate_improvement(meta)
    return s
stats = collections.Counter(); ex = collections.defaultdict(list)
rng = random.Random(3)
gears = []
for gid in [1004423, 1102942, 1212120, 1132308, 1113306, 1082637]:
    try: gears.append(repo.get_by_id(gid))
    except Exception as e: print("no gear", gid, e)
print([ (g.meta.name, g.meta.req_level, g.meta.boss_reward, g.meta.type.name) for g in gears])
for g in gears:
    grades = [3,4,5,6,7] if g.meta.boss_reward else [1,2,3,4,5,6,7]
    combos = []
    for k in (1,2):
        for ks in itertools.combinations(kinds, k):
            for gs in itertools.product(grades, repeat=k): combos.append((ks,gs))
    for k in (3,4):
        for _ in range(1500):
            ks = tuple(rng.sample(kinds, k)); gs = tuple(rng.choice(grades) for _ in ks); combos.append((ks,gs))
    for ks, gs in combos:
        bs = [bf.create(k, gr) for k,gr in zip(ks,gs)]
        target = tot(bs, g.meta)
        key=(len(ks),)
        try:
            res = calc.compute(target, g)
        except ValueError as e:
            stats[('reject',len(ks))]+=1
            if len(ex['reject'])<6: ex['reject'].append((g.meta.req_level, [k.value for k in ks], gs, str(e)[:40]))
            continue
        except Exception as e:
            stats[('crash',len(ks))]+=1
            if len(ex['crash'])<6: ex['crash'].append((g.meta.req_level, [k.value for k in ks], gs, type(e).__name__, str(e)[:60]))
            continue
        got = tot(res, g.meta)
        ok = got == target and len(res)<=4 and len({type(b).__name__+str(getattr(b,'stat_type',''))+str(getattr(b,'stat_type_pair',''))+str(getattr(b,'attack_type','')) for b in res})==len(res)
        stats[('ok' if ok else 'unsound', len(ks))]+=1
        if not ok and len(ex['unsound'])<6: ex['unsound'].append((g.meta.req_level,[k.value for k in ks], gs, [ (type(b).__name__, b.grade) for b in res]))
print(sorted(stats.items()))
for k,v in ex.items():
    print(k)
    for x in v: print("  ", x)
