import json, sys, hashlib, threading, random
from simaple.container.environment_provider import MinimalEnvironmentProvider
from simaple.container.simulation import get_operation_engine, get_skill_components
from simaple.core import JobType, Stat, ActionStat
from simaple.simulate.policy.parser import parse_simaple_runtime
mode = sys.argv[1]
jobs = ['adele','archmagefb','archmagetc','bishop','dualblade','mechanic','soulmaster','windbreaker']
def task(job, lvl):
    j = JobType(job)
    prov = MinimalEnvironmentProvider(level=270, action_stat=ActionStat(buff_duration=lvl), stat=Stat(INT=1000, STR=1000, LUK=1000, DEX=1000, magic_attack=100, attack_power=100), jobtype=j, hexa_skill_level=lvl, v_skill_level=10+lvl)
    env = prov.get_simulation_environment()
    comps = [c.model_dump(mode="json") for c in get_skill_components(env)]
    try:
        plan = open(f"/repo/plans/30s/{job}.simaple").read()
        _, cmds = parse_simaple_runtime(plan.strip())
    except FileNotFoundError:
        from simaple.simulate.policy.parser import parse_dsl_to_command
        cmds = parse_dsl_to_command("\n".join(f'CAST "{c["name"]}"' for c in comps[:25]) + "\nELAPSE 5000")
    e = get_operation_engine(env)
    for c in cmds[:60]: e.exec(c)
    logs = [l.model_dump(mode="json") for l in e.operation_logs()]
    return hashlib.sha1(json.dumps([comps, logs], sort_keys=True, ensure_ascii=False).encode()).hexdigest()
work = [(j, l) for j in jobs for l in (1, 7)]
res = {}
if mode == 'seq':
    for w in work: res[w] = task(*w)
elif mode == 'rev':
    for w in reversed(work): res[w] = task(*w)
else:
    lock = threading.Lock()
    def run(ws):
        for w in ws:
            r = task(*w)
            with lock: res[w] = r
    random.Random(1).shuffle(work)
    ths = [threading.Thread(target=run, args=(work[i::8],)) for i in range(8)]
    [t.start() for t in ths]; [t.join() for t in ths]
print(json.dumps({f"{k[0]}-{k[1]}": v for k, v in sorted(res.items())}))
