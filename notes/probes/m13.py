import json, random, collections, sys
from simaple.container.environment_provider import MinimalEnvironmentProvider
from simaple.container.simulation import get_operation_engine, get_skill_components
from simaple.core import JobType, Stat, ActionStat
from simaple.simulate.policy.parser import parse_dsl_to_command
from simaple.simulate.base import Checkpoint
from simaple.simulate.reserved_names import Tag
jobs = ['adele','archmagefb','archmagetc','bishop','dualblade','mechanic','soulmaster','windbreaker']
rng = random.Random(4)
bad = collections.Counter(); ex = {}
def agg(events):
    d = collections.Counter(); 
    for e in events:
        if e['tag'] in (Tag.DAMAGE, Tag.DOT):
            p = e['payload']
            if p['damage']==0 or p['hit']==0: continue
            d[(e['name'], e['tag'], p['damage'], json.dumps(p.get('modifier'), sort_keys=True))] += p['hit']
    return {k: round(v, 9) for k,v in d.items()}
def seqd(events):
    return [(e['name'], e['payload']['damage'], e['payload']['hit']) for e in events if e['tag']==Tag.DAMAGE and e['payload']['damage']!=0 and e['payload']['hit']!=0]
for job in jobs:
    prov = MinimalEnvironmentProvider(level=270, action_stat=ActionStat(buff_duration=50), stat=Stat(INT=1000, STR=1000, LUK=1000, DEX=1000, magic_attack=100, attack_power=100), jobtype=JobType(job), hexa_skill_level=10, hexa_mastery_level=10)
    env = prov.get_simulation_environment()
    e = get_operation_engine(env)
    comps = get_skill_components(env); names=[c.name for c in comps]
    disps = e._router._dispatchers
    viewset = e._viewset
    for i in range(70):
        r = rng.random()
        if r<0.7: cmd=f'CAST "{rng.choice(names)}"'
        elif r<0.9: cmd=f'ELAPSE {rng.choice([30,100,330,1000,2500])}'
        else: cmd=f'KEYDOWNSTOP "{rng.choice(names)}"'
        log = e.exec(parse_dsl_to_command(cmd)[0])
        ck = log.playlogs[-1].checkpoint
        if i % 3: continue
        for _ in range(2):
            a = rng.choice([1, 10, 30, 100, 250, 500, 990, 1000, 1010, 3000, 20000]); b = rng.choice([1, 10, 30, 100, 250, 500, 990, 1000, 1010, 3000, 60000])
            for d in disps:
                base = getattr(d, '_base_dispatcher', None)
                if base is None: continue
                nm = base._name
                if not d.includes('*.elapse'): continue
                s1 = ck.restore(); s2 = ck.restore()
                try:
                    ev1 = base({"name":"*","method":"elapse","payload":float(a+b)}, s1)
                    ev2 = base({"name":"*","method":"elapse","payload":float(a)}, s2) + base({"name":"*","method":"elapse","payload":float(b)}, s2)
                except Exception as ex_:
                    bad[('raise', nm, type(ex_).__name__)]+=1; continue
                if agg(ev1)!=agg(ev2):
                    bad[('ticks', job, nm)]+=1; ex.setdefault(('ticks',nm),(a,b,agg(ev1),agg(ev2)))
                elif seqd(ev1)!=seqd(ev2):
                    bad[('order', job, nm)]+=1; ex.setdefault(('order',nm),(a,b))
                # views of that component
                for vn in ('validity','running','buff','keydown'):
                    key=f'{nm}.{vn}'
                    if key in viewset._views:
                        v1 = viewset.show(key, s1); v2 = viewset.show(key, s2)
                        d1 = v1.model_dump() if hasattr(v1,'model_dump') else v1; d2 = v2.model_dump() if hasattr(v2,'model_dump') else v2
                        if d1!=d2:
                            # tolerate float noise
                            bad[('view', job, nm, vn)]+=1; ex.setdefault(('view',nm,vn),(a,b,d1,d2))
    print(job, file=sys.stderr)
for k,v in sorted(bad.items(), key=str): print(k,v)
for k,v in list(ex.items())[:20]: print(k, str(v)[:300])
