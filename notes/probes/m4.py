from simaple.simulate.policy.parser import parse_dsl_to_command, parse_dsl_to_operations, parse_simaple_runtime
cases = ['CAST "a b"', 'ELAPSE 10', 'ELAPSE 1e3', 'ELAPSE -5', 'ELAPSE 1e22', 'ELAPSE 0.1', 'ELAPSE 1e-7', 'ELAPSE 1e400', 'USE "a#b"', 'USE "a\\"b"', 'x3 USE "한글 VI"', 'CAST "a" 12.5', 'x2 ELAPSE 3\n\n# c\nUSE "q"  # tail', '  CAST   "a"  ', 'x0 USE "a"', 'x-1 USE "a"', '!debug "1+1"', 'USE "a"\n', '\nUSE "a"', 'USE "a"\n# only comment', 'ELAPSE 1_000', 'ELAPSE +5', 'ELAPSE 5.', 'ELAPSE .5', 'CAST ""', 'x2.0 USE "a"', 'x 2 USE "a"', 'cast "a"', 'RESOLVE "a" 3']
for c in cases:
    try:
        ops = parse_dsl_to_command(c)
        rt = []
        for op in ops:
            if hasattr(op,'expr'):
                try:
                    back = parse_dsl_to_command(op.expr)
                    rt.append(back == [op])
                except Exception as e: rt.append('REPARSE-ERR '+str(e)[:50])
            else: rt.append('console:'+op.text)
        print(repr(c), '->', [getattr(o,'expr',None) for o in ops], rt)
    except Exception as e:
        print(repr(c), 'ERR', str(e).split('\n')[0][:90])
