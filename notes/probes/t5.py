import json
from simaple.container.environment_provider import MinimalEnvironmentProvider
from simaple.container.simulation import get_operation_engine, get_skill_components
from simaple.core import JobType, Stat, ActionStat
from simaple.simulate.policy.parser import parse_dsl_to_command
prov = MinimalEnvironmentProvider(level=270, action_stat=ActionStat(), stat=Stat(INT=1000, magic_attack=100), jobtype=JobType.archmagefb)
env = prov.get_simulation_environment()
e = get_operation_engine(env)
cmds = parse_dsl_to_command('ELAPSE 10\n!debug "viewer(\'clock\')"\nELAPSE 10')
e.exec(cmds[0]); e.exec(cmds[1]); e.exec(cmds[2])
e.rollback(2)
try:
    e.exec(cmds[2]); print("rollback onto console ok", [l.command for l in e.operation_logs()][-1])
except Exception as ex: print("C03 rollback onto console:", type(ex).__name__, ex)
# C07 dot emitting
comps = get_skill_components(env)
from simaple.simulate.component.common.dot_emitting_attack_skill import DOTEmittingAttackSkillComponent
names=[c.name for c in comps if isinstance(c, DOTEmittingAttackSkillComponent)]
print(names)
e = get_operation_engine(env)
for c in parse_dsl_to_command(f'USE "{names[0]}"\nUSE "{names[0]}"'):
    l = e.exec(c); print([ (ev["name"], ev["tag"]) for ev in l.playlogs[0].events][:6])
# C15 key w/ container value
from simaple.spec.patch import ArithmeticPatch
print(ArithmeticPatch(variables={}).apply({"{{ 1+1 }}": {"a": "{{ 2*3 }}"}, "{{ 2+2 }}": 1}))
# C19 clone armor
from simaple.optimizer import HyperstatTarget
from simaple.data.system.hyperstat import get_kms_hyperstat
from simaple.data.jobs.builtin import get_damage_logic
t = HyperstatTarget(Stat(INT=1000, magic_attack=100, ignored_defence=50), get_damage_logic(JobType.archmagefb, 0), get_kms_hyperstat(), armor=100)
print("value", t.get_value(), "clone value", t.clone().get_value())
