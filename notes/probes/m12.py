import random, math, collections
from simaple.spec._math import evaluate_expression
rng = random.Random(11)
vars_ = {"x": 3, "y.z": 7, "skill_level": 12, "a_b": 0.5}
def gen(d):
    if d==0 or rng.random()<0.25:
        r=rng.random()
        if r<0.5: return str(rng.choice([0,1,2,3,5,7,10,12,100]))
        if r<0.65: return rng.choice(["0.5","1.25","2.5","1_000","1e2","0.01"])
        return rng.choice(list(vars_))
    r=rng.random()
    if r<0.55:
        op=rng.choice(['+','-','*','/','//'])
        sp=rng.choice(['',' '])
        return gen(d-1)+sp+op+sp+gen(d-1)
    if r<0.7: return '('+gen(d-1)+')'
    if r<0.8: return '-'+gen(d-1)
    if r<0.9: return rng.choice(['min','max'])+'('+gen(d-1)+','+gen(d-1)+')'
    return rng.choice(['ceil','floor'])+'('+gen(d-1)+')'
def pyeval(s):
    t = s.replace('y.z','y_z')
    env={"x":3.0 if False else 3,"y_z":7,"skill_level":12,"a_b":0.5,"min":min,"max":max,"ceil":math.ceil,"floor":math.floor}
    # python ints vs floats: simaple turns literals into floats
    import re
    t = re.sub(r'(?<![\w.])(\d[\d_]*)(?![\w.])', lambda m: m.group(1).replace('_','')+'.0', t)
    return eval(t, {"__builtins__":{}}, env)
bad=collections.Counter(); ex={}
N=0
for i in range(6000):
    s=gen(rng.randint(1,4)); N+=1
    try: want=pyeval(s)
    except ZeroDivisionError: 
        try: evaluate_expression(s, vars_); bad['no-zerodiv']+=1
        except Exception: pass
        continue
    except Exception as e: bad['ref-err']+=1; ex.setdefault('ref',(s,str(e)[:50])); continue
    try: got=evaluate_expression(s, vars_)
    except Exception as e:
        bad['impl-err:'+type(e).__name__]+=1; ex.setdefault('impl-err:'+type(e).__name__,(s,str(e)[:80])); continue
    if got!=want and not (abs(got-want)<=1e-12*max(1,abs(want))):
        bad['diff']+=1; ex.setdefault('diff',(s,got,want))
print(N, dict(bad)); 
for k,v in ex.items(): print(k,v)
