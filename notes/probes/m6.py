import json, copy
from simaple.container.environment_provider import MinimalEnvironmentProvider, BaselineEnvironmentProvider
from simaple.container.memoizer import InMemoryMemoizer
from simaple.core import JobType, Stat, ActionStat
base = dict(level=270, action_stat=ActionStat(buff_duration=10), stat=Stat(INT=1000, magic_attack=100), jobtype=JobType.bishop)
alts = dict(level=260, action_stat=ActionStat(buff_duration=20), stat=Stat(INT=2000), jobtype=JobType.archmagefb, weapon_pure_attack_power=10, combat_orders_level=2,
            use_doping=False, armor=100, mob_level=250, force_advantage=1.5, v_skill_level=20, hexa_skill_level=5, hexa_mastery_level=7, v_improvements_level=30, hexa_improvements_level=3,
            hexa_mastery_skill_levels={"엔젤레이 VI": 9}, hexa_skill_levels={"홀리 어드밴트": 3}, hexa_improvement_levels={"엔젤릭 터치": 2}, weapon_attack_power=77)
bad=[]
for f, v in alts.items():
    m = InMemoryMemoizer()
    p0 = MinimalEnvironmentProvider(**base)
    kw = dict(base); kw[f]=v
    if f=='jobtype': kw['hexa_mastery_skill_levels']={}
    try: p1 = MinimalEnvironmentProvider(**kw)
    except Exception as e: print('skip', f, e); continue
    for seq in ([p0,p1,p0,p1],[p1,p0,p1]):
        m = InMemoryMemoizer()
        for i,p in enumerate(seq):
            try:
                got = m.compute_environment(p); want = p.get_simulation_environment()
            except Exception as e: print('ERR', f, type(e).__name__, str(e)[:80]); break
            if got != want: bad.append((f, i))
            m = InMemoryMemoizer(json.loads(json.dumps(m.export())))
print("bad", bad)
print(len(MinimalEnvironmentProvider.model_fields), len(BaselineEnvironmentProvider.model_fields))
