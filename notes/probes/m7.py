import random
from simaple.simulate.report.feature import MaximumDealingIntervalFeature
def naive(seq, L):
    best=(0,0,0)
    n=len(seq)
    for s in range(n):
        e=None
        for k in range(s, n):
            if seq[k][0]-seq[s][0] >= L: e=k; break
        if e is None: continue
        w = sum(d for _,d in seq[s:e])
        if w > best[0]: best=(w,s,e)
    return best
rng=random.Random(5); bad=0; N=0
for it in range(60000):
    n=rng.randint(0,9); c=0; seq=[]
    for i in range(n):
        c+=rng.choice([0,0,1,1,2,3,5]); seq.append((c, rng.choice([0,0,1,2,3,5,10])))
    L=rng.choice([1,2,3,4,6,10])
    try: got=MaximumDealingIntervalFeature(L)._find_maximum_dealing_interval(seq)
    except Exception as e: got=('ERR',type(e).__name__)
    want=naive(seq,L); N+=1
    if tuple(got)!=tuple(want):
        bad+=1
        if bad<8: print(seq, L, got, want)
print(N,bad)
for L in (0,-1):
    for seq in ([], [(0,5)], [(0,5),(0,3),(2,1)]):
        try: print(L, seq, MaximumDealingIntervalFeature(L)._find_maximum_dealing_interval(seq))
        except Exception as e: print(L, seq, 'ERR', type(e).__name__)
