import itertools, collections, time
from simaple.container.environment_provider import MinimalEnvironmentProvider
from simaple.container.simulation import get_skill_components, get_operation_engine
from simaple.core import JobType, Stat, ActionStat
from simaple.data.jobs.builtin import get_skill_profile
jobs = ['adele','archmagefb','archmagetc','bishop','dualblade','mechanic','soulmaster','windbreaker']
errs = collections.Counter(); ex={}; n=0; t=time.time()
nondec = collections.Counter()
def dmgfields(c):
    d = c.model_dump()
    out={}
    for k,v in d.items():
        if isinstance(v,(int,float)) and not isinstance(v,bool) and ('damage' in k or k=='hit' or k.endswith('_hit')): out[k]=v
    m = d.get('modifier') or {}
    for k in ('final_damage_multiplier','ignored_defence','damage_multiplier','boss_damage_multiplier','critical_damage'):
        out['mod.'+k] = (m or {}).get(k,0)
    return out
for job in jobs:
    prof = get_skill_profile(JobType(job))
    base = dict(v=30, hs=1, hm=1, vi=60, hi=0, co=1)
    axes = dict(v=[0,1,29,30], hs=[0,1,29,30], hm=[0,1,9,10,19,20,29,30], vi=[0,1,40,41,60], hi=[0,1,9,10,19,20,29,30], co=[0,1,2])
    prevcache={}
    for ax, vals in axes.items():
        prevf=None
        for val in vals:
            cfg = dict(base); cfg[ax]=val; n+=1
            try:
                prov = MinimalEnvironmentProvider(level=270, action_stat=ActionStat(), stat=Stat(INT=1000,STR=1000,LUK=1000,DEX=1000,magic_attack=100,attack_power=100), jobtype=JobType(job),
                    v_skill_level=cfg['v'], hexa_skill_level=cfg['hs'], hexa_mastery_level=cfg['hm'], v_improvements_level=cfg['vi'], hexa_improvements_level=cfg['hi'], combat_orders_level=cfg['co'])
                env = prov.get_simulation_environment()
                comps = get_skill_components(env)
                names=[c.name for c in comps]
                if len(set(names))!=len(names): errs[('dup-names',job)]+=1
                for low, high in prof.get_skill_replacements().items():
                    lvl = env.skill_levels.get(high,0)
                    if (low in names) != (lvl==0): errs[('replacement-rule',job,low,high,lvl)]+=1
                get_operation_engine(env)
                f = {c.name: dmgfields(c) for c in comps}
                if prevf is not None:
                    for nm in f:
                        if nm in prevf:
                            for k in f[nm]:
                                if k in prevf[nm] and f[nm][k] < prevf[nm][k]-1e-9:
                                    errs[('decrease',ax)]+=1; ex.setdefault(('decrease',job,nm,k,ax), (prevval,val,prevf[nm][k],f[nm][k]))
                prevf=f; prevval=val
            except Exception as e:
                errs[('build-raises',job,ax,val,type(e).__name__)]+=1; ex.setdefault(('raise',job,ax,val), str(e)[-160:])
print(n, round(time.time()-t,1))
for k,v in sorted(errs.items(), key=str): print(k,v)
for k,v in list(ex.items())[:15]: print(k,v)
