import collections, time
from simaple.core import Stat
from simaple.gear.gear_repository import GearRepository
from simaple.gear.improvements.starforce import Starforce
from simaple.gear.gear import Gear
import json
repo = GearRepository()
data = json.load(open('/repo/simaple/gear/resources/gear_data.json'))
print(len(data)); t=time.time()
stats=collections.Counter(); ex=collections.defaultdict(list)
fields = list(Stat.model_fields)
for gid in list(data)[:]:
    try: g = repo.get_by_id(int(gid))
    except Exception as e:
        stats['load-err']+=1; continue
    meta=g.meta
    cap = Starforce(star=0).max_star(meta)
    stats[('cap',cap)]+=1
    prev = Stat()
    for star in range(0, cap+2):
        sf = Starforce(star=star)
        try:
            imp = sf.calculate_improvement(meta, ref_stat=g.stat)
        except TypeError as e:
            if star == cap+1: stats['refused-beyond-cap']+=1
            else:
                stats['refused-within']+=1; ex['refused-within'].append((gid, meta.name, star, cap))
            continue
        except Exception as e:
            stats['crash:'+type(e).__name__]+=1
            if len(ex['crash'])<8: ex['crash'].append((gid, meta.name, meta.req_level, meta.type.name, meta.superior_eqp, star, cap, type(e).__name__, str(e)[:50]))
            continue
        if star == cap+1:
            stats['accepted-beyond-cap']+=1
            if len(ex['beyond'])<5: ex['beyond'].append((gid, meta.name, star, cap))
        d = imp.model_dump(); p = prev.model_dump()
        if any(d[f] < p[f] for f in fields) or any(d[f]<0 for f in fields):
            stats['dip']+=1
            if len(ex['dip'])<8: ex['dip'].append((gid, meta.name, star, {f:(p[f],d[f]) for f in fields if d[f]<p[f]}))
        prev = imp
print(time.time()-t)
print(sorted(stats.items(), key=str))
for k,v in ex.items():
    print(k)
    for x in v[:8]: print('  ', x)
