from simaple.simulate.report.dpm import LevelAdvantage
try:
    print(LevelAdvantage().get_advantage(241, 200))
except Exception as e: print("C12 gap41:", type(e).__name__, e)
from simaple.spec.patch import ArithmeticPatch
p = ArithmeticPatch(variables={"x": 0})
print("C15:", p.apply({"a": ["{{ x }}", "{{ x + 1 }}"], "b": "{{ x }}", "{{ x }}": 3, "c": {"d": "{{x*2}}"}}))
from simaple.simulate.component.common.mob import DOT
d1 = DOT(current={}); d1.new("a", 10, 3000)
d2 = DOT(current={}); d2.new("a", 10, 3000)
print("C09 one:", d1.elapse(5000), d1)
tot = {}
for _ in range(50):
    for k,v in d2.elapse(100).items(): tot[k]=tot.get(k,0)+v
print("C09 chunks:", tot, d2)
from simaple.spec._math import evaluate_expression as ev
for s in ["1-2-3", "2*3+4", "-2*3", "8/4/2", "7//2*2", "1 + 2 * 3 - 4 / 2", "min(1,2)+max(3,4)", "1_000+1", "ceil(1.2)", "floor(-1.5)", "--3", "2 - -3", "x.y + 1"]:
    try: print(s, "=>", ev(s, {"x.y": 5}))
    except Exception as e: print(s, "ERR", type(e).__name__, str(e)[:80])
