import yaml, glob, re
from simaple.spec._math import evaluate_expression
pat = re.compile(r"^\s*{{(.+)}}\s*$")
viol=[]; n=0; keys=set()
def walk(d, path, name):
    global n
    if isinstance(d, dict):
        for k,v in d.items(): walk(v, path+[str(k)], name)
    elif isinstance(d, list):
        for i,v in enumerate(d): walk(v, path+[str(i)], name)
    elif isinstance(d, str):
        m = pat.search(d)
        if m and 'skill_level' in d:
            expr = m.group(1); n+=1
            keys.add(path[-1] if not path[-1].isdigit() else path[-2])
            for cl in (200, 270):
              for wa in (0, 300):
                for cint in (1000, 60000):
                    vals=[]
                    for L in range(0, 63):
                        e = expr.replace('skill_level', str(L))
                        env={'character_level': cl, 'weapon_attack_power': wa, 'weapon_pure_attack_power': wa, 'character_stat.INT': cint, 'combat_orders_level':1,'passive_skill_level':0}
                        try: vals.append(float(evaluate_expression(e, env)))
                        except Exception as ex: vals.append(None)
                    if None in vals: viol.append(('ERR', name, '.'.join(path), expr)); break
                    dec=[L for L in range(62) if vals[L+1] < vals[L]-1e-12]
                    if dec: viol.append(('DEC', name, '.'.join(path), expr, dec[:5])); break
                else: continue
                break
              else: continue
              break
for f in glob.glob('/repo/simaple/data/jobs/resources/**/*.yaml', recursive=True):
    for doc in yaml.safe_load_all(open(f)):
        if not doc or 'data' not in doc: continue
        walk(doc['data'], [], f.split('resources/')[1]+':'+str(doc['data'].get('name')))
print("formulas with skill_level:", n)
print(sorted(keys))
for v in viol: print(v)
