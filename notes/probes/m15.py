import json, random, collections, sys
from simaple.container.environment_provider import MinimalEnvironmentProvider
from simaple.container.simulation import get_operation_engine, get_skill_components
from simaple.core import JobType, Stat, ActionStat
from simaple.simulate.policy.parser import parse_dsl_to_command
from simaple.simulate.base import Checkpoint
jobs = ['adele','archmagefb','archmagetc','bishop','dualblade','mechanic','soulmaster','windbreaker']
rng = random.Random(9); bad = collections.Counter(); ex={}
def canon(x): return json.dumps(x, sort_keys=True, ensure_ascii=False)
for job in jobs:
    prov = MinimalEnvironmentProvider(level=270, action_stat=ActionStat(buff_duration=50, cooltime_reduce=2000), stat=Stat(INT=1000, STR=1000, LUK=1000, DEX=1000, magic_attack=100, attack_power=100), jobtype=JobType(job), hexa_skill_level=10, hexa_mastery_level=10)
    env = prov.get_simulation_environment(); e = get_operation_engine(env)
    names=[c.name for c in get_skill_components(env)]
    n=0
    for i in range(150):
        r=rng.random()
        cmd = f'CAST "{rng.choice(names)}"' if r<0.7 else (f'ELAPSE {rng.choice([30,100,330.5,1000,2500,0.125])}' if r<0.9 else f'KEYDOWNSTOP "{rng.choice(names)}"')
        log = e.exec(parse_dsl_to_command(cmd)[0])
        for pl in log.playlogs:
            ck = pl.checkpoint; n+=1
            again = ck.restore().save()
            if canon(again) != canon(ck.store_ckpt): bad[(job,'restore-save')]+=1; ex.setdefault((job,'rs'), [k for k in ck.store_ckpt if canon(again.get(k))!=canon(ck.store_ckpt[k])][:3])
            viaj = Checkpoint.model_validate(json.loads(ck.model_dump_json()))
            if canon(viaj.restore().save()) != canon(ck.store_ckpt): bad[(job,'json-roundtrip')]+=1; ex.setdefault((job,'json'), [k for k in ck.store_ckpt if canon(viaj.restore().save().get(k))!=canon(ck.store_ckpt[k])][:3])
    print(job, n, file=sys.stderr)
print(dict(bad)); print(ex)
