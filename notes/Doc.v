(* DFSTraversePatch._apply with ArithmeticPatch: faithful model, the "every {{e}} is replaced" spec, and where they differ. *)
From Coq Require Import List Bool.
Import ListNotations.

Section Doc.
  Variable Leaf : Type.                       (* int | float | str | bool scalars *)
  Variable leaf_eqb : Leaf -> Leaf -> bool.
  Variable ev : Leaf -> Leaf.                 (* ArithmeticPatch.evaluate: identity on non-targets, the number on {{...}} *)
  Variable falsy : Leaf -> bool.              (* Python truthiness of a scalar: 0, 0.0, "", False *)
  Variable exclude_key : Leaf.                (* the string "exclude" *)

  Inductive doc := DLeaf (l : Leaf) | DList (ds : list doc) | DDict (kvs : list (Leaf * doc)).

  Definition is_container (d : doc) := match d with DLeaf _ => false | _ => true end.
  Fixpoint lookup (k : Leaf) (kvs : list (Leaf * doc)) : option doc :=
    match kvs with [] => None | (k', v) :: r => if leaf_eqb k' k then Some v else lookup k r end.
  (* dict.update semantics on an insertion-ordered association list *)
  Fixpoint set (kvs : list (Leaf * doc)) (k : Leaf) (v : doc) : list (Leaf * doc) :=
    match kvs with [] => [(k, v)] | (k', v') :: r => if leaf_eqb k' k then (k', v) :: r else (k', v') :: set r k v end.
  Definition excluded (kvs : list (Leaf * doc)) : list Leaf :=
    (match lookup exclude_key kvs with Some (DList ds) => flat_map (fun d => match d with DLeaf l => [l] | _ => [] end) ds | _ => [] end) ++ [exclude_key].
  Definition mem (k : Leaf) (l : list Leaf) := existsb (leaf_eqb k) l.

  (* shipped: list elements and bare scalars go through `patch or raw` *)
  Fixpoint apply (shipped : bool) (d : doc) : doc :=
    match d with
    | DLeaf l => if shipped && falsy (ev l) then DLeaf l else DLeaf (ev l)
    | DList ds => DList (map (apply shipped) ds)
    | DDict kvs =>
        let ex := excluded kvs in
        DDict ((fix go (l : list (Leaf * doc)) (acc : list (Leaf * doc)) : list (Leaf * doc) :=
                  match l with
                  | [] => acc
                  | (k, v) :: r =>
                      if mem k ex then go r acc else
                      match v with
                      | DLeaf x => go r (set acc (ev k) (DLeaf (ev x)))       (* patch_dict: both key and value, no truthiness test *)
                      | _ => go r (set acc k (apply shipped v))               (* container value: key NOT evaluated *)
                      end
                  end) kvs [])
    end.

  (* the property's reading: every leaf and every key, at any depth, is evaluated *)
  Fixpoint ideal (d : doc) : doc :=
    match d with
    | DLeaf l => DLeaf (ev l)
    | DList ds => DList (map ideal ds)
    | DDict kvs => DDict (map (fun kv => (ev (fst kv), ideal (snd kv))) kvs)
    end.

  (* a document is "plain" when it has no exclude entries, its (evaluated) keys are pairwise distinct,
     and no container hangs under a key that evaluation would change *)
  Fixpoint plain (d : doc) : Prop :=
    match d with
    | DLeaf _ => True
    | DList ds => (fix all (l : list doc) : Prop := match l with [] => True | x :: r => plain x /\ all r end) ds
    | DDict kvs =>
        lookup exclude_key kvs = None /\ NoDup (map (fun kv => ev (fst kv)) kvs) /\
        (forall k, In k (map fst kvs) -> leaf_eqb k exclude_key = false) /\
        (fix all (l : list (Leaf * doc)) : Prop :=
           match l with [] => True | (k, v) :: r => plain v /\ (is_container v = true -> ev k = k) /\ all r end) kvs
    end.

  Hypothesis leaf_eqb_spec : forall a b, leaf_eqb a b = true <-> a = b.

  Lemma mem_false_only_exclude k : leaf_eqb k exclude_key = false -> mem k [exclude_key] = false.
  Proof. intros H. cbn. rewrite H. reflexivity. Qed.

  (* set on a fresh key appends *)
  Lemma set_fresh acc k v : ~ In k (map fst acc) -> set acc k v = acc ++ [(k, v)].
  Proof.
    induction acc as [|[k' v'] r IH]; cbn; intros Hn; [reflexivity|].
    destruct (leaf_eqb k' k) eqn:E; [apply leaf_eqb_spec in E; subst; exfalso; apply Hn; left; reflexivity|].
    rewrite IH; [reflexivity|]. intro H. apply Hn. right. exact H.
  Qed.

  Definition go (shipped : bool) (ex : list Leaf) :=
    fix go (l : list (Leaf * doc)) (acc : list (Leaf * doc)) : list (Leaf * doc) :=
      match l with
      | [] => acc
      | (k, v) :: r =>
          if mem k ex then go r acc else
          match v with
          | DLeaf x => go r (set acc (ev k) (DLeaf (ev x)))
          | _ => go r (set acc k (apply shipped v))
          end
      end.

  Lemma apply_dict shipped kvs : apply shipped (DDict kvs) = DDict (go shipped (excluded kvs) kvs []).
  Proof. reflexivity. Qed.

  Definition entry_ideal (kv : Leaf * doc) := (ev (fst kv), ideal (snd kv)).

  Lemma go_plain : forall l acc,
    (forall kv, In kv l -> leaf_eqb (fst kv) exclude_key = false) ->
    NoDup (map fst acc ++ map (fun kv => ev (fst kv)) l) ->
    (forall kv, In kv l -> apply false (snd kv) = ideal (snd kv) /\ (is_container (snd kv) = true -> ev (fst kv) = fst kv)) ->
    go false [exclude_key] l acc = acc ++ map entry_ideal l.
  Proof.
    induction l as [|[k v] r IH]; intros acc Hex Hnd Hrec; cbn [go map]; [rewrite app_nil_r; reflexivity|].
    rewrite (mem_false_only_exclude k (Hex (k, v) (or_introl eq_refl))).
    destruct (Hrec (k, v) (or_introl eq_refl)) as [Hv Hk]. cbn [fst snd] in Hv, Hk.
    assert (Hfresh : ~ In (ev k) (map fst acc)).
    { intro H. cbn [map] in Hnd. apply NoDup_remove_2 in Hnd. apply Hnd. apply in_or_app. left. exact H. }
    assert (Hnd' : forall v', NoDup (map fst (acc ++ [(ev k, v')]) ++ map (fun kv => ev (fst kv)) r)).
    { intros v'. rewrite map_app. cbn [map fst]. rewrite <- app_assoc. cbn [app]. exact Hnd. }
    destruct v as [x|ds|kvs'].
    - rewrite set_fresh by exact Hfresh. rewrite IH.
      + rewrite <- app_assoc. reflexivity.
      + intros kv H. apply Hex. right. exact H.
      + apply Hnd'.
      + intros kv H. apply Hrec. right. exact H.
    - rewrite <- (Hk eq_refl) at 1. rewrite set_fresh by exact Hfresh. rewrite Hv. rewrite IH.
      + rewrite <- app_assoc. reflexivity.
      + intros kv H. apply Hex. right. exact H.
      + apply Hnd'.
      + intros kv H. apply Hrec. right. exact H.
    - rewrite <- (Hk eq_refl) at 1. rewrite set_fresh by exact Hfresh. rewrite Hv. rewrite IH.
      + rewrite <- app_assoc. reflexivity.
      + intros kv H. apply Hex. right. exact H.
      + apply Hnd'.
      + intros kv H. apply Hrec. right. exact H.
  Qed.

  (* with the `patch or raw` repair (shipped = false): on plain documents apply is exactly the ideal map *)
  Theorem apply_ideal : forall d, plain d -> apply false d = ideal d.
  Proof.
    fix IH 1. intros [l|ds|kvs] Hp.
    - reflexivity.
    - cbn [apply ideal]. f_equal. cbn [plain] in Hp. induction ds as [|x r IHr]; [reflexivity|].
      destruct Hp as [Hx Hr]. cbn [map]. f_equal; [apply IH; exact Hx|apply IHr; exact Hr].
    - rewrite apply_dict. cbn [ideal]. f_equal. cbn [plain] in Hp. destruct Hp as (Hno & Hnd & Hex & Hall).
      assert (Eex : excluded kvs = [exclude_key]) by (unfold excluded; rewrite Hno; reflexivity). rewrite Eex.
      rewrite go_plain; [reflexivity| | |].
      + intros kv Hin. apply Hex. apply in_map. exact Hin.
      + exact Hnd.
      + clear Hno Hnd Hex Eex. induction kvs as [|[k v] r IHr]; intros kv Hin; [destruct Hin|].
        destruct Hall as (Hv & Hk & Hr). destruct Hin as [<-|Hin]; [split; [apply IH; exact Hv|exact Hk]|apply IHr; auto].
  Qed.

  (* the shipped truthiness test breaks it as soon as some list element evaluates to a falsy value *)
  Theorem apply_shipped_refuted : forall l, falsy (ev l) = true -> ev l <> l -> apply true (DList [DLeaf l]) <> ideal (DList [DLeaf l]).
  Proof. intros l Hf Hne. cbn. rewrite Hf. intro X. inversion X. congruence. Qed.
End Doc.
Print Assumptions apply_ideal.
