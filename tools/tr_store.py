"""T-store: fail-closed translator  Python `ast` -> Gallina  for the checkpointing of the store, simaple/simulate/base.py:

    ConcreteStore.save, load, _save_entity, _load_entity;  AddressedStore.save, load;  Checkpoint.create, restore

-> gen/StoreSrc.v.  Proofs/StoreTie.v proves the generated `src_save` / `src_load` equal to `save_store` / `restore_store` of
Proofs/StoreRoundtrip.v, about which `restore (save s) = s` is derived from the round trip of one entity (Props/C01_store.v).

The store is an insertion-ordered dict address -> Entity (Model/Dispatch.v `store` = association list).  Accepted:
    save:  return {K: V for k, v in self._entities.items()}      K, V expressions over k, v; V may call self._save_entity(v)
    load:  self._entities = {K: V for k, v in saved_store.items()}                    V may call self._load_entity(v)
    _save_entity:  {"cls": entity.__class__.__name__, "payload": entity.model_dump()}       -> the abstract `dump`
    _load_entity:  get_class(saved["cls"], kind="Entity").model_validate(saved["payload"])  -> the abstract `parse`
    AddressedStore.save / load delegate to the concrete store; Checkpoint.create wraps store.save(); Checkpoint.restore loads the
    recorded dict into a fresh ConcreteStore and wraps it in an AddressedStore with the default (root) address   (reviewed shapes).
"""
from __future__ import annotations

import ast
import os

SRC = "simaple/simulate/base.py"


class Rejected(Exception):
    pass


def bad(node, why):
    raise Rejected("%s (line %s): %s" % (why, getattr(node, "lineno", "?"), ast.dump(node)[:160]))


def body_of(fn):
    return [s for s in fn.body if not (isinstance(s, ast.Expr) and isinstance(s.value, ast.Constant) and isinstance(s.value.value, str))]


def method(cls, name):
    for n in cls.body:
        if isinstance(n, ast.FunctionDef) and n.name == name:
            return n
    raise Rejected("method %s.%s not found" % (cls.name, name))


def same(stmts, text, what):
    want = ast.parse(text).body
    if len(stmts) != len(want) or any(ast.dump(a) != ast.dump(b) for a, b in zip(stmts, want)):
        raise Rejected("%s is not the reviewed shape `%s` but `%s`" % (
            what, text.strip().replace("\n", "; "), "; ".join(ast.unparse(s).replace("\n", " ") for s in stmts)[:300]))


def comp(e, source, helper, fn):
    """{K: V for k, v in <source>.items()} -> Coq map"""
    if not (isinstance(e, ast.DictComp) and len(e.generators) == 1 and not e.generators[0].ifs
            and isinstance(e.generators[0].target, ast.Tuple) and len(e.generators[0].target.elts) == 2
            and all(isinstance(x, ast.Name) for x in e.generators[0].target.elts) and ast.unparse(e.generators[0].iter) == source + ".items()"):
        bad(e, "not a dict comprehension over %s.items()" % source)
    k, v = (x.id for x in e.generators[0].target.elts)

    def tr(x):
        if isinstance(x, ast.Name) and x.id in (k, v):
            return x.id
        if isinstance(x, ast.Call) and ast.unparse(x.func) == "self." + helper and len(x.args) == 1 and not x.keywords:
            return "(%s %s)" % (fn, tr(x.args[0]))
        bad(x, "comprehension component outside the language")
    return "map (fun '(%s, %s) => (%s, %s))" % (k, v, tr(e.key), tr(e.value))


def gen(repo):
    tree = ast.parse(open(os.path.join(str(repo), SRC), encoding="utf-8").read())
    cls = {n.name: n for n in tree.body if isinstance(n, ast.ClassDef)}
    for c in ("ConcreteStore", "AddressedStore", "Checkpoint"):
        if c not in cls:
            raise Rejected("class %s not found" % c)
    cs = cls["ConcreteStore"]
    b = body_of(method(cs, "save"))
    if not (len(b) == 1 and isinstance(b[0], ast.Return)):
        bad(method(cs, "save"), "ConcreteStore.save is not a single return")
    save = comp(b[0].value, "self._entities", "_save_entity", "dump")
    b = body_of(method(cs, "load"))
    if not (len(b) == 1 and isinstance(b[0], ast.Assign) and ast.unparse(b[0].targets[0]) == "self._entities"):
        bad(method(cs, "load"), "ConcreteStore.load is not `self._entities = {...}`")
    args = [a.arg for a in method(cs, "load").args.args]
    load = comp(b[0].value, args[1], "_load_entity", "parse")
    same(body_of(method(cs, "_save_entity")),
         "entity_clsname = entity.__class__.__name__\nreturn {'cls': entity_clsname, 'payload': entity.model_dump()}\n",
         "ConcreteStore._save_entity")
    same(body_of(method(cs, "_load_entity")),
         "(clsname, payload) = (saved_entity_dict['cls'], saved_entity_dict['payload'])\n"
         "return cast(Entity, get_class(clsname, kind='Entity').model_validate(payload))\n", "ConcreteStore._load_entity")
    same(body_of(method(cs, "__init__")), "self._entities: dict[str, Entity] = {}\n", "ConcreteStore.__init__")
    ad = cls["AddressedStore"]
    same(body_of(method(ad, "save")), "return self._concrete_store.save()\n", "AddressedStore.save")
    same(body_of(method(ad, "load")), "return self._concrete_store.load(saved_store)\n", "AddressedStore.load")
    ini = method(ad, "__init__")
    if [a.arg for a in ini.args.args] != ["self", "concrete_store", "current_address"] or [ast.unparse(d) for d in ini.args.defaults] != ["''"]:
        bad(ini, "AddressedStore.__init__ signature (current_address must default to the root address '')")
    ck = cls["Checkpoint"]
    same(body_of(method(ck, "create")), "return Checkpoint(store_ckpt=store.save())\n", "Checkpoint.create")
    same(body_of(method(ck, "restore")),
         "concrete_store = ConcreteStore()\nconcrete_store.load(self.store_ckpt)\nstore = AddressedStore(concrete_store)\nreturn store\n",
         "Checkpoint.restore")
    text = HEADER + ("(* ConcreteStore.save (= AddressedStore.save = the dict a Checkpoint holds) *)\n"
                     "Definition src_save (entities : store Ent) : list (string * D) :=\n  %s entities.\n\n"
                     "(* ConcreteStore.load (= what Checkpoint.restore puts into a fresh store) *)\n"
                     "Definition src_load (saved : list (string * D)) : store Ent :=\n  %s saved.\n\nEnd StoreSrc.\n" % (save, load))
    return {"StoreSrc.v": text}, {"functions": ["ConcreteStore.save", "load", "_save_entity", "_load_entity", "AddressedStore.save", "load",
                                                "Checkpoint.create", "restore"], "source": SRC}


HEADER = """(* GENERATED by tools/tr_store.py from simaple/simulate/base.py - do not edit *)
From Coq Require Import List String.
Import ListNotations.
From V Require Import Model.Dispatch.

Section StoreSrc.
  Variables Ent D : Type.
  Variable dump : Ent -> D.      (* _save_entity: class name + model_dump() *)
  Variable parse : D -> Ent.     (* _load_entity: class lookup + model_validate() *)

"""

if __name__ == "__main__":
    import sys
    files, meta = gen(sys.argv[1] if len(sys.argv) > 1 else "/repo")
    print(files["StoreSrc.v"])
