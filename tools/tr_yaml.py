"""T-yaml: simaple/data/jobs/resources/**/*.yaml + the level-dependent code of the patch chain
      ->  coq/gen/Formulas.v, coq/gen/Profiles.v                                         (property C16)

Reads (never imports simaple):
  * every YAML document under simaple/data/jobs/resources (PyYAML `safe_load_all`, files in sorted `Path.rglob` order, the
    order DirectorySpecRepository uses): every '{{ ... }}' string is lexed and parsed with the token grammar of
    simaple/spec/_math.py into an `expr` of Model/Expr.v; the spec fields SkillLevelPatch.get_skill_level reads
    (`name`, `default_skill_level`, `passive_skill_enabled`, `combat_orders_enabled`); PassiveHyperskill and
    SkillImprovement specs; the eight SkillProfile documents;
  * simaple/data/jobs/patch.py with `ast`: SkillLevelPatch.get_skill_level (statement by statement -> `gen_skill_level`),
    SkillLevelPatch.translate (must be the TEXTUAL `str.replace(representation, str(level))`) and the representation
    string, HexaSkillImprovementPatch._compute_final_damage_multiplier (if-chain -> `gen_hexa_fdm`),
    VSkillImprovementPatch.apply (scale * level, the `level > 40` bonus -> `gen_v_fdm`, `gen_v_ied`);
  * simaple/data/jobs/builtin.py with `ast`: `_exclude_hexa_skill` (which tier is looked up, comparison, default,
    which tier is dropped -> `gen_excl`), the patch class lists of `build_skills`, the keys of `_as_reference_variables`;
  * simaple/core/base.py with `ast`: the field names of `Stat` (for `character_stat.<field>` and `stat_of`).

Fail closed: any YAML shape, expression token, statement or expression form that is not recognised raises `Rejected`
(nothing is guessed, no file is produced).  `gen(repo) -> (files, meta)`; `meta` carries the same data as Python values
for the correspondence harness (tools/lib/h_levels.py).

What makes a field a DAMAGE FIGURE (f_damage = true) is decided here, by `is_damage_path`: see its docstring.
"""
from __future__ import annotations

import ast
import re
from decimal import Decimal
from fractions import Fraction
from pathlib import Path

import yaml

RES = "simaple/data/jobs/resources"
PATCH_PY = "simaple/data/jobs/patch.py"
BUILTIN_PY = "simaple/data/jobs/builtin.py"
BASE_PY = "simaple/core/base.py"

# documented level ranges (properties.jsonl, C16 quantifier)
MAX_SKILL_LEVEL = 30         # v-skill, hexa skill, hexa mastery: 0..30
MAX_OFFSET = 2               # combat orders 0..2, passive level 0..2
MAX_V_IMPROVEMENT = 60
MAX_HEXA_IMPROVEMENT = 30

KINDS = {"Component", "PassiveSkill", "DamageLogic", "SkillImprovement", "PassiveHyperskill", "SkillProfile",
         "BuiltinStrategy"}
FORMULA_KINDS = {"Component", "PassiveSkill", "DamageLogic", "SkillImprovement"}
PATCH_NAMES = ["SkillLevelPatch", "ArithmeticPatch", "VSkillImprovementPatch", "HexaSkillImprovementPatch",
               "PassiveHyperskillPatch", "SkillImprovementPatch"]


class Rejected(Exception):
    pass


# =========================================================================================== Coq text helpers
def qlit(x) -> str:
    f = Fraction(x)
    n, d = f.numerator, f.denominator
    return "((-%d)#%d)" % (-n, d) if n < 0 else "(%d#%d)" % (n, d)


def zlit(n: int) -> str:
    return "(%d)%%Z" % n if n >= 0 else "(-%d)%%Z" % (-n)


def cstr(s: str) -> str:
    if "\n" in s or "\r" in s:
        raise Rejected("newline inside a string that must become a Coq string: %r" % s)
    return '"' + s.replace('"', '""') + '"'


def clist(items, sep="; ") -> str:
    return "[" + sep.join(items) + "]"


def cbool(b) -> str:
    return "true" if b else "false"


def copt(v, f) -> str:
    return "None" if v is None else "(Some %s)" % f(v)


# =========================================================================================== expression language
OPS = ["//", "+", "-", "*", "/", ">", "<"]
LVL = {"+": 0, "-": 0, "*": 1, "/": 1, "//": 1, ">": 1, "<": 1}
COQ_OP = {"+": "Add", "-": "Sub", "*": "Mul", "/": "Div", "//": "IDiv", ">": "Gt", "<": "Lt"}
FN1 = {"ceil": "Ceil", "floor": "Floor", "apply_attack_speed": "AtkSpd"}
FN2 = {"min": "Min", "max": "Max"}
_NUM = re.compile(r"(?:[0-9]+\.[0-9]*|\.[0-9]+|[0-9]+)(?:[eE][+-]?[0-9]+)?")
_SEP = re.compile(r"[0-9_]+")
_ID = re.compile(r"[a-zA-Z_\.]+")
_IDCH = "abcdefghijklmnopqrstuvwxyzABCDEFGHIJKLMNOPQRSTUVWXYZ_."
_DIG = "0123456789"


def lex(text: str, where: str):
    """Token list of one expression, in the token alphabet of Model/ExprParse.v.  Lark's dynamic lexer is not modelled;
    this lexer accepts only texts whose tokenisation is unambiguous (anything else is rejected)."""
    toks, i, n = [], 0, len(text)
    while i < n:
        c = text[i]
        if c in " \t":
            i += 1
            continue
        if c in _DIG or (c == "." and i + 1 < n and text[i + 1] in _DIG):
            m, s = _NUM.match(text, i), _SEP.match(text, i)
            if s and s.end() > m.end():
                t = s.group(0)
                if t.startswith("_") or t.endswith("_") or "__" in t:
                    raise Rejected("digit separator placement %r in %s" % (t, where))
                toks.append(("sep", t))
                i = s.end()
            else:
                toks.append(("num", m.group(0)))
                i = m.end()
            if i < n and (text[i] in _IDCH or text[i] in _DIG):
                raise Rejected("number immediately followed by %r in %s: %r" % (text[i], where, text))
            continue
        if c in _IDCH:
            m = _ID.match(text, i)
            t = m.group(0)
            i = m.end()
            if not re.fullmatch(r"[a-zA-Z_][a-zA-Z_\.]*", t) or not re.search(r"[a-zA-Z]", t) or t.endswith("."):
                raise Rejected("odd identifier %r in %s" % (t, where))
            if i < n and text[i] in _DIG:
                raise Rejected("identifier immediately followed by a digit in %s: %r" % (where, text))
            if t in FN1 or t in FN2:
                if i < n and text[i] == "(":
                    toks.append(("f1" if t in FN1 else "f2", t + "("))
                    i += 1
                    continue
                raise Rejected("function name %r used as a variable in %s" % (t, where))
            if i < n and text[i] == "(":
                raise Rejected("call of unknown function %r in %s" % (t, where))
            toks.append(("var", t))
            continue
        if text.startswith("//", i):
            toks.append(("op", "//"))
            i += 2
            continue
        if c in "+-*/<>":
            toks.append(("op", c))
            i += 1
            continue
        if c == "(":
            toks.append(("lp", "("))
        elif c == ")":
            toks.append(("rp", ")"))
        elif c == ",":
            toks.append(("comma", ","))
        else:
            raise Rejected("character %r not in the expression language (%s: %r)" % (c, where, text))
        i += 1
    if not toks:
        raise Rejected("empty expression in %s" % where)
    return toks


def parse_tokens(toks, where: str):
    """Recursive descent over the grammar of simaple/spec/_math.py:
       expr: expr (+|-) term | term     term: term (*|/|//|>|<) factor | factor
       factor: NUMBER | SEPERATED_NUMBER | f1( expr ) | f2( expr , expr ) | VARIABLE | - factor | ( expr )
    Trees: ('num',text) ('sep',text) ('var',name) ('bin',op,a,b) ('neg',a) ('fn1',f,a) ('fn2',g,a,b) ('par',a)."""
    pos = 0

    def peek():
        return toks[pos] if pos < len(toks) else (None, None)

    def eat(kind, val=None):
        nonlocal pos
        k, v = peek()
        if k != kind or (val is not None and v != val):
            raise Rejected("parse error at token %d (%r) of %s" % (pos, v, where))
        pos += 1
        return v

    def factor():
        nonlocal pos
        k, v = peek()
        if k in ("num", "sep", "var"):
            pos += 1
            return (k, v)
        if k == "f1":
            pos += 1
            a = expr()
            eat("rp")
            return ("fn1", v[:-1], a)
        if k == "f2":
            pos += 1
            a = expr()
            eat("comma")
            b = expr()
            eat("rp")
            return ("fn2", v[:-1], a, b)
        if k == "op" and v == "-":
            pos += 1
            return ("neg", factor())
        if k == "lp":
            pos += 1
            a = expr()
            eat("rp")
            return ("par", a)
        raise Rejected("parse error at token %d (%r) of %s" % (pos, v, where))

    def term():
        nonlocal pos
        a = factor()
        while peek()[0] == "op" and LVL[peek()[1]] == 1:
            o = peek()[1]
            pos += 1
            a = ("bin", o, a, factor())
        return a

    def expr():
        nonlocal pos
        a = term()
        while peek()[0] == "op" and LVL[peek()[1]] == 0:
            o = peek()[1]
            pos += 1
            a = ("bin", o, a, term())
        return a

    t = expr()
    if pos != len(toks):
        raise Rejected("trailing tokens after position %d of %s" % (pos, where))
    return t


def lit_value(text: str) -> Fraction:
    return Fraction(Decimal(text.replace("_", "")))


def coq_expr(t) -> str:
    k = t[0]
    if k in ("num", "sep"):
        return "Num %s" % qlit(lit_value(t[1]))
    if k == "var":
        return "Var %s" % cstr(t[1])
    if k == "bin":
        return "Bin %s (%s) (%s)" % (COQ_OP[t[1]], coq_expr(t[2]), coq_expr(t[3]))
    if k == "neg":
        return "Neg (%s)" % coq_expr(t[1])
    if k == "fn1":
        return "Fn1 %s (%s)" % (FN1[t[1]], coq_expr(t[2]))
    if k == "fn2":
        return "Fn2 %s (%s) (%s)" % (FN2[t[1]], coq_expr(t[2]), coq_expr(t[3]))
    if k == "par":
        return coq_expr(t[1])
    raise Rejected("tree node %r" % (k,))


def coq_tok(tok) -> str:
    k, s = tok
    if k == "num":
        return "TNum %s" % qlit(lit_value(s))
    if k == "sep":
        return "TSep [%s]" % "; ".join("SUnd" if c == "_" else "SDig %s" % c for c in s)
    if k == "var":
        return "TVar %s" % cstr(s)
    if k == "op":
        return "TOp %s" % COQ_OP[s]
    if k == "lp":
        return "TLP"
    if k == "rp":
        return "TRP"
    if k == "comma":
        return "TComma"
    if k == "f1":
        return "TF1 %s" % FN1[s[:-1]]
    if k == "f2":
        return "TF2 %s" % FN2[s[:-1]]
    raise Rejected("token kind %r" % (k,))


def tree_vars(t):
    k = t[0]
    if k == "var":
        return [t[1]]
    if k in ("num", "sep"):
        return []
    out = []
    for c in t[1:]:
        if isinstance(c, tuple):
            for v in tree_vars(c):
                if v not in out:
                    out.append(v)
    return out


# =========================================================================================== damage-figure classification
_DAMAGE_KEY = re.compile(r"(?:^|_)damage(?:$|_)")
_HIT_KEY = re.compile(r"(?:^|_)hit$")
TIME_KEYS = {"cooldown_duration", "delay", "lasting_duration"}


def leaf_key(path):
    """the last path element that is not a list index"""
    for p in reversed(path):
        if not p.isdigit():
            return p
    return ""


def is_damage_path(path, stat_fields) -> bool:
    """A field of a skill specification is a DAMAGE FIGURE iff
         (a) its key contains the word `damage` (damage, periodic_damage, finish_damage, dot_damage, trigger_damage,
             damage_increment, default_damage, final_damage_multiplier, max_damage_multiplier, ...), or is `hit` / ends in
             `_hit` (hit, periodic_hit, finish_hit, trigger_hit, crack_hit) -- also inside nested blocks and lists
             (damage_and_hits[i].damage / .hit, periodic_0x.damage / .hit); or
         (b) it is a field of a stat block the skill applies (parent key modifier / stat / synergy / advantage and the key
             is a field of simaple.core.Stat: attack_power, critical_rate, ignored_defence, DEX, ...).
       Not damage figures: times (cooldown_duration, delay, lasting_duration, *_interval), counters and probabilities
       (max_count, summon_increment, electric_current_prob, ether_multiplier) and the `disadvantage` block."""
    key = leaf_key(path)
    if "disadvantage" in path:
        return False
    if key in TIME_KEYS or key.endswith("_interval") or key.endswith("_duration"):
        return False
    if _DAMAGE_KEY.search(key) or _HIT_KEY.search(key):
        return True
    names = [p for p in path if not p.isdigit()]
    if len(names) >= 2 and names[-2] in ("modifier", "stat", "synergy", "advantage") and key in stat_fields:
        return True
    return False


# =========================================================================================== Python ast readers
def _src(repo, rel):
    p = Path(repo) / rel
    try:
        return ast.parse(p.read_text(encoding="utf-8"))
    except (OSError, SyntaxError) as e:
        raise Rejected("cannot read %s: %s" % (rel, e))


def _find_class(mod, name, rel):
    for n in mod.body:
        if isinstance(n, ast.ClassDef) and n.name == name:
            return n
    raise Rejected("class %s not found in %s" % (name, rel))


def _find_func(body, name, rel):
    for n in body:
        if isinstance(n, ast.FunctionDef) and n.name == name:
            return n
    raise Rejected("function %s not found in %s" % (name, rel))


def _strip_doc(body):
    if body and isinstance(body[0], ast.Expr) and isinstance(body[0].value, ast.Constant) and isinstance(body[0].value.value, str):
        return body[1:]
    return body


def _dump(n):
    return ast.dump(n, annotate_fields=False)


def _expect(node, source, what):
    """the node must be exactly this expression/statement (compared as ast)"""
    ref = ast.parse(source).body[0]
    if isinstance(ref, ast.Expr) and not isinstance(node, ast.Expr):
        ref = ref.value
    if _dump(node) != _dump(ref):
        raise Rejected("%s: expected `%s`, found `%s`" % (what, source, ast.unparse(node)))


def read_stat_fields(repo):
    cls = _find_class(_src(repo, BASE_PY), "Stat", BASE_PY)
    fields = []
    for n in cls.body:
        if isinstance(n, ast.AnnAssign) and isinstance(n.target, ast.Name):
            if not (isinstance(n.annotation, ast.Name) and n.annotation.id == "float"):
                raise Rejected("Stat field %s is not annotated float" % n.target.id)
            fields.append(n.target.id)
    if not fields:
        raise Rejected("no fields found in class Stat")
    return fields


def read_skill_level_patch(repo):
    """-> dict(representation, cond atoms, sources, offsets): the pieces of SkillLevelPatch that decide the level."""
    mod = _src(repo, PATCH_PY)
    cls = _find_class(mod, "SkillLevelPatch", PATCH_PY)
    rep = None
    for n in cls.body:
        if isinstance(n, ast.AnnAssign) and isinstance(n.target, ast.Name) and n.target.id == "skill_level_representation":
            if not (isinstance(n.value, ast.Constant) and isinstance(n.value.value, str)):
                raise Rejected("skill_level_representation has no string default")
            rep = n.value.value
    if rep is None or not re.fullmatch(r"[a-zA-Z_]+", rep):
        raise Rejected("skill_level_representation missing or not an identifier: %r" % (rep,))
    # patch_value / patch_dict / translate: textual replacement in every string leaf value (keys untouched)
    pv = _strip_doc(_find_func(cls.body, "patch_value", PATCH_PY).body)
    if len(pv) != 1:
        raise Rejected("SkillLevelPatch.patch_value: unexpected body")
    _expect(pv[0], "return self.translate(value, origin)", "SkillLevelPatch.patch_value")
    pd = _strip_doc(_find_func(cls.body, "patch_dict", PATCH_PY).body)
    if len(pd) != 1:
        raise Rejected("SkillLevelPatch.patch_dict: unexpected body")
    _expect(pd[0], "return {k: self.translate(v, origin)}", "SkillLevelPatch.patch_dict")
    tr = _strip_doc(_find_func(cls.body, "translate", PATCH_PY).body)
    if len(tr) != 3:
        raise Rejected("SkillLevelPatch.translate: expected 3 statements, found %d" % len(tr))
    _expect(tr[0], "if not isinstance(maybe_representation, str):\n    return maybe_representation", "translate[0]")
    _expect(tr[1], "output = maybe_representation.replace(self.skill_level_representation, str(self.get_skill_level(origin)))",
            "translate[1] (textual substitution)")
    _expect(tr[2], "return output", "translate[2]")

    # get_skill_level
    body = _strip_doc(_find_func(cls.body, "get_skill_level", PATCH_PY).body)
    if len(body) < 2 or not isinstance(body[0], ast.If) or not isinstance(body[-1], ast.Return):
        raise Rejected("get_skill_level: unexpected statement sequence")
    _expect(body[-1], "return skill_level", "get_skill_level: last statement")
    first = body[0]

    def atom(n):
        d = _dump(n)
        if d == _dump(ast.parse('origin.get("name")').body[0].value):
            return "named"
        if d == _dump(ast.parse('origin["name"] in self.default_skill_levels').body[0].value):
            return "in_map"
        if d == _dump(ast.parse('self.default_skill_levels.get(origin["name"])').body[0].value):
            return "map_truthy"
        raise Rejected("get_skill_level: unrecognised condition `%s`" % ast.unparse(n))

    conds = [atom(v) for v in first.test.values] if isinstance(first.test, ast.BoolOp) and isinstance(first.test.op, ast.And) \
        else [atom(first.test)]

    def source(stmts, what):
        if len(stmts) != 1:
            raise Rejected("get_skill_level %s: expected one assignment" % what)
        s = stmts[0]
        if isinstance(s, ast.AnnAssign):
            tgt, val = s.target, s.value
        elif isinstance(s, ast.Assign) and len(s.targets) == 1:
            tgt, val = s.targets[0], s.value
        else:
            raise Rejected("get_skill_level %s: not an assignment: `%s`" % (what, ast.unparse(s)))
        if not (isinstance(tgt, ast.Name) and tgt.id == "skill_level"):
            raise Rejected("get_skill_level %s: assigns to `%s`" % (what, ast.unparse(tgt)))
        d = _dump(val)
        if d == _dump(ast.parse('self.default_skill_levels[origin["name"]]').body[0].value):
            return ("map",)
        if (isinstance(val, ast.Call) and _dump(val.func) == _dump(ast.parse("origin.get").body[0].value)
                and len(val.args) == 2 and not val.keywords and isinstance(val.args[0], ast.Constant)
                and val.args[0].value == "default_skill_level" and isinstance(val.args[1], ast.Constant)
                and type(val.args[1].value) is int):
            return ("spec", val.args[1].value)
        raise Rejected("get_skill_level %s: unrecognised level source `%s`" % (what, ast.unparse(val)))

    then_src, else_src = source(first.body, "then-branch"), source(first.orelse, "else-branch")
    if then_src[0] == "map" and "in_map" not in conds and "map_truthy" not in conds:
        raise Rejected("get_skill_level: the map is indexed without a membership test")
    offsets = []
    for s in body[1:-1]:
        ok = (isinstance(s, ast.If) and not s.orelse and len(s.body) == 1 and isinstance(s.body[0], ast.AugAssign)
              and isinstance(s.body[0].op, ast.Add) and isinstance(s.body[0].target, ast.Name) and s.body[0].target.id == "skill_level"
              and isinstance(s.body[0].value, ast.Attribute) and isinstance(s.body[0].value.value, ast.Name)
              and s.body[0].value.value.id == "self"
              and isinstance(s.test, ast.Call) and _dump(s.test.func) == _dump(ast.parse("origin.get").body[0].value)
              and len(s.test.args) == 2 and not s.test.keywords and isinstance(s.test.args[0], ast.Constant)
              and isinstance(s.test.args[0].value, str) and isinstance(s.test.args[1], ast.Constant) and s.test.args[1].value is False)
        if not ok:
            raise Rejected("get_skill_level: unrecognised statement `%s`" % ast.unparse(s).replace("\n", " "))
        offsets.append((s.test.args[0].value, s.body[0].value.attr))
    want = [("passive_skill_enabled", "passive_skill_level"), ("combat_orders_enabled", "combat_orders_level")]
    if sorted(offsets) != sorted(want):
        raise Rejected("get_skill_level: offsets %r, expected exactly %r" % (offsets, want))
    return {"representation": rep, "conds": conds, "then": then_src, "else": else_src, "offsets": offsets}


def coq_skill_level(sl) -> str:
    atoms = {"named": "named", "in_map": "(match in_map with Some _ => true | None => false end)",
             "map_truthy": "(match in_map with Some v => negb (v =? 0)%Z | None => false end)"}
    cond = " && ".join(atoms[a] for a in sl["conds"])

    def src(s):
        if s[0] == "map":
            return "(match in_map with Some v => v | None => 0 end)"
        return "(match spec_default with Some v => v | None => %s end)" % zlit(s[1])
    lines = ["Definition gen_skill_level (named : bool) (in_map spec_default : option Z) (passive_on co_on : bool) (passive co : Z) : Z :=",
             "  let skill_level := (if %s then %s else %s)%%Z in" % (cond, src(sl["then"]), src(sl["else"]))]
    for flag, field in sl["offsets"]:
        on = "passive_on" if flag == "passive_skill_enabled" else "co_on"
        amount = "passive" if field == "passive_skill_level" else "co"
        lines.append("  let skill_level := (if %s then skill_level + %s else skill_level)%%Z in" % (on, amount))
    lines.append("  skill_level.")
    return "\n".join(lines)


def _level_arith(n, var):
    """integer arithmetic in one variable -> Coq Q text"""
    if isinstance(n, ast.Name) and n.id == var:
        return "inject_Z level"
    if isinstance(n, ast.Constant) and type(n.value) in (int, float):
        return qlit(Fraction(Decimal(repr(n.value))))
    if isinstance(n, ast.BinOp) and isinstance(n.op, (ast.Add, ast.Sub, ast.Mult)):
        o = {ast.Add: "+", ast.Sub: "-", ast.Mult: "*"}[type(n.op)]
        return "(%s %s %s)" % (_level_arith(n.left, var), o, _level_arith(n.right, var))
    if isinstance(n, ast.UnaryOp) and isinstance(n.op, ast.USub):
        return "(- %s)" % _level_arith(n.operand, var)
    raise Rejected("hexa table: unsupported arithmetic `%s`" % ast.unparse(n))


def _level_cond(n, var):
    if isinstance(n, ast.Compare):
        terms, parts = [n.left] + list(n.comparators), []
        for a, op, b in zip(terms, n.ops, terms[1:]):
            def z(x):
                if isinstance(x, ast.Name) and x.id == var:
                    return "level"
                if isinstance(x, ast.Constant) and type(x.value) is int:
                    return zlit(x.value)
                raise Rejected("hexa table: unsupported comparison operand `%s`" % ast.unparse(x))
            f = {ast.Eq: "(%s =? %s)%%Z", ast.Lt: "(%s <? %s)%%Z", ast.LtE: "(%s <=? %s)%%Z",
                 ast.Gt: "(%s >? %s)%%Z", ast.GtE: "(%s >=? %s)%%Z"}.get(type(op))
            if f is None:
                raise Rejected("hexa table: unsupported comparison `%s`" % ast.unparse(n))
            parts.append(f % (z(a), z(b)))
        return "(" + " && ".join(parts) + ")"
    if isinstance(n, ast.BoolOp):
        j = " && " if isinstance(n.op, ast.And) else " || "
        return "(" + j.join(_level_cond(v, var) for v in n.values) + ")"
    raise Rejected("hexa table: unsupported condition `%s`" % ast.unparse(n))


def read_hexa_table(repo):
    cls = _find_class(_src(repo, PATCH_PY), "HexaSkillImprovementPatch", PATCH_PY)
    fn = _find_func(cls.body, "_compute_final_damage_multiplier", PATCH_PY)
    args = [a.arg for a in fn.args.args]
    if len(args) != 2 or args[0] != "self":
        raise Rejected("_compute_final_damage_multiplier: unexpected parameters %r" % args)
    var = args[1]
    body = _strip_doc(fn.body)
    rows = []
    if not body or not isinstance(body[-1], ast.Raise):
        raise Rejected("_compute_final_damage_multiplier: does not end with `raise`")
    for s in body[:-1]:
        if not (isinstance(s, ast.If) and not s.orelse and len(s.body) == 1 and isinstance(s.body[0], ast.Return)):
            raise Rejected("_compute_final_damage_multiplier: unrecognised statement `%s`" % ast.unparse(s).replace("\n", " "))
        r = s.body[0].value
        if not (isinstance(r, ast.Call) and isinstance(r.func, ast.Name) and r.func.id == "Stat" and not r.args):
            raise Rejected("_compute_final_damage_multiplier: returns `%s`" % ast.unparse(r))
        if not r.keywords:
            val = "0"
        elif len(r.keywords) == 1 and r.keywords[0].arg == "final_damage_multiplier":
            val = _level_arith(r.keywords[0].value, var)
        else:
            raise Rejected("_compute_final_damage_multiplier: Stat fields other than final_damage_multiplier: `%s`" % ast.unparse(r))
        rows.append((_level_cond(s.test, var), val, ast.unparse(s.test), ast.unparse(r)))
    # apply(): the multiplier of the level of the representative name is ADDED to the modifier
    ap = _strip_doc(_find_func(cls.body, "apply", PATCH_PY).body)
    want = ["output = copy.deepcopy(raw)",
            'previous_modifier = Stat.model_validate(output.get("modifier", {}))',
            "level = self.improvements.get(_get_representative_skill_name(raw), 0)",
            "new_modifier = previous_modifier + self._compute_final_damage_multiplier(level)",
            'output["modifier"] = new_modifier.short_dict()',
            "return output"]
    if len(ap) != len(want):
        raise Rejected("HexaSkillImprovementPatch.apply: %d statements, expected %d" % (len(ap), len(want)))
    for s, w in zip(ap, want):
        _expect(s, w, "HexaSkillImprovementPatch.apply")
    return rows


def coq_hexa(rows) -> str:
    out = ["Definition gen_hexa_fdm (level : Z) : option Q :="]
    for cond, val, _c, _r in rows:
        out.append("  if %s then Some (%s) else" % (cond, val))
    out.append("  None.")
    return "\n".join(out)


def read_v_improvement(repo):
    """VSkillImprovementPatch.apply -> (threshold, comparison, ignored_defence bonus)."""
    cls = _find_class(_src(repo, PATCH_PY), "VSkillImprovementPatch", PATCH_PY)
    body = _strip_doc(_find_func(cls.body, "apply", PATCH_PY).body)
    if len(body) != 8:
        raise Rejected("VSkillImprovementPatch.apply: %d statements, expected 8" % len(body))
    _expect(body[0], "output = copy.deepcopy(raw)", "VSkillImprovementPatch.apply[0]")
    t = body[1]
    if not (isinstance(t, ast.Try) and len(t.body) == 1 and len(t.handlers) == 1 and not t.orelse and not t.finalbody):
        raise Rejected("VSkillImprovementPatch.apply[1]: expected try/except around the pop")
    _expect(t.body[0], 'improvement_scale = output.pop("v_improvement")', "VSkillImprovementPatch.apply[1]")
    if not (len(t.handlers[0].body) == 1 and isinstance(t.handlers[0].body[0], ast.Raise)):
        raise Rejected("VSkillImprovementPatch.apply[1]: the handler does not re-raise")
    _expect(body[2], 'previous_modifier = Stat.model_validate(output.get("modifier", {}))', "VSkillImprovementPatch.apply[2]")
    _expect(body[3], "level = self.improvements.get(_get_representative_skill_name(raw), 0)", "VSkillImprovementPatch.apply[3]")
    _expect(body[4], "new_modifier = previous_modifier + Stat(final_damage_multiplier=improvement_scale * level)",
            "VSkillImprovementPatch.apply[4]")
    s = body[5]
    if not (isinstance(s, ast.If) and not s.orelse and len(s.body) == 1 and isinstance(s.test, ast.Compare)
            and len(s.test.ops) == 1 and isinstance(s.test.left, ast.Name) and s.test.left.id == "level"
            and isinstance(s.test.comparators[0], ast.Constant) and type(s.test.comparators[0].value) is int
            and isinstance(s.test.ops[0], (ast.Gt, ast.GtE))):
        raise Rejected("VSkillImprovementPatch.apply[5]: unrecognised bonus condition `%s`" % ast.unparse(s.test))
    thr, strict = s.test.comparators[0].value, isinstance(s.test.ops[0], ast.Gt)
    b = s.body[0]
    if not (isinstance(b, ast.AugAssign) and isinstance(b.op, ast.Add) and isinstance(b.target, ast.Name) and b.target.id == "new_modifier"
            and isinstance(b.value, ast.Call) and isinstance(b.value.func, ast.Name) and b.value.func.id == "Stat"
            and not b.value.args and len(b.value.keywords) == 1 and b.value.keywords[0].arg == "ignored_defence"
            and isinstance(b.value.keywords[0].value, ast.Constant) and type(b.value.keywords[0].value.value) in (int, float)):
        raise Rejected("VSkillImprovementPatch.apply[5]: unrecognised bonus `%s`" % ast.unparse(b))
    bonus = b.value.keywords[0].value.value
    _expect(body[6], 'output["modifier"] = new_modifier.short_dict()', "VSkillImprovementPatch.apply[6]")
    _expect(body[7], "return output", "VSkillImprovementPatch.apply[7]")
    # the representative name
    rn = _strip_doc(_find_func(_src(repo, PATCH_PY).body, "_get_representative_skill_name", PATCH_PY).body)
    want = ['if "representative_name" in raw:\n    assert isinstance(raw["representative_name"], str)\n    return raw["representative_name"]',
            'assert isinstance(raw["name"], str)', 'return raw["name"]']
    if len(rn) != 3:
        raise Rejected("_get_representative_skill_name: unexpected body")
    for s, w in zip(rn, want):
        _expect(s, w, "_get_representative_skill_name")
    return {"threshold": thr, "strict": strict, "bonus": bonus}


def read_exclude(repo):
    """_exclude_hexa_skill -> which tier's level is looked up, comparison with which constant, default, which tier is dropped."""
    mod = _src(repo, BUILTIN_PY)
    fn = _find_func(mod.body, "_exclude_hexa_skill", BUILTIN_PY)
    if [a.arg for a in fn.args.args] != ["components", "hexa_replacements", "skill_levels"]:
        raise Rejected("_exclude_hexa_skill: unexpected parameters")
    body = _strip_doc(fn.body)
    if len(body) != 5:
        raise Rejected("_exclude_hexa_skill: %d statements, expected 5" % len(body))
    _expect(body[0], "_component_names = [component.name for component in components]", "_exclude_hexa_skill[0]")
    _expect(body[1], "components_to_exclude = []", "_exclude_hexa_skill[1]")
    loop = body[2]
    if not (isinstance(loop, ast.For) and not loop.orelse and _dump(loop.iter) == _dump(ast.parse("hexa_replacements.items()").body[0].value)
            and isinstance(loop.target, ast.Tuple) and len(loop.target.elts) == 2 and all(isinstance(e, ast.Name) for e in loop.target.elts)):
        raise Rejected("_exclude_hexa_skill[2]: unrecognised loop header")
    kvar, vvar = [e.id for e in loop.target.elts]
    role = {kvar: "low", vvar: "high"}        # key = lower tier, value = its 6th-job replacement (SkillProfile.hexa_mastery)
    asserted = []
    stmts = list(loop.body)
    while stmts and isinstance(stmts[0], ast.Assert):
        a = stmts.pop(0).test
        if not (isinstance(a, ast.Compare) and len(a.ops) == 1 and isinstance(a.ops[0], ast.In) and isinstance(a.left, ast.Name)
                and a.left.id in role and isinstance(a.comparators[0], ast.Name) and a.comparators[0].id == "_component_names"):
            raise Rejected("_exclude_hexa_skill: unrecognised assertion `%s`" % ast.unparse(a))
        asserted.append(role[a.left.id])
    if len(stmts) != 1 or not isinstance(stmts[0], ast.If) or stmts[0].orelse or len(stmts[0].body) != 1:
        raise Rejected("_exclude_hexa_skill: unrecognised loop body")
    test, act = stmts[0].test, stmts[0].body[0]
    if not (isinstance(test, ast.Compare) and len(test.ops) == 1 and isinstance(test.comparators[0], ast.Constant)
            and type(test.comparators[0].value) is int and isinstance(test.left, ast.Call)
            and _dump(test.left.func) == _dump(ast.parse("skill_levels.get").body[0].value) and len(test.left.args) == 2
            and isinstance(test.left.args[0], ast.Name) and test.left.args[0].id in role
            and isinstance(test.left.args[1], ast.Constant) and type(test.left.args[1].value) is int):
        raise Rejected("_exclude_hexa_skill: unrecognised test `%s`" % ast.unparse(test))
    cmp_ = {ast.Gt: "CGt", ast.GtE: "CGe", ast.Lt: "CLt", ast.LtE: "CLe", ast.Eq: "CEq", ast.NotEq: "CNe"}.get(type(test.ops[0]))
    if cmp_ is None:
        raise Rejected("_exclude_hexa_skill: unsupported comparison `%s`" % ast.unparse(test))
    if not (isinstance(act, ast.Expr) and isinstance(act.value, ast.Call)
            and _dump(act.value.func) == _dump(ast.parse("components_to_exclude.append").body[0].value)
            and len(act.value.args) == 1 and isinstance(act.value.args[0], ast.Name) and act.value.args[0].id in role):
        raise Rejected("_exclude_hexa_skill: unrecognised action `%s`" % ast.unparse(act))
    _expect(body[3], "components = [component for component in components if component.name not in components_to_exclude]",
            "_exclude_hexa_skill[3]")
    _expect(body[4], "return components", "_exclude_hexa_skill[4]")
    return {"lookup": role[test.left.args[0].id], "cmp": cmp_, "const": test.comparators[0].value,
            "default": test.left.args[1].value, "drop": role[act.value.args[0].id], "asserted": asserted}


def read_build_skills(repo):
    """patch class names handed to the loader for each kind, and the reference variable names."""
    mod = _src(repo, BUILTIN_PY)
    fn = _find_func(mod.body, "build_skills", BUILTIN_PY)
    chains = {}
    for n in ast.walk(fn):
        if isinstance(n, ast.Call) and isinstance(n.func, ast.Attribute) and n.func.attr == "load_all":
            kw = {k.arg: k.value for k in n.keywords}
            if set(kw) - {"query", "patches"} or "query" not in kw:
                raise Rejected("build_skills: load_all with unexpected arguments `%s`" % ast.unparse(n)[:120])
            q = kw["query"]
            if not (isinstance(q, ast.Dict) and len(q.keys) == 2 and [getattr(k, "value", None) for k in q.keys] == ["group", "kind"]
                    and isinstance(q.values[1], ast.Constant)):
                raise Rejected("build_skills: unrecognised query `%s`" % ast.unparse(q))
            kind = q.values[1].value
            names = []
            if "patches" in kw:
                if not isinstance(kw["patches"], ast.List):
                    raise Rejected("build_skills: patches of kind %s is not a list literal" % kind)
                for e in kw["patches"].elts:
                    if not (isinstance(e, ast.Call) and isinstance(e.func, ast.Name)):
                        raise Rejected("build_skills: patch `%s` is not a constructor call" % ast.unparse(e)[:80])
                    names.append(e.func.id)
            if kind in chains and chains[kind] != names:
                raise Rejected("build_skills: two different patch lists for kind %s" % kind)
            chains[kind] = names
    for k in ("Component", "SkillImprovement", "PassiveHyperskill"):
        if k not in chains:
            raise Rejected("build_skills: no load_all for kind %s" % k)
    # the tail: concatenate the groups in order, then filter
    tail = _strip_doc(fn.body)[-3:]
    _expect(tail[0], "components: list[Component] = sum(component_sets, [])", "build_skills: concatenation")
    _expect(tail[1], "components = _exclude_hexa_skill(components, hexa_replacements, skill_levels)", "build_skills: filter call")
    _expect(tail[2], "return components", "build_skills: return")
    rv = _find_func(mod.body, "_as_reference_variables", BUILTIN_PY)
    keys, stat_prefix = [], None
    for n in ast.walk(rv):
        if isinstance(n, ast.Assign) and isinstance(n.value, ast.Dict) and isinstance(n.targets[0], ast.Name) and n.targets[0].id == "reference":
            for k in n.value.keys:
                if not (isinstance(k, ast.Constant) and isinstance(k.value, str)):
                    raise Rejected("_as_reference_variables: non-literal key")
                keys.append(k.value)
        if isinstance(n, ast.JoinedStr):
            parts = n.values
            if (len(parts) == 2 and isinstance(parts[0], ast.Constant) and isinstance(parts[1], ast.FormattedValue)
                    and isinstance(parts[1].value, ast.Name)):
                stat_prefix = parts[0].value
            else:
                raise Rejected("_as_reference_variables: unrecognised f-string `%s`" % ast.unparse(n))
    if not keys or stat_prefix is None:
        raise Rejected("_as_reference_variables: reference dictionary not found")
    return chains, keys, stat_prefix


# =========================================================================================== YAML
def load_docs(repo):
    base = Path(repo) / RES
    if not base.is_dir():
        raise Rejected("resource directory %s missing" % base)
    docs = []
    for path in sorted(base.rglob("*.yaml")):    # a fixed order (the harness matches documents to the repository's by content, not position)
        rel = str(path.relative_to(base))
        try:
            with open(path, "r", encoding="utf-8") as f:
                raws = list(yaml.safe_load_all(f))
        except yaml.YAMLError as e:
            raise Rejected("%s: YAML error %s" % (rel, str(e)[:200]))
        for i, d in enumerate(raws):
            where = "%s#%d" % (rel, i)
            if not isinstance(d, dict) or set(d) - {"kind", "version", "metadata", "data", "patch", "ignore_overflowing_patch"} \
                    or not {"kind", "version", "metadata", "data"} <= set(d):
                raise Rejected("%s: not a specification document (keys %r)" % (where, sorted(d) if isinstance(d, dict) else d))
            if d.get("ignore_overflowing_patch", True) is not True:
                raise Rejected("%s: ignore_overflowing_patch is not true" % where)
            if d["kind"] not in KINDS:
                raise Rejected("%s: unknown kind %r" % (where, d["kind"]))
            label = (d["metadata"] or {}).get("label") or {}
            if not isinstance(label.get("group"), str):
                raise Rejected("%s: no group label" % where)
            if not isinstance(d["data"], dict):
                raise Rejected("%s: data is not a mapping" % where)
            patch = d.get("patch")
            if patch is not None and (not isinstance(patch, list) or any(p not in PATCH_NAMES for p in patch)):
                raise Rejected("%s: unknown patch list %r" % (where, patch))
            v = d["version"]
            if not (isinstance(v, str) and v.count("/") == 1):
                raise Rejected("%s: version %r" % (where, v))
            docs.append({"file": rel, "index": i, "where": where, "kind": d["kind"], "cls": v.split("/")[1],
                         "group": label["group"], "patch": patch, "data": d["data"]})
    if not docs:
        raise Rejected("no specification found under %s" % base)
    return docs


def subsequence(small, big) -> bool:
    it = iter(big)
    return all(any(x == y for y in it) for x in small)


def gen(repo):
    stat_fields = read_stat_fields(repo)
    sl = read_skill_level_patch(repo)
    rep = sl["representation"]
    hexa_rows = read_hexa_table(repo)
    vimp = read_v_improvement(repo)
    excl = read_exclude(repo)
    chains, ref_keys, stat_prefix = read_build_skills(repo)
    for kind, want in (("Component", PATCH_NAMES), ("SkillImprovement", PATCH_NAMES[:2]), ("PassiveHyperskill", [])):
        if chains[kind] != want:
            raise Rejected("build_skills: patch list of kind %s is %r, expected %r" % (kind, chains[kind], want))
    ref_vars = set(ref_keys) | {stat_prefix + f for f in stat_fields}
    allowed = {"Component": ref_vars, "SkillImprovement": ref_vars,
               "PassiveSkill": {"character_level", "weapon_pure_attack_power"}, "DamageLogic": set()}
    MATCH = re.compile(r"^\s*{{(.+)}}\s*$")
    docs = load_docs(repo)

    # ---------------------------------------------------------------- profiles
    profiles = []
    for d in docs:
        if d["kind"] != "SkillProfile":
            continue
        p = d["data"]
        if set(p) - {"v_skill_names", "v_improvement_names", "hexa_improvement_names", "component_groups", "hexa_skill_names", "hexa_mastery"}:
            raise Rejected("%s: unknown SkillProfile fields %r" % (d["where"], sorted(p)))

        def names(key, default=None):
            v = p.get(key, default)
            if not isinstance(v, list) or not all(isinstance(x, str) for x in v):
                raise Rejected("%s: %s is not a list of strings" % (d["where"], key))
            return v
        mastery = p.get("hexa_mastery", {})
        if not isinstance(mastery, dict) or not all(isinstance(k, str) and isinstance(v, str) for k, v in mastery.items()):
            raise Rejected("%s: hexa_mastery is not a string map" % d["where"])
        profiles.append({"job": d["group"], "groups": names("component_groups"), "v_skills": names("v_skill_names"),
                         "hexa_skills": names("hexa_skill_names", []), "mastery": list(mastery.items()),
                         "v_improvements": names("v_improvement_names"), "hexa_improvements": names("hexa_improvement_names")})
    if len({p["job"] for p in profiles}) != len(profiles) or not profiles:
        raise Rejected("SkillProfile groups are not unique")
    profiles.sort(key=lambda p: p["job"])
    for p in profiles:
        # skill_levels of the providers: v names, then hexa names, then mastery values (dict.update order)
        p["mapped"] = list(dict.fromkeys(p["v_skills"] + p["hexa_skills"] + [v for _k, v in p["mastery"]]))

    # ---------------------------------------------------------------- specs with formulas / level inputs
    specs, formulas = [], []
    hyper, improvements = [], []

    def walk(node, path, spec, in_list=False):
        if isinstance(node, dict):
            if "exclude" in node:
                raise Rejected("%s: an `exclude` list (DFSTraversePatch) at %s is not modelled" % (spec["where"], ".".join(path)))
            for k, v in node.items():
                if not isinstance(k, (str, int)) or isinstance(k, bool):
                    raise Rejected("%s: key %r" % (spec["where"], k))
                if isinstance(k, str) and ("{{" in k or "}}" in k):       # keys are never substituted (patch_dict translates v only)
                    raise Rejected("%s: key %r would be interpreted" % (spec["where"], k))
                walk(v, path + [str(k)], spec)
        elif isinstance(node, list):
            for i, v in enumerate(node):
                walk(v, path + [str(i)], spec, in_list=True)
        elif isinstance(node, str):
            m = MATCH.search(node)
            if m and "\n" not in node:
                add_formula(spec, path, m.group(1), node)
            elif "{{" in node or "}}" in node or rep in node:
                raise Rejected("%s: string %r at %s looks like a formula but is not one" % (spec["where"], node, ".".join(path)))
        elif node is None:
            if in_list:
                raise Rejected("%s: null list element at %s" % (spec["where"], ".".join(path)))
        elif not isinstance(node, (int, float, bool)):
            raise Rejected("%s: value of type %s at %s" % (spec["where"], type(node).__name__, ".".join(path)))

    def add_formula(spec, path, inner, raw):
        where = "%s:%s" % (spec["where"], ".".join(path))
        if spec["kind"] not in FORMULA_KINDS:
            raise Rejected("%s: formula in a specification of kind %s" % (where, spec["kind"]))
        patch = spec["patch"] or []
        if "ArithmeticPatch" not in patch:
            raise Rejected("%s: formula but no ArithmeticPatch in the patch list" % where)
        toks = lex(inner, where)
        tree = parse_tokens(toks, where)
        vs = tree_vars(tree)
        for v in vs:
            if rep in v and v != rep:
                raise Rejected("%s: variable %r contains the substituted text %r" % (where, v, rep))
            if v == rep:
                if "SkillLevelPatch" not in patch or patch.index("SkillLevelPatch") > patch.index("ArithmeticPatch"):
                    raise Rejected("%s: %s without a preceding SkillLevelPatch" % (where, rep))
            elif v not in allowed[spec["kind"]]:
                raise Rejected("%s: variable %r is not provided to specifications of kind %s" % (where, v, spec["kind"]))
        formulas.append({"id": len(formulas), "spec": spec["sid"], "file": spec["file"], "kind": spec["kind"], "group": spec["group"],
                         "skill": spec["name"] or "", "path": path, "text": inner, "raw": raw, "toks": toks, "tree": tree, "vars": vs})

    for d in docs:
        data = d["data"]
        name = data.get("name")
        if name is not None and not isinstance(name, str):
            raise Rejected("%s: name %r is not a string" % (d["where"], name))
        if d["kind"] in ("Component", "SkillImprovement", "PassiveSkill") and not name:
            raise Rejected("%s: %s without a name" % (d["where"], d["kind"]))
        spec = dict(d)
        spec["sid"] = len(specs)
        spec["name"] = name
        dsl = data.get("default_skill_level")
        if dsl is not None and (type(dsl) is not int or dsl < 0):
            raise Rejected("%s: default_skill_level %r" % (d["where"], dsl))
        for flag in ("passive_skill_enabled", "combat_orders_enabled"):
            if data.get(flag, False) not in (True, False):
                raise Rejected("%s: %s is %r" % (d["where"], flag, data.get(flag)))
        spec["default"] = dsl
        spec["passive_on"] = bool(data.get("passive_skill_enabled", False))
        spec["co_on"] = bool(data.get("combat_orders_enabled", False))
        spec["repr_name"] = data.get("representative_name", name)
        if "representative_name" in data and not isinstance(data["representative_name"], str):
            raise Rejected("%s: representative_name is not a string" % d["where"])
        specs.append(spec)
        if d["kind"] in FORMULA_KINDS:
            walk(data, [], spec)
        elif d["kind"] in ("PassiveHyperskill", "SkillProfile", "BuiltinStrategy"):
            if d["patch"]:
                raise Rejected("%s: %s with patches" % (d["where"], d["kind"]))
            if "{{" in yaml.safe_dump(data, allow_unicode=True):
                raise Rejected("%s: formula in a specification of kind %s" % (d["where"], d["kind"]))
        if d["kind"] == "Component":
            patch = d["patch"] or []
            if not subsequence(patch, chains["Component"]):
                raise Rejected("%s: patch list %r is not a subsequence of build_skills' %r" % (d["where"], patch, chains["Component"]))
            if "VSkillImprovementPatch" in patch and "v_improvement" not in data:
                raise Rejected("%s: VSkillImprovementPatch without a v_improvement key (KeyError at build)" % d["where"])
            if "v_improvement" in data and (type(data["v_improvement"]) not in (int, float) or data["v_improvement"] < 0):
                raise Rejected("%s: v_improvement %r" % (d["where"], data["v_improvement"]))
            if "modifier" in data and not (isinstance(data["modifier"], dict) and set(data["modifier"]) <= set(stat_fields)):
                raise Rejected("%s: modifier is not a Stat block" % d["where"])
        if d["kind"] == "SkillImprovement":
            if d["cls"] != "SkillAdditiveImprovement" or not subsequence(d["patch"] or [], chains["SkillImprovement"]):
                raise Rejected("%s: unknown SkillImprovement class / patch list" % d["where"])
            adv = data.get("advantages")
            if set(data) != {"name", "advantages"} or not isinstance(adv, list):
                raise Rejected("%s: SkillAdditiveImprovement fields %r" % (d["where"], sorted(data)))
            rows = []
            for i, a in enumerate(adv):
                if not (isinstance(a, dict) and set(a) == {"target_name", "target_field", "value"} and isinstance(a["target_name"], str)
                        and isinstance(a["target_field"], str) and (type(a["value"]) is int or isinstance(a["value"], str))):
                    raise Rejected("%s: advantage %d: %r" % (d["where"], i, a))
                rows.append({"target_name": a["target_name"], "target_field": a["target_field"],
                             "const": a["value"] if type(a["value"]) is int else None, "path": ["advantages", str(i), "value"]})
            improvements.append({"spec": spec["sid"], "name": name, "group": d["group"], "rows": rows})
        if d["kind"] == "PassiveHyperskill":
            if set(data) - {"name", "target", "key", "increment", "multiplier"} or not isinstance(data.get("target"), str) \
                    or not isinstance(data.get("key"), str):
                raise Rejected("%s: PassiveHyperskill fields %r" % (d["where"], sorted(data)))
            if d["cls"] == "ValueIncreasePassiveHyperskill" and type(data.get("increment")) in (int, float):
                op = ("add", Fraction(Decimal(repr(data["increment"]))))
            elif d["cls"] == "MultiplierPassiveHyperskill" and type(data.get("multiplier")) in (int, float):
                op = ("mul", Fraction(Decimal(repr(data["multiplier"]))))
            elif d["cls"] == "StatIncreasePassiveHyperskill" and isinstance(data.get("increment"), dict) \
                    and set(data["increment"]) <= set(stat_fields) and all(type(v) in (int, float) for v in data["increment"].values()):
                op = ("stat", [(k, Fraction(Decimal(repr(v)))) for k, v in data["increment"].items()])
            else:
                raise Rejected("%s: unknown PassiveHyperskill class %s / fields" % (d["where"], d["cls"]))
            hyper.append({"group": d["group"], "file": d["file"], "target": data["target"], "key": data["key"], "op": op, "name": data.get("name", "")})

    # link formulas of improvement values to their rows; classify
    by_spec_path = {(f["spec"], tuple(f["path"])): f for f in formulas}
    for imp in improvements:
        for r in imp["rows"]:
            f = by_spec_path.get((imp["spec"], tuple(r["path"])))
            r["fid"] = f["id"] if f else None
            if f is None and r["const"] is None:
                raise Rejected("improvement %s: value is neither an integer nor a formula" % imp["name"])
    imp_target_field = {}
    for imp in improvements:
        for r in imp["rows"]:
            if r["fid"] is not None:
                imp_target_field[r["fid"]] = r["target_field"]

    # ---------------------------------------------------------------- level class and range of every spec
    users = {}                      # spec id -> list of (job, mapped?)
    for p in profiles:
        for s in specs:
            if s["group"] in p["groups"] and s["kind"] in ("Component", "SkillImprovement"):
                users.setdefault(s["sid"], []).append((p["job"], s["name"] in p["mapped"]))
    for s in specs:
        us = users.get(s["sid"], [])
        bases = set()
        for _job, mapped in us:
            bases |= {0, MAX_SKILL_LEVEL} if mapped else {s["default"] or 0}
        if not us:
            bases = {s["default"] or 0}
        s["mapped"] = any(m for _j, m in us)
        s["lo"] = min(bases)
        s["hi"] = max(bases) + (MAX_OFFSET if s["passive_on"] else 0) + (MAX_OFFSET if s["co_on"] else 0)
        s["users"] = us
    for f in formulas:
        s = specs[f["spec"]]
        f["lo"], f["hi"] = s["lo"], s["hi"]
        if f["kind"] in ("Component", "PassiveSkill"):       # PassiveSkill: the stat block get_passive adds to the character
            f["damage"] = is_damage_path(f["path"], stat_fields)
        elif f["kind"] == "SkillImprovement":
            f["damage"] = f["id"] in imp_target_field and is_damage_path([imp_target_field[f["id"]]], stat_fields)
        else:
            f["damage"] = False

    # ---------------------------------------------------------------- per job: component lists, figures, stat blocks
    comp_specs = [s for s in specs if s["kind"] == "Component"]
    figures, sblocks = [], []
    for p in profiles:
        names, comps = [], []
        for g in p["groups"]:
            for s in comp_specs:
                if s["group"] == g:
                    names.append(s["name"])
                    comps.append(s)
        p["components"] = names
        for low, high in p["mastery"]:
            if low not in names or high not in names:
                raise Rejected("profile %s: replacement %s -> %s names a skill that is not among the job's components" % (p["job"], low, high))
        job_imps = [i for g in p["groups"] for i in improvements if i["group"] == g]
        for s in comps:
            patch = s["patch"] or []
            data = s["data"]
            posts = {}               # top-level key -> list of post operations
            stat_incs = {}           # top-level key -> list of Stat increments (PassiveHyperskill)
            if "PassiveHyperskillPatch" in patch:
                for h in hyper:
                    if h["group"] == s["group"] and h["target"] == s["repr_name"]:
                        if h["key"] not in data and h["op"][0] != "stat":
                            raise Rejected("hyper skill %s modifies missing key %s of %s" % (h["name"], h["key"], s["name"]))
                        if h["op"][0] == "stat":
                            if h["key"] in data and not isinstance(data[h["key"]], dict):
                                raise Rejected("hyper skill %s: %s of %s is not a stat block" % (h["name"], h["key"], s["name"]))
                            stat_incs.setdefault(h["key"], []).append(h["op"][1])
                        else:
                            posts.setdefault(h["key"], []).append(h["op"])
            if "SkillImprovementPatch" in patch:
                for imp in job_imps:
                    for r in imp["rows"]:
                        if r["target_name"] in s["name"]:          # substring test, as SkillAdditiveImprovement does
                            if r["target_field"] not in data:
                                raise Rejected("improvement %s: field %s missing in %s" % (imp["name"], r["target_field"], s["name"]))
                            posts.setdefault(r["target_field"], []).append(("addf", r["fid"]) if r["fid"] is not None else ("add", Fraction(r["const"])))
            # scalar figures: every formula-valued leaf, and every constant top-level field touched by a post operation
            seen = set()
            for f in formulas:
                if f["spec"] != s["sid"]:
                    continue
                top = f["path"][0]
                if top in ("modifier",) or top in stat_incs:
                    continue                       # part of a stat block (below)
                ops = posts.get(top, []) if len(f["path"]) == 1 else []
                if len(f["path"]) > 1 and top in posts:
                    raise Rejected("%s: post operation on the container field %s" % (s["where"], top))
                seen.add(top)
                figures.append({"id": len(figures), "job": p["job"], "skill": s["name"], "path": f["path"], "base": ("f", f["id"]),
                                "post": ops, "damage": f["damage"], "spec": s["sid"]})
            for top, ops in posts.items():
                if top in seen:
                    continue
                v = data[top]
                if type(v) not in (int, float):
                    raise Rejected("%s: post operation on non-numeric field %s = %r" % (s["where"], top, v))
                figures.append({"id": len(figures), "job": p["job"], "skill": s["name"], "path": [top],
                                "base": ("c", Fraction(Decimal(repr(v)))), "post": ops,
                                "damage": is_damage_path([top], stat_fields), "spec": s["sid"]})
            # stat blocks: modifier (V / hexa improvement / hyper skills) and any block a hyper skill adds to
            keys = set(stat_incs)
            if "VSkillImprovementPatch" in patch or "HexaSkillImprovementPatch" in patch or "modifier" in data:
                keys.add("modifier")
            for key in sorted(keys):
                base = []
                blk = data.get(key) or {}
                if not isinstance(blk, dict) or not set(blk) <= set(stat_fields):
                    raise Rejected("%s: %s is not a Stat block" % (s["where"], key))
                for fld, v in blk.items():
                    f = by_spec_path.get((s["sid"], (key, fld)))
                    if f is not None:
                        base.append((fld, ("f", f["id"])))
                    elif type(v) in (int, float):
                        base.append((fld, ("c", Fraction(Decimal(repr(v))))))
                    else:
                        raise Rejected("%s: %s.%s = %r" % (s["where"], key, fld, v))
                steps = []
                if key == "modifier" and "VSkillImprovementPatch" in patch:
                    steps.append(("v", Fraction(Decimal(repr(data["v_improvement"]))), s["repr_name"] in p["v_improvements"]))
                if key == "modifier" and "HexaSkillImprovementPatch" in patch:
                    steps.append(("h", s["repr_name"] in p["hexa_improvements"]))
                for inc in stat_incs.get(key, []):
                    steps.append(("s", inc))
                sblocks.append({"id": len(sblocks), "job": p["job"], "skill": s["name"], "key": key, "base": base, "steps": steps,
                                "spec": s["sid"], "touched": bool(steps)})

    # ---------------------------------------------------------------- emit Formulas.v
    F = ["(* GENERATED by tools/tr_yaml.py from %s/**/*.yaml, %s, %s, %s -- do not edit. *)" % (RES, PATCH_PY, BUILTIN_PY, BASE_PY),
         "From Coq Require Import QArith ZArith List String Bool.",
         "From V.Model Require Import Expr ExprParse Levels.",
         "From G Require Import CoreQ.",
         "Import ListNotations.", "Open Scope string_scope.", "",
         "(* SkillLevelPatch.skill_level_representation: substituted TEXTUALLY (str.replace) before the expression is parsed *)",
         "Definition level_var : string := %s." % cstr(rep), "",
         "(* SkillLevelPatch.get_skill_level, statement by statement.  named = bool(origin.get('name')); in_map = the entry of",
         "   origin['name'] in default_skill_levels; spec_default = origin's default_skill_level; the two *_on flags are the spec's",
         "   passive_skill_enabled / combat_orders_enabled (default False) *)",
         coq_skill_level(sl), "",
         "(* HexaSkillImprovementPatch._compute_final_damage_multiplier: None = ValueError *)",
         coq_hexa(hexa_rows), "",
         "(* VSkillImprovementPatch.apply: Stat(final_damage_multiplier = improvement_scale * level) and the ignored_defence bonus *)",
         "Definition gen_v_fdm (scale : Q) (level : Z) : Q := scale * inject_Z level.",
         "Definition gen_v_ied (level : Z) : Q := if (%s %s level)%%Z then %s else 0." % (
             zlit(vimp["threshold"]), "<?" if vimp["strict"] else "<=?", qlit(Fraction(Decimal(repr(vimp["bonus"]))))), "",
         "(* _exclude_hexa_skill: for every (low, high) of the replacement map, if skill_levels.get(<lookup>, default) <cmp> const",
         "   then <drop> is removed *)",
         "Definition gen_excl : excl_cfg := mkExcl %s %s %s %s %s." % (
             "THigh" if excl["lookup"] == "high" else "TLow", excl["cmp"], zlit(excl["const"]), zlit(excl["default"]),
             "THigh" if excl["drop"] == "high" else "TLow"), "",
         "(* simaple.core.Stat from a sparse field list (field order of the class) *)",
         "Definition stat_of (l : list (string * Q)) : Stat :=\n  mkStat %s." % " ".join("(sget %s l)" % cstr(f) for f in stat_fields),
         "Definition stat_field_names : list string := %s." % clist([cstr(f) for f in stat_fields]), ""]
    for f in formulas:
        F.append("(* %s  %s  %s :  %s *)" % (f["file"], f["skill"].replace("*)", "* )").replace("(*", "( *"), ".".join(f["path"]),
                                            f["text"].strip().replace("*)", "* )").replace("(*", "( *")))
        F.append("Definition e%d : expr := %s." % (f["id"], coq_expr(f["tree"])))
        F.append("Definition t%d : list tok := %s." % (f["id"], clist([coq_tok(t) for t in f["toks"]])))
    F.append("")
    rows = []
    for f in formulas:
        s = specs[f["spec"]]
        rows.append("  mkF %d %s %s %s %s %s e%d t%d %s %s %s %s %s %s %s %s %s" % (
            f["id"], cstr(f["file"]), cstr(f["kind"]), cstr(f["group"]), cstr(f["skill"]), clist([cstr(x) for x in f["path"]]),
            f["id"], f["id"], clist([cstr(v) for v in f["vars"]]),
            cbool(bool(s["name"])), copt(s["default"], zlit), cbool(s["passive_on"]), cbool(s["co_on"]), cbool(s["mapped"]),
            zlit(f["lo"]), zlit(f["hi"]), cbool(f["damage"])))
    F.append("Definition formulas : list formula := [\n" + ";\n".join(rows) + "\n].")
    F.append("")

    def coq_base(b):
        return "BF %d" % b[1] if b[0] == "f" else "BC %s" % qlit(b[1])

    def coq_post(o):
        if o[0] == "add":
            return "PAdd %s" % qlit(o[1])
        if o[0] == "mul":
            return "PMul %s" % qlit(o[1])
        return "PAddF %d" % o[1]
    rows = ["  mkFig %d %s %s %s (%s) %s %s" % (g["id"], cstr(g["job"]), cstr(g["skill"]), clist([cstr(x) for x in g["path"]]),
                                               coq_base(g["base"]), clist([coq_post(o) for o in g["post"]]), cbool(g["damage"]))
            for g in figures]
    F.append("Definition figures : list figure := [\n" + ";\n".join(rows) + "\n].")
    F.append("")

    def coq_step(st):
        if st[0] == "v":
            return "SV %s %s" % (qlit(st[1]), cbool(st[2]))
        if st[0] == "h":
            return "SH %s" % cbool(st[1])
        return "SS %s" % clist(["(%s, %s)" % (cstr(k), qlit(v)) for k, v in st[1]])
    rows = ["  mkBlk %d %s %s %s %s %s" % (b["id"], cstr(b["job"]), cstr(b["skill"]), cstr(b["key"]),
                                          clist(["(%s, %s)" % (cstr(k), coq_base(v)) for k, v in b["base"]]),
                                          clist([coq_step(st) for st in b["steps"]])) for b in sblocks]
    F.append("Definition sblocks : list sblock := [\n" + ";\n".join(rows) + "\n].")
    F.append("")

    # ---------------------------------------------------------------- emit Profiles.v
    P = ["(* GENERATED by tools/tr_yaml.py from the SkillProfile and Component specifications -- do not edit. *)",
         "From Coq Require Import List String.", "From V.Model Require Import Levels.",
         "Import ListNotations.", "Open Scope string_scope.", ""]
    for p in profiles:
        P.append("Definition profile_%s : profile := mkProfile %s\n  %s\n  %s\n  %s\n  %s\n  %s\n  %s\n  %s." % (
            re.sub(r"[^a-zA-Z0-9_]", "_", p["job"]), cstr(p["job"]), clist([cstr(x) for x in p["groups"]]),
            clist([cstr(x) for x in p["components"]]), clist([cstr(x) for x in p["v_skills"]]),
            clist([cstr(x) for x in p["hexa_skills"]]), clist(["(%s, %s)" % (cstr(k), cstr(v)) for k, v in p["mastery"]]),
            clist([cstr(x) for x in p["v_improvements"]]), clist([cstr(x) for x in p["hexa_improvements"]])))
    P.append("")
    P.append("Definition profiles : list profile := %s." % clist(["profile_%s" % re.sub(r"[^a-zA-Z0-9_]", "_", p["job"]) for p in profiles]))
    P.append("")

    meta = {"files": sorted({d["file"] for d in docs}), "documents": len(docs), "formulas": formulas, "specs": specs,
            "profiles": profiles, "figures": figures, "sblocks": sblocks, "improvements": improvements, "hyper": hyper,
            "stat_fields": stat_fields, "skill_level": sl, "hexa_rows": [(c, r) for _a, _b, c, r in hexa_rows], "v_improvement": vimp,
            "exclude": excl, "chains": chains, "reference_variables": sorted(ref_keys), "stat_prefix": stat_prefix,
            "ranges": {"skill": MAX_SKILL_LEVEL, "offset": MAX_OFFSET, "v_improvement": MAX_V_IMPROVEMENT, "hexa_improvement": MAX_HEXA_IMPROVEMENT}}
    return {"Formulas.v": "\n".join(F) + "\n", "Profiles.v": "\n".join(P) + "\n"}, meta


if __name__ == "__main__":
    import sys
    files, meta = gen(sys.argv[1] if len(sys.argv) > 1 else "/repo")
    for n, t in files.items():
        print(n, len(t))
    print("formulas", len(meta["formulas"]), "damage", sum(1 for f in meta["formulas"] if f["damage"]),
          "figures", len(meta["figures"]), "stat blocks", len(meta["sblocks"]))
