"""T-wrapper: fail-closed translator  Python `ast` -> Gallina  for the event plumbing of the component dispatcher and the address rules
of the store:

    simaple/simulate/component/base.py  ReducerMethodWrappingDispatcher.regularize_returned_event, tag_events_by_method_name
    simaple/simulate/base.py            message_signature, AddressedStore._resolve_address, AddressedStore.local

-> gen/WrapperSrc.v.  Proofs/WrapperTie.v proves the generated functions equal to `regularize`, `tag_events`, `msig`, `resolve`,
`local_addr` of Model/Dispatch.v - the definitions behind "a rejected action is reported alone" (C07), the views (C10) and the
dispatch-level theorems of C05 / C06.

Accepted (anything else raises Rejected):
  regularize_returned_event   a chain of `if <test on maybe_events>: return <value>` ending in `return maybe_events`, tests
                              `maybe_events is None` and `not isinstance(maybe_events, list)`, values `[]`, `[maybe_events]`
  tag_events_by_method_name   tagged = []; for event in events: tagged_event = {five keys}; tagged.append(tagged_event)
                              if all(event["tag"] not in (Tag.REJECT, Tag.ACCEPT) for event in events): return tagged + [{accept event}]
                              return tagged
                              dictionary values:  event["k"] | method_name | event["tag"] or method_name | event.get("handler", None)
                                                  | self._name | Tag.ACCEPT | {} | None
  message_signature           if len(message["method"]) == 0: return message["name"];  return f"{message['name']}.{message['method']}"
  _resolve_address            if len(name.split(".")) == 1: return f"{self._current_address}.{name}";  return name
  local                       return AddressedStore(self._concrete_store, f"{self._current_address}.{address}")
"""
from __future__ import annotations

import ast
import os

COMP = "simaple/simulate/component/base.py"
BASE = "simaple/simulate/base.py"
FIELD = {"name": "ev_name", "payload": "ev_pay", "method": "ev_method", "tag": "ev_tag", "handler": "ev_handler"}


class Rejected(Exception):
    pass


def bad(node, why):
    raise Rejected("%s (line %s): %s" % (why, getattr(node, "lineno", "?"), ast.dump(node)[:160]))


def body_of(fn):
    return [s for s in fn.body if not (isinstance(s, ast.Expr) and isinstance(s.value, ast.Constant) and isinstance(s.value.value, str))]


def find(tree, cls, name):
    body = tree.body
    if cls:
        cs = [n for n in body if isinstance(n, ast.ClassDef) and n.name == cls]
        if not cs:
            raise Rejected("class %s not found" % cls)
        body = cs[0].body
    fs = [n for n in body if isinstance(n, ast.FunctionDef) and n.name == name]
    if len(fs) != 1:
        raise Rejected("%s: %d definitions" % (name, len(fs)))
    return fs[0]


def sub(e, var, key):
    return isinstance(e, ast.Subscript) and isinstance(e.value, ast.Name) and e.value.id == var and isinstance(e.slice, ast.Constant) \
        and e.slice.value == key


def tr_regularize(fn):
    if [a.arg for a in fn.args.args] != ["self", "maybe_events"]:
        bad(fn, "regularize_returned_event signature")
    b = body_of(fn)
    out = "m"          # value of the final `return maybe_events` seen as a list: only reached for RList

    def value(e):
        if isinstance(e, ast.List) and not e.elts:
            return "[]"
        if ast.unparse(e) == "[maybe_events]":
            return "ONE"
        bad(e, "regularize: returned value")
    arms = []
    for s in b[:-1]:
        if not (isinstance(s, ast.If) and not s.orelse and len(s.body) == 1 and isinstance(s.body[0], ast.Return)):
            bad(s, "regularize: statement is not `if t: return v`")
        t = ast.unparse(s.test)
        if t == "maybe_events is None":
            arms.append(("none", value(s.body[0].value)))
        elif t == "not isinstance(maybe_events, list)":
            arms.append(("notlist", value(s.body[0].value)))
        else:
            bad(s, "regularize: test")
    if not (isinstance(b[-1], ast.Return) and ast.unparse(b[-1].value) == "maybe_events"):
        bad(b[-1], "regularize: does not end with `return maybe_events`")
    # evaluate the chain symbolically for the three shapes of the argument
    def result(shape):
        for kind, v in arms:
            if (kind == "none" and shape == "RNone") or (kind == "notlist" and shape in ("RNone", "ROne")):
                if v == "ONE":
                    if shape == "RNone":
                        raise Rejected("regularize: None would be wrapped into a one-element list")
                    return "[e]"
                return v
        if shape == "RList":
            return "l"
        raise Rejected("regularize: a non-list value (%s) would be returned as it is" % shape)
    return ("Definition src_regularize (maybe_events : maybe_events Pay) : list (event Pay) :=\n"
            "  match maybe_events with RNone => %s | ROne e => %s | RList l => %s end." % (result("RNone"), result("ROne"), result("RList")))


def tr_tag(fn):
    if [a.arg for a in fn.args.args] != ["self", "method_name", "events"]:
        bad(fn, "tag_events_by_method_name signature")
    b = body_of(fn)
    if len(b) != 4:
        bad(fn, "tag_events_by_method_name has %d statements, expected 4" % len(b))
    s0, s1, s2, s3 = b
    tgt0 = s0.target if isinstance(s0, ast.AnnAssign) else (s0.targets[0] if isinstance(s0, ast.Assign) else None)
    if not (isinstance(tgt0, ast.Name) and isinstance(s0.value, ast.List) and not s0.value.elts):
        bad(s0, "tag: first statement is not `tagged = []`")
    tg = tgt0.id
    if not (isinstance(s1, ast.For) and not s1.orelse and isinstance(s1.target, ast.Name) and ast.unparse(s1.iter) == "events" and len(s1.body) == 2):
        bad(s1, "tag: loop")
    ev = s1.target.id
    a0, a1 = s1.body
    t0 = a0.target if isinstance(a0, ast.AnnAssign) else (a0.targets[0] if isinstance(a0, ast.Assign) else None)
    if not (isinstance(t0, ast.Name) and isinstance(a0.value, ast.Dict) and ast.unparse(a1) == "%s.append(%s)" % (tg, t0.id)):
        bad(s1, "tag: loop body is not `x = {...}; tagged.append(x)`")

    def val(e, var):
        if var and isinstance(e, ast.Subscript) and isinstance(e.value, ast.Name) and e.value.id == var and isinstance(e.slice, ast.Constant) \
                and e.slice.value in FIELD:
            return "(%s %s)" % (FIELD[e.slice.value], var), e.slice.value
        if isinstance(e, ast.Name) and e.id == "method_name":
            return "method_name", "str"
        if var and isinstance(e, ast.BoolOp) and isinstance(e.op, ast.Or) and len(e.values) == 2 and sub(e.values[0], var, "tag") \
                and isinstance(e.values[1], ast.Name) and e.values[1].id == "method_name":
            return "(Some (str_or (ev_tag %s) method_name))" % var, "otag"
        if var and ast.unparse(e) == "%s.get('handler', None)" % var:
            return "(ev_handler %s)" % var, "handler"
        if ast.unparse(e) == "self._name":
            return "self_name", "str"
        if ast.unparse(e) == "Tag.ACCEPT":
            return "(Some ACCEPT)", "otag"
        if isinstance(e, ast.Dict) and not e.keys:
            return "empty_pay", "payload"
        if isinstance(e, ast.Constant) and e.value is None:
            return "None", "handler"
        bad(e, "tag: dictionary value outside the language")

    def record(d, var):
        if not (isinstance(d, ast.Dict) and all(isinstance(k, ast.Constant) for k in d.keys) and sorted(k.value for k in d.keys) == sorted(FIELD)):
            bad(d, "tag: event dictionary keys")
        parts = {}
        for k, v in zip(d.keys, d.values):
            t, ty = val(v, var)
            want = {"name": ("name", "str"), "payload": ("payload",), "method": ("method", "str"), "tag": ("otag",), "handler": ("handler",)}[k.value]
            if ty not in want:
                bad(v, "tag: value of key %r has the wrong kind (%s)" % (k.value, ty))
            if k.value == "tag" and ty != "otag":
                bad(v, "tag: tag value")
            parts[k.value] = t
        return "{| ev_name := %s; ev_pay := %s; ev_method := %s; ev_tag := %s; ev_handler := %s |}" % (
            parts["name"], parts["payload"], parts["method"], parts["tag"], parts["handler"])
    tagged = record(a0.value, ev)
    # if all(event["tag"] not in (Tag.REJECT, Tag.ACCEPT) for event in events): return tagged + [accept]
    if not (isinstance(s2, ast.If) and not s2.orelse and len(s2.body) == 1 and isinstance(s2.body[0], ast.Return)
            and isinstance(s2.test, ast.Call) and ast.unparse(s2.test.func) == "all" and len(s2.test.args) == 1
            and isinstance(s2.test.args[0], ast.GeneratorExp) and len(s2.test.args[0].generators) == 1):
        bad(s2, "tag: completion test")
    g = s2.test.args[0]
    gv = g.generators[0].target.id if isinstance(g.generators[0].target, ast.Name) else None
    if not (gv and ast.unparse(g.generators[0].iter) == "events" and not g.generators[0].ifs
            and ast.unparse(g.elt) == "%s['tag'] not in (Tag.REJECT, Tag.ACCEPT)" % gv):
        bad(s2, "tag: completion test is not `all(e['tag'] not in (Tag.REJECT, Tag.ACCEPT) for e in events)`")
    r = s2.body[0].value
    if not (isinstance(r, ast.BinOp) and isinstance(r.op, ast.Add) and ast.unparse(r.left) == tg and isinstance(r.right, ast.List)
            and len(r.right.elts) == 1):
        bad(s2, "tag: completion does not return `tagged + [accept event]`")
    accept = record(r.right.elts[0], None)
    if not (isinstance(s3, ast.Return) and ast.unparse(s3.value) == tg):
        bad(s3, "tag: does not end with `return tagged`")
    return ("Definition src_tag_events (self_name method_name : string) (events : list (event Pay)) : list (event Pay) :=\n"
            "  let %s := map (fun %s => %s) events in\n"
            "  if forallb (fun %s => negb (match ev_tag %s with Some t => String.eqb t REJECT || String.eqb t ACCEPT | None => false end)) events\n"
            "  then %s ++ [%s]\n  else %s." % (tg, ev, tagged, gv, gv, tg, accept, tg))


def tr_find_mapping(fn):
    """if target in self.reducer_mappings: return target
       for k in self.reducer_mappings: if k[0] == "<c>" and k.replace("<c>", "") in target: return cast(str, k)
       return None"""
    if [a.arg for a in fn.args.args] != ["self", "target"]:
        bad(fn, "_find_mapping_name signature")
    b = body_of(fn)
    if len(b) != 3:
        bad(fn, "_find_mapping_name has %d statements, expected 3" % len(b))
    s0, s1, s2 = b
    if not (isinstance(s0, ast.If) and not s0.orelse and ast.unparse(s0.test) == "target in self.reducer_mappings" and len(s0.body) == 1
            and isinstance(s0.body[0], ast.Return) and ast.unparse(s0.body[0].value) == "target"):
        bad(s0, "_find_mapping_name: exact match first")
    if not (isinstance(s1, ast.For) and not s1.orelse and isinstance(s1.target, ast.Name) and ast.unparse(s1.iter) == "self.reducer_mappings"
            and len(s1.body) == 1 and isinstance(s1.body[0], ast.If) and not s1.body[0].orelse and len(s1.body[0].body) == 1
            and isinstance(s1.body[0].body[0], ast.Return)):
        bad(s1, "_find_mapping_name: loop")
    k = s1.target.id
    t = s1.body[0].test
    if not (isinstance(t, ast.BoolOp) and isinstance(t.op, ast.And) and len(t.values) == 2):
        bad(t, "_find_mapping_name: loop test is not `a and b`")
    a, c = t.values
    if not (isinstance(a, ast.Compare) and len(a.ops) == 1 and isinstance(a.ops[0], ast.Eq) and ast.unparse(a.left) == k + "[0]"
            and isinstance(a.comparators[0], ast.Constant) and isinstance(a.comparators[0].value, str) and len(a.comparators[0].value) == 1):
        bad(a, "_find_mapping_name: first conjunct is not `k[0] == '<char>'`")
    ch = a.comparators[0].value
    if ast.unparse(c) != "%s.replace(%r, '') in target" % (k, ch):
        bad(c, "_find_mapping_name: second conjunct is not `k.replace('%s', '') in target`" % ch)
    if ch != "$":
        bad(a, "_find_mapping_name: the marker character is %r; the model's remove_dollar removes '$'" % ch)
    r = s1.body[0].body[0].value
    if ast.unparse(r) not in (k, "cast(str, %s)" % k):
        bad(r, "_find_mapping_name: loop returns something else than the key")
    if not (isinstance(s2, ast.Return) and isinstance(s2.value, ast.Constant) and s2.value.value is None):
        bad(s2, "_find_mapping_name: does not end with `return None`")
    return ("(* FRaise: `k[0]` on an empty key raises IndexError *)\n"
            "Fixpoint src_find_marked (keys : list string) (target : string) : fm :=\n"
            "  match keys with\n  | [] => FNone\n  | %(k)s :: rest =>\n"
            "      match %(k)s with\n      | EmptyString => FRaise\n"
            "      | String c _ => if Ascii.eqb c \"%(ch)s\"%%char && substringb (remove_dollar %(k)s) target then FFound %(k)s\n"
            "                      else src_find_marked rest target\n      end\n  end.\n"
            "Definition src_find_mapping_name (keys : list string) (target : string) : fm :=\n"
            "  if existsb (String.eqb target) keys then FFound target else src_find_marked keys target." % dict(k=k, ch=ch))


def tr_store_adapter(comp):
    """StoreAdapter.__init__ (binds + default binds), _get_bound_names, get_state, set_state"""
    ini = find(comp, "StoreAdapter", "__init__")
    same(ini, "self._default_state = default_state\nif binds is None:\n    binds = {}\nbinds.update(GlobalProperty.get_default_binds())\n"
              "self._binds = binds\n", "StoreAdapter.__init__")
    out = ["(* StoreAdapter.__init__: the component's binds, updated with the default binds *)\n"
           "Definition src_adapter_binds (binds : list (string * string)) : list (string * string) := dupdate binds default_binds."]
    fn = find(comp, "StoreAdapter", "_get_bound_names")
    b = body_of(fn)
    if len(b) != 3:
        bad(fn, "_get_bound_names has %d statements, expected 3" % len(b))
    s0, s1, s2 = b
    if not (isinstance(s0, ast.Assign) and isinstance(s0.targets[0], ast.Name) and isinstance(s0.value, ast.DictComp)
            and len(s0.value.generators) == 1 and isinstance(s0.value.generators[0].target, ast.Name)
            and ast.unparse(s0.value.generators[0].iter) == "self._default_state" and not s0.value.generators[0].ifs):
        bad(s0, "_get_bound_names: first statement is not a dict comprehension over the default state's names")
    n = s0.value.generators[0].target.id
    names = s0.targets[0].id
    if ast.unparse(s0.value.key) != n or ast.unparse(s0.value.value) != n:
        bad(s0, "_get_bound_names: the comprehension is not {name: name ...}")
    if ast.unparse(s1) != "%s.update(self._binds)" % names:
        bad(s1, "_get_bound_names: the binds do not update the names")
    if not (isinstance(s2, ast.Return) and ast.unparse(s2.value) == names):
        bad(s2, "_get_bound_names: return")
    out.append("(* {name: name for name in default_state}, then .update(binds): a bind overrides a default name and new names go last *)\n"
               "Definition src_get_bound_names (default_state : list (string * Ent)) (binds : list (string * string)) : list (string * string) :=\n"
               "  let %s := dupdate [] (map (fun kv => (fst kv, fst kv)) default_state) in\n  dupdate %s binds." % (names, names))
    same(find(comp, "StoreAdapter", "get_state"),
         "entities = {name: store.read_entity(address, default=self._default_state.get(name)) for (name, address) in self._get_bound_names().items()}\n"
         "return state_type(**entities)\n", "StoreAdapter.get_state")
    out.append("(* one read_entity(address, default=default_state.get(name)) per bound name, in the order of the names (read_all) *)\n"
               "Definition src_get_state (cur : string) (default_state : list (string * Ent)) (binds : list (string * string)) (st : store Ent)\n"
               "  : option (store Ent * list (string * Ent)) :=\n  read_all Ent cur default_state (src_get_bound_names default_state binds) st.")
    same(find(comp, "StoreAdapter", "set_state"),
         "bounded_names = self._get_bound_names()\nfor (name, entity) in dict(state).items():\n    if name in bounded_names:\n"
         "        store.set_entity(bounded_names[name], entity)\n", "StoreAdapter.set_state")
    out.append("(* one set_entity per field of the returned state whose name is bound, in the order of the fields (write_all) *)\n"
               "Definition src_set_state (cur : string) (default_state : list (string * Ent)) (binds : list (string * string)) (out : list (string * Ent))\n"
               "  (st : store Ent) : store Ent :=\n  write_all Ent cur (src_get_bound_names default_state binds) out st.")
    return out


TIMER = "simaple/simulate/timer.py"


def tr_timer(repo):
    """timer_delay_dispatcher (decorated by named_dispatcher) -> includes test and call"""
    tree = ast.parse(open(os.path.join(str(repo), TIMER), encoding="utf-8").read())
    base = ast.parse(open(os.path.join(str(repo), BASE), encoding="utf-8").read())
    fn = find(tree, None, "timer_delay_dispatcher")
    if [a.arg for a in fn.args.args] != ["action", "store"]:
        bad(fn, "timer signature")
    if not (len(fn.decorator_list) == 1 and isinstance(fn.decorator_list[0], ast.Call) and ast.unparse(fn.decorator_list[0].func) == "named_dispatcher"
            and len(fn.decorator_list[0].args) == 1 and isinstance(fn.decorator_list[0].args[0], ast.Constant)
            and isinstance(fn.decorator_list[0].args[0].value, str)):
        bad(fn, "timer decorator is not named_dispatcher(<str>)")
    direction = fn.decorator_list[0].args[0].value
    same(find(base, None, "named_dispatcher"),
         "def decorator(dispatcher: Dispatcher):\n    def _includes(signature: str) -> bool:\n        return signature == direction\n"
         "    def _init_store(store: Store) -> None:\n        return\n    setattr(dispatcher, 'includes', _includes)\n"
         "    setattr(dispatcher, 'init_store', _init_store)\n    return dispatcher\nreturn decorator\n", "named_dispatcher")
    same(find(base, "Store", "use_entity"),
         "def entity_setter(state):\n    self.set_entity(name, state)\nreturn (self.read_entity(name, default=default), entity_setter)\n",
         "Store.use_entity")
    b = body_of(fn)
    if len(b) != 5:
        bad(fn, "timer has %d statements, expected 5" % len(b))
    s0, s1, s2, s3, s4 = b

    def cond(e):
        if isinstance(e, ast.BoolOp) and len(e.values) == 2:
            return "%s %s %s" % (cond(e.values[0]), "&&" if isinstance(e.op, ast.And) else "||", cond(e.values[1]))
        if isinstance(e, ast.Compare) and len(e.ops) == 1 and isinstance(e.ops[0], (ast.Eq, ast.NotEq)) and isinstance(e.comparators[0], ast.Constant) \
                and isinstance(e.comparators[0].value, str) and (sub(e.left, "action", "method") or sub(e.left, "action", "name")):
            f = "a_method" if sub(e.left, "action", "method") else "a_name"
            t = "String.eqb (%s action) \"%s\"" % (f, e.comparators[0].value)
            return "(%s)" % t if isinstance(e.ops[0], ast.Eq) else "negb (%s)" % t
        bad(e, "timer: guard outside the language")
    if not (isinstance(s0, ast.If) and not s0.orelse and len(s0.body) == 1 and isinstance(s0.body[0], ast.Return) and ast.unparse(s0.body[0].value) == "[]"):
        bad(s0, "timer: guard is not `if t: return []`")
    g = cond(s0.test)
    if not (isinstance(s1, ast.Assign) and isinstance(s1.targets[0], ast.Tuple) and len(s1.targets[0].elts) == 2
            and all(isinstance(x, ast.Name) for x in s1.targets[0].elts) and isinstance(s1.value, ast.Call)
            and ast.unparse(s1.value.func) == "store.use_entity" and len(s1.value.args) == 2 and isinstance(s1.value.args[0], ast.Constant)
            and isinstance(s1.value.args[0].value, str) and ast.unparse(s1.value.args[1]) == "Clock()"):
        bad(s1, "timer: `clock, set_clock = store.use_entity(<address>, Clock())`")
    ck, setter = (x.id for x in s1.targets[0].elts)
    addr = s1.value.args[0].value
    if ast.unparse(s2) != "%s.spent(action.get('payload'))" % ck:
        bad(s2, "timer: clock.spent(action.get('payload'))")
    if ast.unparse(s3) != "%s(%s)" % (setter, ck):
        bad(s3, "timer: set_clock(clock)")
    if not (isinstance(s4, ast.Return) and ast.unparse(s4.value) == "[]"):
        bad(s4, "timer: return []")
    return ["(* named_dispatcher(%r): includes(signature) = (signature == direction) *)\n"
            "Definition src_timer_includes (signature : string) : bool := String.eqb signature \"%s\"." % (direction, direction),
            "(* the dispatcher is installed at the root of the store: names with a period are global addresses *)\n"
            "Definition src_timer_call (action : action Pay) (s : rst Ent Pay) : option (rst Ent Pay * list (event Pay)) :=\n"
            "  let '(st, tr) := s in\n"
            "  if %s then Some ((st, tr), []) else\n"
            "  match read_entity Ent st (resolve root_addr \"%s\") (Some clock0) with\n"
            "  | None => None\n"
            "  | Some (st1, %s) =>\n"
            "      match spent %s (a_pay action) with\n"
            "      | None => None\n"
            "      | Some %s' => Some ((dset st1 (resolve root_addr \"%s\") %s', tr), [])\n"
            "      end\n  end." % (g, addr, ck, ck, ck, addr, ck)]


def same(fn, text, what):
    got = body_of(fn)
    want = ast.parse(text).body
    if len(got) != len(want) or any(ast.dump(a) != ast.dump(b) for a, b in zip(got, want)):
        raise Rejected("%s is not the reviewed shape `%s` but `%s`" % (what, text.strip().replace("\n", "; "),
                                                                    "; ".join(ast.unparse(s).replace("\n", " ") for s in got)[:300]))


def gen(repo):
    comp = ast.parse(open(os.path.join(str(repo), COMP), encoding="utf-8").read())
    base = ast.parse(open(os.path.join(str(repo), BASE), encoding="utf-8").read())
    out = [tr_regularize(find(comp, "ReducerMethodWrappingDispatcher", "regularize_returned_event")),
           tr_tag(find(comp, "ReducerMethodWrappingDispatcher", "tag_events_by_method_name"))]
    out.append(tr_find_mapping(find(comp, "ReducerMethodWrappingDispatcher", "_find_mapping_name")))
    out += tr_store_adapter(comp)
    out += tr_timer(repo)
    # the string rules: small enough to be compared verbatim; the emitted definitions spell out what the text means
    same(find(base, None, "message_signature"),
         "if len(message['method']) == 0:\n    return message['name']\nreturn f\"{message['name']}.{message['method']}\"\n", "message_signature")
    out.append("Definition src_message_signature (name method : string) : string :=\n"
               "  if Nat.eqb (String.length method) 0 then name else name ++ \".\" ++ method.")
    same(find(base, "AddressedStore", "_resolve_address"),
         "if len(name.split('.')) == 1:\n    return f'{self._current_address}.{name}'\nreturn name\n", "AddressedStore._resolve_address")
    out.append("(* len(name.split(\".\")) == 1  iff  name holds no \".\" *)\n"
               "Definition src_resolve_address (current_address name : string) : string :=\n"
               "  if negb (has_dot name) then current_address ++ \".\" ++ name else name.")
    same(find(base, "AddressedStore", "local"),
         "return AddressedStore(self._concrete_store, f'{self._current_address}.{address}')\n", "AddressedStore.local")
    out.append("Definition src_local (current_address address : string) : string := current_address ++ \".\" ++ address.")
    return {"WrapperSrc.v": HEADER + "\n\n".join(out) + "\n\nEnd WrapperSrc.\n"}, \
        {"functions": ["ReducerMethodWrappingDispatcher.regularize_returned_event", "tag_events_by_method_name", "_find_mapping_name", "StoreAdapter.__init__", "_get_bound_names", "get_state", "set_state", "timer_delay_dispatcher", "named_dispatcher", "Store.use_entity", "message_signature",
                       "AddressedStore._resolve_address", "AddressedStore.local"], "sources": [COMP, BASE]}


HEADER = """(* GENERATED by tools/tr_wrapper.py from simaple/simulate/component/base.py and simaple/simulate/base.py - do not edit *)
From Coq Require Import List String Ascii Bool Arith.
Import ListNotations.
From V Require Import Model.Dispatch.
Local Open Scope string_scope.

Section WrapperSrc.
  Variable Pay : Type.
  Variable empty_pay : Pay.          (* {} *)
  Variable Ent : Type.
  Variable clock0 : Ent.                                       (* Clock() *)
  Variable spent : Ent -> Pay -> option Ent.                   (* clock.spent(payload); None = TypeError *)

"""

if __name__ == "__main__":
    import sys
    files, meta = gen(sys.argv[1] if len(sys.argv) > 1 else "/repo")
    print(files["WrapperSrc.v"])
