"""T-fields (memo part) -- fail-closed reader of the memo interface of the provider classes.

Reads  <repo>/simaple/container/environment_provider.py  and  .../memoizer.py  with Python `ast`
(nothing is imported or executed) and emits  gen/MemoFields.v :

  per provider class (exactly the two registered kinds, Minimal... and Baseline...):
    <p>_all_fields    the pydantic fields (annotated class attributes, in order)
    <p>_excluded      the `exclude={...}` set of get_memoization_key
    <p>_memo_reads    every field `self.<f>` read in get_memoizable_environment or in a method it
                      reaches through `self.<method>` (transitively)
    <p>_indep_reads   the same for get_memoization_independent_environment
  for the memoizer:
    key_component_names / key_component_methods   the dict hashed by _compute_memo_key
    name_is_class_name                            get_name() returns cls.__name__ and no provider overrides it

Coq then proves (Proofs/MemoInst.v, by vm_compute on these lists) that every field the memoizable
computation reads is part of the key, that the key consists of all fields minus the excluded ones and
that the hashed object carries the class name.

Anything this reader does not recognise raises TranslationError (= the check reports a broken
obligation).  Conservative cases: `self` escaping as a value (passed to a function, returned, getattr)
and `self.model_dump()` without a literal include/exclude count as reading ALL fields.
"""
from __future__ import annotations

import ast
import os

PROVIDER_FILE = "simaple/container/environment_provider.py"
MEMOIZER_FILE = "simaple/container/memoizer.py"
EXPECTED = {"MinimalEnvironmentProvider": "minimal", "BaselineEnvironmentProvider": "baseline"}
ROOT = "MemoizableEnvironmentProvider"
DUMPS = {"model_dump", "model_dump_json", "dict", "json"}
DUMP_PASSIVE_KW = {"mode", "indent", "by_alias", "round_trip", "warnings"}


class TranslationError(Exception):
    pass


def fail(msg, node=None):
    raise TranslationError(msg + (" (line %d)" % node.lineno if node is not None and hasattr(node, "lineno") else ""))


# ------------------------------------------------------------------------------ classes
class Module:
    def __init__(self, path):
        self.path = path
        self.tree = ast.parse(open(path, encoding="utf8").read(), filename=path)
        self.classes = {n.name: n for n in self.tree.body if isinstance(n, ast.ClassDef)}
        for n in ast.walk(self.tree):
            if isinstance(n, ast.ClassDef) and n.name not in self.classes:
                fail("nested class %s" % n.name, n)

    def bases(self, cname):
        out = []
        for b in self.classes[cname].bases:
            if isinstance(b, ast.Name):
                out.append(b.id)
            elif isinstance(b, ast.Attribute):
                out.append(ast.unparse(b))
            else:
                fail("unrecognised base of %s" % cname, b)
        return out

    def chain(self, cname):
        """Linearised in-module ancestors, nearest first (single in-module inheritance only)."""
        out, cur = [], cname
        while True:
            out.append(cur)
            local = [b for b in self.bases(cur) if b in self.classes]
            if len(local) > 1:
                fail("multiple in-module bases of %s" % cur)
            if not local:
                return out
            cur = local[0]

    def derives(self, cname, root):
        return root in self.chain(cname)[1:]

    def fields(self, cname):
        """pydantic fields: annotated class-level names of the class and its in-module ancestors."""
        out = []
        for c in reversed(self.chain(cname)):
            for st in self.classes[c].body:
                if isinstance(st, ast.AnnAssign):
                    if not isinstance(st.target, ast.Name):
                        fail("annotated non-name in class %s" % c, st)
                    name = st.target.id
                    if "ClassVar" in ast.unparse(st.annotation):
                        continue
                    if name.startswith("_") or name == "model_config":
                        fail("private/config annotated attribute %s.%s" % (c, name), st)
                    if name in out:
                        out.remove(name)      # redeclared in a subclass: pydantic keeps one field
                    out.append(name)
                elif isinstance(st, ast.Assign):
                    names = [t.id for t in st.targets if isinstance(t, ast.Name)]
                    if names != ["model_config"]:
                        fail("unannotated class attribute %s in %s" % (names, c), st)
                elif isinstance(st, (ast.FunctionDef, ast.Pass)):
                    pass
                elif isinstance(st, ast.Expr) and isinstance(st.value, ast.Constant):
                    pass                      # docstring / Ellipsis
                else:
                    fail("unrecognised statement in class %s: %s" % (c, type(st).__name__), st)
        return out

    def method(self, cname, mname):
        for c in self.chain(cname):
            for st in self.classes[c].body:
                if isinstance(st, ast.FunctionDef) and st.name == mname:
                    return c, st
        return None, None


def decorators(fn):
    return [ast.unparse(d) for d in fn.decorator_list]


def str_set(node, what):
    if not isinstance(node, ast.Set) or not all(isinstance(e, ast.Constant) and isinstance(e.value, str) for e in node.elts):
        fail("%s is not a literal set of strings" % what, node)
    return [e.value for e in node.elts]


# ------------------------------------------------------------------------------ reads
class Reads:
    def __init__(self, mod: Module, cname: str):
        self.mod, self.cname = mod, cname
        self.fields = mod.fields(cname)
        self.notes = []

    def of(self, mname):
        seen, out = set(), []
        self._visit(mname, seen, out)
        return [f for f in self.fields if f in out]     # field order, no duplicates

    def _all(self, out, why):
        self.notes.append(why)
        out.extend(self.fields)

    def _visit(self, mname, seen, out):
        if mname in seen:
            return
        seen.add(mname)
        owner, fn = self.mod.method(self.cname, mname)
        if fn is None:
            fail("%s.%s is not defined in the module" % (self.cname, mname))
        decs = decorators(fn)
        if any(d in ("classmethod", "staticmethod") for d in decs):
            return                              # no instance: reads no field
        for d in decs:
            if d not in ("property", "abstractmethod"):
                fail("unrecognised decorator %s on %s.%s" % (d, owner, mname), fn)
        if "abstractmethod" in decs:
            fail("%s.%s resolves to an abstract method" % (self.cname, mname), fn)
        if not fn.args.args:
            fail("method %s.%s without self" % (owner, mname), fn)
        me = fn.args.args[0].arg
        parent = {}
        for n in ast.walk(fn):
            for c in ast.iter_child_nodes(n):
                parent[c] = n
        for n in ast.walk(fn):
            if isinstance(n, (ast.Global, ast.Nonlocal)):
                fail("global/nonlocal in %s.%s" % (owner, mname), n)
            if isinstance(n, ast.Call) and isinstance(n.func, ast.Name) and n.func.id in ("super", "vars", "locals", "eval", "exec"):
                fail("%s() in %s.%s" % (n.func.id, owner, mname), n)
            if isinstance(n, (ast.FunctionDef, ast.Lambda)) and n is not fn:
                if any(a.arg == me for a in n.args.args + n.args.kwonlyargs):
                    fail("inner function rebinding %s in %s.%s" % (me, owner, mname), n)
            if not (isinstance(n, ast.Name) and n.id == me):
                continue
            if not isinstance(n.ctx, ast.Load):
                fail("%s rebound in %s.%s" % (me, owner, mname), n)
            par = parent[n]
            if not (isinstance(par, ast.Attribute) and par.value is n):
                self._all(out, "%s.%s: `%s` used as a value" % (owner, mname, me))
                continue
            attr = par.attr
            if not isinstance(par.ctx, ast.Load):
                fail("%s.%s assigns/deletes self.%s" % (owner, mname, attr), par)
            if attr in self.fields:
                out.append(attr)
                continue
            _o, target = self.mod.method(self.cname, attr)
            if target is not None:
                self._visit(attr, seen, out)
                continue
            if attr in DUMPS:
                call = parent.get(par)
                if not (isinstance(call, ast.Call) and call.func is par):
                    fail("self.%s not called in %s.%s" % (attr, owner, mname), par)
                if call.args:
                    fail("positional arguments to self.%s in %s.%s" % (attr, owner, mname), call)
                kws = {k.arg: k.value for k in call.keywords}
                if None in kws:
                    fail("**kwargs to self.%s" % attr, call)
                for k in kws:
                    if k not in ("include", "exclude") and k not in DUMP_PASSIVE_KW:
                        fail("unrecognised keyword %s= to self.%s in %s.%s" % (k, attr, owner, mname), call)
                if "include" in kws and "exclude" in kws:
                    fail("both include= and exclude= in %s.%s" % (owner, mname), call)
                if "include" in kws:
                    inc = str_set(kws["include"], "include=")
                    for f in inc:
                        if f not in self.fields:
                            fail("include= names %r which is not a field of %s" % (f, self.cname), call)
                    out.extend(inc)
                elif "exclude" in kws:
                    exc = str_set(kws["exclude"], "exclude=")
                    out.extend(f for f in self.fields if f not in exc)
                else:
                    self._all(out, "%s.%s: self.%s() dumps every field" % (owner, mname, attr))
                continue
            fail("self.%s in %s.%s is neither a field, a method of the module, nor a known dump" % (attr, owner, mname), par)


# ------------------------------------------------------------------------------ key of a provider
def key_exclusions(mod: Module, cname: str, fields):
    """get_memoization_key must be exactly
         return json.dumps(json.loads(self.model_dump_json(exclude={...})), ensure_ascii=.., indent=.., sort_keys=True)"""
    owner, fn = mod.method(cname, "get_memoization_key")
    if fn is None or "abstractmethod" in decorators(fn):
        fail("%s has no concrete get_memoization_key" % cname)
    body = [s for s in fn.body if not (isinstance(s, ast.Expr) and isinstance(s.value, ast.Constant))]
    if len(body) != 1 or not isinstance(body[0], ast.Return):
        fail("%s.get_memoization_key is not a single return" % owner, fn)
    e = body[0].value
    me = fn.args.args[0].arg

    def is_call(x, dotted):
        return isinstance(x, ast.Call) and ast.unparse(x.func) == dotted

    if not is_call(e, "json.dumps") or len(e.args) != 1:
        fail("%s.get_memoization_key: expected json.dumps(<one argument>, ...)" % owner, e)
    kw = {k.arg: k.value for k in e.keywords}
    if set(kw) - {"ensure_ascii", "indent", "sort_keys"}:
        fail("%s.get_memoization_key: unrecognised json.dumps keywords %s" % (owner, sorted(kw)), e)
    sk = kw.get("sort_keys")
    if not (isinstance(sk, ast.Constant) and sk.value is True):
        fail("%s.get_memoization_key: sort_keys=True missing (key would depend on field order)" % owner, e)
    inner = e.args[0]
    if not is_call(inner, "json.loads") or len(inner.args) != 1 or inner.keywords:
        fail("%s.get_memoization_key: expected json.loads(<dump>)" % owner, inner)
    dump = inner.args[0]
    if not is_call(dump, me + ".model_dump_json") or dump.args:
        fail("%s.get_memoization_key: expected self.model_dump_json(...)" % owner, dump)
    dk = {k.arg: k.value for k in dump.keywords}
    if set(dk) - {"exclude"}:
        fail("%s.get_memoization_key: unrecognised model_dump_json keywords %s" % (owner, sorted(dk)), dump)
    exc = str_set(dk["exclude"], "exclude=") if "exclude" in dk else []
    if len(set(exc)) != len(exc):
        fail("duplicate names in exclude=", dump)
    for f in exc:
        if f not in fields:
            fail("%s.get_memoization_key excludes %r which is not a field" % (owner, f), dump)
    return [f for f in fields if f in exc]


# ------------------------------------------------------------------------------ memoizer key
def memo_key_shape(path):
    tree = ast.parse(open(path, encoding="utf8").read(), filename=path)
    cls = [n for n in tree.body if isinstance(n, ast.ClassDef) and n.name == "CharacterProviderMemoizer"]
    if len(cls) != 1:
        fail("class CharacterProviderMemoizer not found")
    fns = [s for s in cls[0].body if isinstance(s, ast.FunctionDef) and s.name == "_compute_memo_key"]
    if len(fns) != 1:
        fail("_compute_memo_key not found")
    fn = fns[0]
    # no subclass may override it
    for n in tree.body:
        if isinstance(n, ast.ClassDef) and n is not cls[0]:
            for s in n.body:
                if isinstance(s, ast.FunctionDef) and s.name == "_compute_memo_key":
                    fail("%s overrides _compute_memo_key" % n.name, s)
    if len(fn.args.args) != 2:
        fail("_compute_memo_key: expected (self, provider)", fn)
    prov = fn.args.args[1].arg
    body = [s for s in fn.body if not (isinstance(s, ast.Expr) and isinstance(s.value, ast.Constant))]
    if len(body) != 6:
        fail("_compute_memo_key: expected 6 statements, found %d" % len(body), fn)
    s_obj, s_ser, s_new, s_upd, s_dig, s_ret = body

    def assign(st, what):
        if not (isinstance(st, ast.Assign) and len(st.targets) == 1 and isinstance(st.targets[0], ast.Name)):
            fail("_compute_memo_key: expected `%s = ...`" % what, st)
        return st.targets[0].id, st.value

    obj, d = assign(s_obj, "obj")
    if not isinstance(d, ast.Dict):
        fail("_compute_memo_key: hashed object is not a dict literal", d)
    names, methods = [], []
    for k, v in zip(d.keys, d.values):
        if not (isinstance(k, ast.Constant) and isinstance(k.value, str)):
            fail("_compute_memo_key: non-literal dict key", d)
        if not (isinstance(v, ast.Call) and not v.args and not v.keywords and isinstance(v.func, ast.Attribute)
                and isinstance(v.func.value, ast.Name) and v.func.value.id == prov):
            fail("_compute_memo_key: dict value is not <provider>.<method>()", v)
        names.append(k.value)
        methods.append(v.func.attr)
    if len(set(names)) != len(names):
        fail("_compute_memo_key: duplicate dict keys", d)
    ser, v = assign(s_ser, "serialized")
    if not (isinstance(v, ast.Call) and ast.unparse(v.func) == "json.dumps" and len(v.args) == 1
            and isinstance(v.args[0], ast.Name) and v.args[0].id == obj):
        fail("_compute_memo_key: expected json.dumps(%s, ...)" % obj, v)
    kw = {k.arg: k.value for k in v.keywords}
    if set(kw) - {"ensure_ascii", "indent", "sort_keys"}:
        fail("_compute_memo_key: unrecognised json.dumps keywords", v)
    hv, v = assign(s_new, "hash")
    if ast.unparse(v) != "hashlib.sha256()":
        fail("_compute_memo_key: expected hashlib.sha256()", v)
    if not (isinstance(s_upd, ast.Expr) and ast.unparse(s_upd.value) == "%s.update(%s.encode())" % (hv, ser)):
        fail("_compute_memo_key: expected %s.update(%s.encode())" % (hv, ser), s_upd)
    dg, v = assign(s_dig, "digest")
    if ast.unparse(v) != "%s.hexdigest()" % hv:
        fail("_compute_memo_key: expected %s.hexdigest()" % hv, v)
    if not isinstance(s_ret, ast.Return) or s_ret.value is None:
        fail("_compute_memo_key: expected return", s_ret)
    used = {n.id for n in ast.walk(s_ret.value) if isinstance(n, ast.Name)}
    if dg not in used:
        fail("_compute_memo_key: the returned key does not contain the digest", s_ret)
    if used - {dg, prov}:
        fail("_compute_memo_key: returned key uses %s" % sorted(used - {dg, prov}), s_ret)
    return names, methods


def name_is_class_name(mod: Module, providers):
    owner, fn = mod.method(ROOT, "get_name")
    if fn is None:
        fail("get_name not found")
    if "classmethod" not in decorators(fn):
        fail("get_name is not a classmethod", fn)
    body = [s for s in fn.body if not (isinstance(s, ast.Expr) and isinstance(s.value, ast.Constant))]
    cls = fn.args.args[0].arg
    ok = len(body) == 1 and isinstance(body[0], ast.Return) and ast.unparse(body[0].value) == cls + ".__name__"
    for p in providers:
        o, _ = mod.method(p, "get_name")
        if o != owner:
            ok = False
    return ok


# ------------------------------------------------------------------------------ emit
def coq_strs(xs):
    return "[" + "; ".join('"%s"' % x for x in xs) + "]"


def analyse(repo):
    mod = Module(os.path.join(str(repo), PROVIDER_FILE))
    if ROOT not in mod.classes:
        fail("class %s not found" % ROOT)
    provs = [c for c in mod.classes if mod.derives(c, ROOT)]
    if sorted(provs) != sorted(EXPECTED):
        fail("provider kinds in the source %s differ from the two kinds of the model %s" % (sorted(provs), sorted(EXPECTED)))
    # the registry must name the same classes
    reg = None
    for st in mod.tree.body:
        tgt = st.target if isinstance(st, ast.AnnAssign) else (st.targets[0] if isinstance(st, ast.Assign) else None)
        if isinstance(tgt, ast.Name) and tgt.id == "_environment_providers":
            reg = st.value
    if not isinstance(reg, ast.Dict):
        fail("_environment_providers registry not found")
    regnames = sorted(ast.unparse(v) for v in reg.values)
    if regnames != sorted(EXPECTED):
        fail("registered providers %s differ from %s" % (regnames, sorted(EXPECTED)))
    meta = {"files": [PROVIDER_FILE, MEMOIZER_FILE], "providers": {}, "notes": []}
    for c in EXPECTED:
        o, _ = mod.method(c, "get_simulation_environment")
        if o != ROOT:
            fail("%s overrides get_simulation_environment (model: independent part updated with the memoizable part)" % c)
        rd = Reads(mod, c)
        fields = rd.fields
        if len(set(fields)) != len(fields):
            fail("duplicate field in %s" % c)
        info = {
            "all_fields": fields,
            "excluded": key_exclusions(mod, c, fields),
            "memo_reads": rd.of("get_memoizable_environment"),
            "indep_reads": rd.of("get_memoization_independent_environment"),
        }
        meta["providers"][c] = info
        meta["notes"] += rd.notes
    # direct computation = combine(indep, memo): check the shared method reads through exactly those two
    _o, fn = mod.method(ROOT, "get_simulation_environment")
    called = {n.func.attr for n in ast.walk(fn) if isinstance(n, ast.Call) and isinstance(n.func, ast.Attribute)
              and isinstance(n.func.value, ast.Name) and n.func.value.id == fn.args.args[0].arg}
    if called != {"get_memoization_independent_environment", "get_memoizable_environment"}:
        fail("get_simulation_environment calls %s on self" % sorted(called), fn)
    names, methods = memo_key_shape(os.path.join(str(repo), MEMOIZER_FILE))
    meta["key_component_names"], meta["key_component_methods"] = names, methods
    meta["name_is_class_name"] = name_is_class_name(mod, list(EXPECTED))
    return meta


def gen(repo):
    meta = analyse(repo)
    L = ["(* GENERATED by tools/tr_memo.py from %s and %s -- do not edit. *)" % (PROVIDER_FILE, MEMOIZER_FILE),
         "From Coq Require Import List String.", "Import ListNotations.", "Open Scope string_scope.", ""]
    for c, short in EXPECTED.items():
        info = meta["providers"][c]
        L.append('Definition %s_name : string := "%s".' % (short, c))
        for k in ("all_fields", "excluded", "memo_reads", "indep_reads"):
            L.append("Definition %s_%s : list string := %s." % (short, k, coq_strs(info[k])))
        L.append("")
    L.append("(* the object hashed by CharacterProviderMemoizer._compute_memo_key: dict keys and the provider method behind each *)")
    L.append("Definition key_component_names : list string := %s." % coq_strs(meta["key_component_names"]))
    L.append("Definition key_component_methods : list string := %s." % coq_strs(meta["key_component_methods"]))
    L.append("Definition name_is_class_name : bool := %s." % ("true" if meta["name_is_class_name"] else "false"))
    return {"MemoFields.v": "\n".join(L) + "\n"}, meta


if __name__ == "__main__":
    import json
    import sys
    files, meta = gen(sys.argv[1] if len(sys.argv) > 1 else "/repo")
    print(files["MemoFields.v"])
    print(json.dumps(meta, indent=1))
