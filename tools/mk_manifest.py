"""Writes MANIFEST.json from the table below (kept in one place so it stays valid)."""
import json

CHECKS = {
 "C11": dict(
   text="Machine-checked proof (Coq) of the monoid laws, permutation invariance of sum, agreement of +, += and sum, "
        "multiplicative final-damage/defence-ignore, additivity and n-fold stacking of every declared field, for all "
        "rational stat blocks, about a Coq model REGENERATED from simaple/core/base.py on every run; the translator is "
        "validated on every run bit-for-bit (binary64 twin) and by exact rationals against the Python methods.",
   note="Trusted: Coq kernel/vm_compute; translator tools/lib/pynum.py + tr_core.py; numbers idealised as rationals "
        "(laws are false in floating point); pydantic construction/dump not modelled (tested only).",
   technique="Coq proof over a model generated from the source (translator) + bit-exact twin correspondence",
   design="7 C11"),
 "C12": dict(
   text="Machine-checked proofs about the definitions REGENERATED from core/damage.py, core/base.py and report/dpm.py on every "
        "run: for each of the five damage logics the damage and DOT factors are non-negative and non-decreasing in every one of "
        "the 27 stat fields simultaneously (non-negative block, armour >= 0, armour term >= 0), calculated damage is linear in "
        "damage% and hits; the cooldown equals the reference formula and is monotone in flat and percent reduction, <= base, >= "
        "floors; the level-gap advantage is total, in [0,1.2] and antitone for ALL integer level pairs.",
   note="Trusted: Coq kernel/vm_compute; translator pynum.py/tr_core.py (validated bit-exactly by the binary64 twin and by "
        "rationals each run); numbers idealised as rationals; hypotheses 0<=mastery<=1, 0<=rate<=100, non-negative reductions.",
   technique="Coq proof (nra/lra over Q) over a model generated from the source + twin correspondence + exhaustive level grid",
   design="7 C12"),
 "C01": dict(
   text="Coq theorems C01_resume_fresh_engine / C01_state_in_log: for EVERY store type, play function (router), save/restore with "
        "restore(save s)=s, clock, hash, plan and cut index, reloading the logs recorded up to the cut into a fresh engine and "
        "executing the rest yields the same logs (actions, events, clocks, checkpoints, previous-hash links) and an "
        "observationally equal engine; proved by the invariant 'engine = of_logs(its logs)'. The hand-written engine model is "
        "executed in Coq against the play table recorded from real engines on the same resume scenarios and must reproduce "
        "the implementation's logs; the resume experiment itself is also run on the implementation. For the concrete store of "
        "simulate/base.py (ordered dict address -> entity, saved and restored entity by entity) restore(save s)=s is DERIVED from the "
        "round trip of a single entity, and only from it (Props/C01_store.v: C01_store_roundtrip, _only_if, C01_resume_concrete_store); "
        "a lossy entity serialiser provably breaks it (C01_lossy_entity_breaks_store). The engine glue (engine.py reload / rollback / "
        "exec / _console / _exec_operation), the history bookkeeping (policy/base.py) and the operation handlers (policy/handlers.py) are "
        "regenerated on every run by tools/tr_engine.py, tr_history.py, tr_handlers.py; Props/C01_engine_src.v proves the generated exec / "
        "rollback / reload equal to the model's and restates C01 (and C03) for runs of the generated functions.",
   note="Trusted: Coq kernel; hypotheses parse(dump e)=e per entity (pydantic; checked on every recorded checkpoint, in memory and through "
        "JSON transports) and play is a function (exercised/checked on every run); the component "
        "code, pydantic and hashlib enter only through the recorded play table; correspondence is sampled, not exhaustive.",
   technique="Coq proof (invariant + bisimulation) over a hand-written engine model + trace-driven correspondence in Coq",
   design="7 C01"),
 "C03": dict(
   text="Coq theorems C03_rollback_fresh_engine (any interleaving of exec/rollback = fresh run of the surviving commands: same "
        "logs, current store, buffered events, hence views and all further results), C03_hash_chain (every reachable history "
        "links previous-hash to the predecessor's hash), C03_hash_is_a_function, for every instantiation of the engine; model "
        "executed in Coq on recorded play tables for random and small-depth exhaustive exec/rollback words.",
   note="Trusted as C01. 'A hash locates its log' is proved (C03_hash_locates_its_log, C03_hash_index_sound, "
        "C03_unknown_hash_is_refused in Props/C03_history.v) about the get_hash_index GENERATED from policy/base.py by "
        "tools/tr_history.py, under the stated hypotheses on sha1 (injective in the previous hash; '' is not a digest); the same "
        "translator regenerates commit / discard_after / _last_playlog / last_events / _current_ckpt and C03_src_* prove them equal "
        "to the definitions of the engine model; C03_src_every_history_is_chained (every sequence of generated commit / "
        "discard_after calls keeps the hash chain) and C03_src_rollback_lands_on_the_tip are stated for the generated code alone.",
   technique="Coq proof (induction over step lists) over the engine model + trace-driven correspondence",
   design="7 C03"),
 "C04": dict(
   text="Coq theorems C04_hint_eq_full_run and C04_hint_chain: for every engine instantiation, previous plan and new plan, the "
        "model of run_plan_with_hint (double common-prefix test, step back to a log with checkpoints, reload, re-extract with "
        "every-10th checkpoint retention) returns exactly the extraction of the full run, also when the hint is itself an "
        "incremental output; the model is executed in Coq on play tables recorded from run_plan/run_plan_with_hint and must "
        "reproduce their responses; the JSON equality itself is checked on the implementation for every generated edit. run_plan_with_hint itself is regenerated from api/base.py on every run (tools/tr_hint.py: prefix loop, step-back loop, slices); "
        "Props/C04_hint_src.v proves the generated function equal to the model's run_hint and restates C04 for it.",
   note="Trusted as C01 plus: response fields other than events/clock/action/checkpoint are functions of the checkpoint "
        "(checked per run); plan parsing/YAML/environment construction outside the model.",
   technique="Coq proof over the engine+api model + trace-driven correspondence on edit chains",
   design="7 C04"),
 "C05": dict(
   text="Coq theorems about play() for EVERY store type and router: the actions handed to the router at the next action are exactly "
        "rev(emitted callbacks of the previous events) ++ [action] ++ done callbacks (each carrying name, (method, tag), payload), "
        "nothing of an older action survives, and checkpoint+restore in between is transparent. The model's queue is compared in "
        "Coq with the exact list of actions the real router received, for every play of recorded runs incl. reloads/rollbacks. "
        "Listener level (Model/Dispatch.v: _find_mapping_name with $-listeners and wildcard keys, Tandem/Context addons, route cache, "
        "composed with play): for every event of play k and every installed component listening to its emitted/done callback the "
        "invocation trace of play k+1 contains exactly one invocation of that component's mapped reducer with the event's payload, "
        "before resp. after the invocations of the played action; re-entrant addon dispatch is counted apart; nothing of play k is "
        "offered in play k+2 (C05_listeners_offered_once, C05_one_invocation_per_listener, C05_not_offered_later). play() and _get_event_callbacks are regenerated from simulate/base.py on every run (tools/tr_play.py); Props/C05_play_src.v "
        "proves the generated play equal to the model's and restates relay-exactly-once / never-replayed for it.",
   note="Trusted: Coq kernel; restore∘save=id; the dispatch model is tied to simulate/base.py and component/base.py by the H-dispatch "
        "correspondence (mapping lookup, callbacks, whole-play invocation traces of real engines replayed in Coq) and by generated "
        "obligations on the components extracted from real engines (distinct names, non-empty keys); correspondence sampled over jobs/plans.",
   technique="Coq proof over hand-written models of play() and of the dispatch layer + router-level dispatch and invocation-trace correspondence evaluated in Coq",
   design="7 C05"),
 "C06": dict(
   text="Coq theorems: one play advances the clock by exactly the payload of its direct *.elapse action (relayed callbacks add "
        "nothing); each command advances it by its documented amount (ELAPSE t / first positive delay of the CAST's own play / "
        "pending delay of the named skill for RESOLVE / 0 for USE, KEYDOWNSTOP); play-log payloads add up; the clock is monotone "
        "under non-negative ELAPSE. For every router whose components do not write the clock. Documented advance evaluated in Coq "
        "on recorded logs and compared with recorded clocks. The frame hypothesis is no longer assumed: C06_frame_from_binds derives "
        "it from the dispatch model (a component dispatcher writes only its resolved bound addresses; no shipped component binds "
        "global.time - generated obligation decided by vm_compute on the components extracted from real engines of all jobs), "
        "C06_router_clock / C06_concrete_play_clock: with the timer installed as a dispatcher a *.elapse moves the clock entity by "
        "exactly one spent(t) and nothing else moves it. Several simulations built in one process are run in turns on the "
        "implementation (a clock shared between stores is invisible to checkpoint-restoring engines). The operation handlers "
        "(policy/handlers.py: get_next_elapse_time, exec_cast/use/elapse/resolve/keydownstop and their table) are regenerated by "
        "tools/tr_handlers.py on every run; C06_src_handlers_are_exec_op proves that driving the generated generators with the "
        "engine's loop is the exec_op the engine theorems (C01, C03, C04, C06) are about.",
   note="Trusted: Coq kernel; the dispatch model's tie (H-dispatch correspondence; extraction of bound addresses from real engines); "
        "tick-valued time (binary64 rounding of clock additions outside); 'elapsed carries the elapse time' is proved per modelled "
        "component class (all 64) under C09.",
   technique="Coq proof over models of play(), timer and operation handlers + clock correspondence evaluated in Coq",
   design="7 C06"),
 "C07": dict(
   text="Coq theorems over the hand-written executable models of component/entity.py, trait/impl.py, the 16 stateful classes of "
        "component/common (Model/Comp.v) and ALL 48 job-specific classes of component/specific (Model/SpecAdele.v, SpecMage.v, SpecMech.v; "
        "every component class shipped is modelled): for every class, reducer, parameters, state and payload except StackableBuffSkillComponent.use, "
        "a result containing a rejection is exactly [reject] and returns the input state, bound entities included (C07_reject_alone, "
        "C07_adele/_mage/_mech_reject_alone); ignore_rejected variants are silent; using a skill that is not ready is a no-op; the dispatcher "
        "never acknowledges a rejected action; at store level (Model/Dispatch.v: addressed store, StoreAdapter get/set over bound names, "
        "tagging and the ACCEPT rule) a reducer answering (input state, [reject]) leaves the store extensionally unchanged when all "
        "bound addresses are present (C07_store_unchanged; the guard is necessary: setdefault, witness proved) and a dispatch never "
        "writes outside the component's bound addresses (C07_write_frame, lifted to router and play); at router level a rejected player "
        "action is a no-op for every system without raw-action listeners (C07_router_rejected_is_noop), addons do not follow a rejected "
        "base answer (repair 5abf1af, C07_rejected_base_skips_addons), and the raw-action listeners of all shipped systems are inside a "
        "reviewed list (generated obligation; archmagefb's three are an open known finding: a unit test asserts the behaviour). StackableBuffSkillComponent.use as shipped is refuted with a witness (open known finding: a unit "
        "test asserts the behaviour) and its largest true part is proved; three further defects found by this check in job-specific classes "
        "(FlameSwipVI.use, the two FlareSlash triggers) were repaired and the models follow the repaired code. The models are compared in Coq "
        "with the real reducers (full output state, event list, views) on random, reachable and shipped instances on every run. The event plumbing of the component dispatcher (regularize_returned_event, tag_events_by_method_name with the automatic ACCEPT) and the "
        "signature / address rules are regenerated from the source (tools/tr_wrapper.py) and proved equal to the definitions of Model/Dispatch.v "
        "(Props/C07_wrapper_src.v).",
   note="Trusted: Coq kernel/vm_compute; the correspondence harnesses (tools/lib/h_entity.py, ext_adele.py, ext_mage.py, ext_mech.py); tick-valued "
        "time; pydantic deepcopy/validation and the dispatcher glue outside the model. In addition the property is tested on every installed "
        "component of all jobs in reachable states (exploration, not proof).",
   technique="Coq proof (case analysis over all modelled reducers of all 64 component classes) over hand-written executable models + Coq-evaluated correspondence with the real reducers + implementation-side search on all installed components",
   design="7 C07"),
 "C08": dict(
   text="Coq theorems: an ownership/effect checker `safe` over an effect-skeleton language is proved sound (a skeleton it accepts never "
        "modifies an object that existed before the call - the state, the payload, self, anything reachable from them -, never writes "
        "self and performs no impure step, for all heaps, branch outcomes, loop counts); the skeletons of all 141 reducers, 117 views and "
        "221 callee summaries are REGENERATED from component/{common,specific}/*.py, trait/impl.py, entity.py on every run and `safe` is "
        "evaluated on them in Coq (vm_compute); call summaries are themselves justified on the callee's skeleton; the pre-repair "
        "FullMetalBarrage body and 17 other impure shapes are rejected. 'Same in, same out' follows (no impure step, no self write, no "
        "input mutation) and is additionally tested by calling every reducer twice.",
   note="Trusted: Coq kernel/vm_compute; the translator tools/tr_effects.py (classification of Python statements into effects; validated on "
        "every run by runtime monitors that dump inputs before/after every reducer and view of every installed component on all jobs); "
        "pydantic/deepcopy semantics.",
   technique="Coq proof (soundness of an ownership checker over an instrumented heap semantics) + checker evaluated in Coq on skeletons generated from the source (translator) + runtime purity monitor",
   design="7 C08"),
 "C09": dict(
   text="Coq theorems: for every well-formed state and all a, b >= 0, elapse a then b equals elapse a+b for the Periodic scheduler, the "
        "Consumable stack regeneration, the Keydown generator, LastingStack, the dynamic-interval scheduler and the mob's DOT tracker (entity "
        "models faithful to component/entity.py and common/mob.py), for all 16 stateful common component classes (the hit-limited one under a "
        "proved reachable-state invariant) and for every job-specific class with an elapse reducer (Model/SpecAdele.v, SpecMage.v, SpecMech.v): "
        "damage events are a permutation (same names, values, hits, modifiers), final states agree up to the dead "
        "interval counter of an expired schedule, hence all views agree; well-formedness is an invariant of every reducer, so this holds in "
        "every reachable state; every elapsed notification carries the elapse time. Three chunking defects found by this check (the mob's DOT "
        "ageing, FullMetalBarrage's penalty, the Order swords' tick cap and capacity) were repaired (93d0760, f0eb2ac, 4d5f5f0); the models "
        "follow the repaired code, the classes are inside the theorem and the former witnesses are replayed as regressions. Models compared "
        "in Coq with the real code on every run.",
   note="Trusted: as C07. Integer ticks (exactly representable times, as the property's own quantifier restricts). In addition a two-execution "
        "comparison runs on every installed component of all jobs (exploration).",
   technique="Coq proof (strong induction on the first chunk, invariants, permutation lemmas) over hand-written executable models of all component classes + Coq-evaluated correspondence + implementation-side two-execution search",
   design="7 C09"),
 "C10": dict(
   text="Coq theorems over Model/Comp.v and the job-specific models (SpecAdele.v, SpecMage.v, SpecMech.v): validity never reports a negative "
        "remaining time; for every modelled class (all 64 shipped component classes), whenever validity reports the skill usable, use returns no "
        "rejection (all parameters, all states), including key-down skills whose validity mirrors use exactly (after the repair de960db of a "
        "genuine defect found by this check). Views of the models are compared in Coq with the real view methods on every run; totality of "
        "the Python view METHODS is tested on all jobs, not proved. Store level (Model/DispatchViews.v): in every store reachable from the "
        "initial store by plays, every component view, every aggregation view and the clock view evaluate without a store-access error "
        "and leave the store unchanged (presence invariant established by init under the generated obligation 'every bind target is "
        "owned', preserved by every dispatch), and the total buff is the fold of Stat addition over the component buffs, independent of "
        "their order (C10_views_never_raise_on_reachable, C10_views_read_only, C10_total_buff_is_sum). At the engine's observation point "
        "(viewer right before a USE vs the events of that USE) the statement is FALSE on the unchanged tree when callbacks of the previous "
        "action are pending (open known finding C10-validity-ignores-pending-callbacks, two shipped witnesses, refuted in the dispatch "
        "model; true and proved when no pending callback reaches an entity the skill depends on).",
   note="Trusted: as C07 plus the H-dispatch tie of the store/view model. Totality of the view methods' own Python code is explored on all "
        "jobs (every view of every installed component in reachable states), not proved.",
   technique="Coq proof over hand-written executable models of views and use for all component classes + Coq-evaluated correspondence + implementation-side search (validity vs use on every installed component)",
   design="7 C10"),
 "C13": dict(
   text="19 Coq theorems: the two-pointer scan REGENERATED from report/feature.py on every run equals the exhaustive search (for each start the "
        "shortest window whose span reaches L, first strict maximum) for all L > 0 and all non-decreasing clock lists; reported indices "
        "reproduce the value; with non-negative damages the shortest window is the least among windows of at least L from a start; L <= 0 "
        "raises; report identities over Q for all runs: total = sum of per-action = sum of per-skill damages, shares non-negative and sum to "
        "1, DPM definition, each damage/DOT event contributes exactly once (none for zero damage or zero hits) with the buff in force.",
   note="Trusted: Coq kernel; translator tools/tr_window.py; the report model is hand-written and tied by correspondence; binary64 rounding "
        "outside the model; the literal reading 'maximum over ALL windows of at least L' is refuted by a witness and documented (the whole "
        "run would always win); damage formula and Stat addition are parameters (C12, C11).",
   technique="Coq proof (loop invariant on 2n+2 fuel; ring/field/lra) over a model generated from the source (translator) + Coq-evaluated correspondence + exhaustive small-sequence search on the implementation",
   design="7 C13"),
 "C14": dict(
   text="26 Coq theorems over a layout-aware token model of the plan grammar, tied to the source by a translator that regenerates the Lark "
        "grammar, the TreeToOperation templates and the API render/split code as data which Coq proves equal to the model's (vm_compute): "
        "parse(print cs) = cs for all non-empty command lists with finite times; xN replicates N times for every integer N; the parse is "
        "invariant under every layout the grammar's gap rule accepts; header/body split round trip; character-level round trips of "
        "strings, words and numbers. The unrestricted statements are refuted with witnesses (five open known findings: inf time, last-line "
        "comment, trailing newline, consecutive comment lines, text before the header opener breaking the API's re-rendering).",
   note="Trusted: Coq kernel; translator tools/tr_grammar.py; Lark's Earley parser, float repr and YAML are covered by correspondence "
        "(Lark vs model on grammar-generated plans), not modelled; 'executing the re-parsed plan gives the same result' is tested only.",
   technique="Coq proof over a token/layout model + generated grammar/template tie (translator -> vm_compute equality) + Coq-evaluated correspondence with Lark on generated plans",
   design="7 C14"),
 "C15": dict(
   text="44 Coq theorems: the arithmetic grammar and the CalcTransformer action table REGENERATED from spec/_math.py equal the model's; "
        "parse(print e) = e for every expression tree, so precedence, left associativity, unary minus and parentheses are corollaries "
        "(stated for arbitrary subexpressions and as value identities over Q); // is floor division, min/max/ceil/floor, variables, digit "
        "separators; the document traversal of DFSTraversePatch/ArithmeticPatch replaces every {{e}} value, list element and scalar-valued "
        "key by eval e at any depth (also when 0); the full statement incl. container-valued keys is refuted with a witness (open known "
        "finding). Store immutability: by construction in the model, carried by the correspondence harness on all shipped specs.",
   note="Trusted: Coq kernel; translator tools/tr_mathgrammar.py; Lark lexing/Earley parsing and binary64 arithmetic tested against the model "
        "(rounding-noise rule), not proved; mutation of Python objects is observable only by the harness (deep dumps before/after).",
   technique="Coq proof (round-trip for all trees; structural induction on documents) + generated grammar/action tie + Coq-evaluated correspondence with evaluate_expression and Patch.apply + independent ast reference evaluator",
   design="7 C15"),
 "C17": dict(
   text="15 Coq theorems about the star-force model REGENERATED from gear/improvements/starforce*.py and blueprint/gear_blueprint.py on every "
        "run (tables, band scan, max_star, per-star increment, fold, cutoff, build composition): for all metas with req_level >= 0 and all "
        "non-negative reference stats the increment is defined and non-negative up to the cap, the bonus is the fold of increments each "
        "computed on the gear as enhanced so far, hence monotone; a star beyond the cap is refused; cutoff = min(star, cap); build = base + "
        "traces/scrolls + star force on the scrolled gear + bonus + exceptional in any commutative monoid and for the generated Stat algebra.",
   note="Trusted: Coq kernel; translator tools/tr_starforce.py (validated against the implementation and a hand-written reference model on "
        "every case); 'building never alters the blueprint or base gear' is object mutation: tested by deep dumps, not provable in a functional model.",
   technique="Coq proof (induction over the star fold, table facts by vm_compute, abstract monoid theorem) over a model generated from the source + three-way Coq-evaluated correspondence",
   design="7 C17"),
 "C18": dict(
   text="10 Coq theorems over an executable model of the whole bonus inference (greedy single-valued options, decomposition + combinations with "
        "the cumulative decrement as coded, recursive search over the bitmask candidate table): for all gears (req_level >= 0, boss or not, "
        "any attack table) and all observed stats, a returned list has at most 4 options of distinct kinds with valid grades summing exactly "
        "to the observed stat (soundness), and whenever the stat is such a sum the inference does not reject (completeness); the model's "
        "tables equal the tables REGENERATED from the source (vm_compute) and the real candidate table is complete.",
   note="Trusted: Coq kernel; translator tools/tr_bonus.py (runs the tree's own table builders); hypotheses: integer-valued observed stats with "
        "non-negative single-valued fields; binary64 ceil of the weapon attack formula equals its exact reading (checked on all weapon gears).",
   technique="Coq proof (induction on the search budget; finite table facts by vm_compute over regenerated tables) + Coq-evaluated differential run against BonusCalculator.compute",
   design="7 C18"),
 "C19": dict(
   text="67 Coq theorems. 39 over an executable model of StepwizeOptimizer, the step iterator and the weapon-potential brute force, for all value/cost "
        "functions, maxima, budgets, start states: every visited state is within budget, within per-slot limits and >= the start state; "
        "termination; local optimality at termination; determinism; the iterator yields each multiset of <= min(depth,4) increments exactly "
        "once; never-worse under 'value does not fall along a legal step' (the unconditional form is refuted: rewards above -1 are accepted); "
        "weapon potential result is the arg-max over legal combinations and pruning is safe under a stated replacement hypothesis; clone() of "
        "the four targets forwards every constructor parameter (table REGENERATED from the source, vm_compute obligation). For the four REAL "
        "step-wise targets (hyper stat, union squad, union occupation, link; Props/C19_targets.v, 28 theorems) the objective is no longer "
        "abstract: option and cost tables and the targets' own arithmetic are REGENERATED from the source on every run, every table is proved "
        "field-wise non-decreasing and non-negative (finite sweep), get_value is proved monotone in the state through Stat addition and C12's "
        "damage-factor monotonicity, so never-worse, budget, bounds, presets-kept and local optimality hold for them with no monitored "
        "hypothesis (reference block non-negative, armour term >= 0, ignored defence <= 100 - the last one shown necessary by a witness).",
   note="Trusted: Coq kernel; translators tools/tr_fields.py, tools/tr_targets.py (tables by running the tree's loaders, arithmetic by ast; "
        "validated per run against the real target objects); weapon-potential prune safety stays a stated hypothesis; PresetOptimizer "
        "orchestration not modelled; exact rationals vs binary64.",
   technique="Coq proof over a hand-written executable model + Coq-evaluated correspondence with the real StepwizeOptimizer on table targets + generated clone-table obligation + implementation-side monitoring on the real targets",
   design="7 C19"),
 "C20": dict(
   text="17 Coq theorems: for every request sequence, every environment returned through a memoizer (hit or miss, in-memory or file-backed, "
        "across export/import) equals the directly computed one; the independent part always comes from the current request; provider kinds "
        "never share entries; the code-dependent facts (fields read by the memoized part are key fields, key = all fields minus the excluded "
        "ones, class name in the key) are REGENERATED from the source on every run and proved by vm_compute.",
   note="Trusted: Coq kernel; translator tools/tr_memo.py; sha256/JSON key injectivity and serialisation round trips are hypotheses tested on "
        "every history; file system atomicity and concurrent writers outside the model (partial).",
   technique="Coq proof (invariant over request histories) over a hand-written model + generated field-set obligations (translator) + Coq-evaluated hit-trace correspondence with the real memoizers",
   design="7 C20"),
 "C02": dict(
   text="11 Coq theorems for the part of the property that is logic, the rest explored (PARTIAL): (1) the router's route cache never changes an "
        "answer - for every dispatcher list, every sequence of dispatches, every client and any earlier history, the caching RouterDispatcher "
        "answers exactly like the cache-free one, re-entrant dispatch and raising dispatchers included (late install is shown stale by a "
        "computed witness and is reachable from no path of simaple); (2) the engine is a function of its logs (C01); (3) obligations "
        "REGENERATED from the source on every run and decided by vm_compute: no module of the simulation path imports or uses an entropy "
        "source, the process-wide mutable bindings / memo decorators / mutable defaults are exactly the reviewed list, the spec repository "
        "hands out copies. Thread interleavings, hash-seed dependence and library internals cannot be carried by a theorem: they are "
        "explored by the isolation harness (same batch alone in fresh processes vs shuffled orders, 8 threads, other hash seeds, "
        "round-robin engines, after mutating everything the API handed out; digests of every reviewed process-wide object). TandemDispatcher / ContextDispatcher / RouterDispatcher.__call__ are regenerated from the source (tools/tr_dispatch.py) and proved equal to the router model's call_d branches and to one unfolding of dispatch_c (Props/C02_dispatch_src.v). A shape guard (tools/tr_router.py) pins the router / tandem / context / named-dispatcher / timer functions to the reviewed text "
        "the router model was written against.",
   note="Trusted: Coq kernel/vm_compute; translator tools/tr_isolation.py; the router model is tied by Coq-evaluated correspondence with the "
        "real RouterDispatcher (cache hits, call order, events, final cache). PARTIAL: CPython thread scheduling, PYTHONHASHSEED effects, "
        "Lark/PyYAML/pydantic internals are explored, not proved.",
   technique="Coq proof (cache-coherence invariant over dispatch histories) over a hand-written router model + generated isolation obligations (translator -> vm_compute) + Coq-evaluated correspondence + process/thread/hash-seed isolation search",
   design="7 C02"),
 "C16": dict(
   text="20 Coq theorems over tables REGENERATED from data/jobs/resources/**/*.yaml and the patch code on every run: every damage-figure "
        "formula is non-decreasing in its effective level on the documented range (finite sweep lifted by forallb_forall, or a proved "
        "syntactic monotonicity checker when other variables occur) and defined there; textual level substitution = binding; the effective "
        "level is monotone in each of its inputs and an explicit 0 is 0 (after the repair 8eda5ac); for every job, every scalar damage figure "
        "and every stat-block field of every built component is monotone over the whole documented configuration space (raising any single "
        "level is the special case); hexa/v improvement tables monotone; component names unique; a lower-tier skill is built iff its 6th-job "
        "replacement has level 0. 'Building succeeds and any plan runs without raising' is totality of the Python stack: explored (boundary "
        "grid of the seven level axes x 8 jobs, single-axis sweeps, random well-formed plans), not proved (PARTIAL).",
   note="Trusted: Coq kernel/vm_compute; translators tools/tr_yaml.py, tr_core.py (validated per run: every formula evaluated in Coq and through "
        "simaple's own patch chain at sampled levels; built component fields compared with the model's figure values); exact rationals vs "
        "binary64 within 1e-9. cooldown/delay/duration fields are not damage figures and are not covered.",
   technique="Coq proof (finite-range sweeps lifted by forallb_forall + proved monotonicity checker over Q) over tables generated from the YAML specs and patch code (translator) + Coq-evaluated correspondence with get_skill_components + configuration-grid search",
   design="7 C16"),
}

NOT_APPLICABLE = {}

def main():
    props = [json.loads(l)["id"] for l in open("/verif/properties.jsonl")]
    checks = []
    for p in props:
        if p not in CHECKS:
            continue
        c = CHECKS[p]
        checks.append({
            "property_id": p,
            "quick_cmd": "./check %s --tier quick" % p,
            "thorough_cmd": "./check %s --tier thorough" % p,
            "evidence_file": "/verif/evidence/%s.json" % p,
            "replay_cmd_template": "./check %s --replay {path}" % p,
            "engine": "coq",
            "level_claimed": {"category": c.get("category", "proof"), "text": c["text"], "design_ref": "DESIGN.md section " + c["design"]},
            "level_note": c["note"],
            "technique": c["technique"],
        })
    na = [{"property_id": p, "reason": NOT_APPLICABLE.get(p, "check not finished yet in this tree (see DESIGN.md section 10); not claimed rather than claimed weakly")}
          for p in props if p not in CHECKS]
    m = {
        "version": 1,
        "setup_cmd": "./setup.sh",
        "hooks": {"guard": "SIMAPLE_VERIF", "enable": "export SIMAPLE_VERIF=1 (no source hooks are needed: the harnesses use the public API)",
                  "baseline_off_cmd": "cd /repo && /venv/bin/python -m pytest -q -p no:cacheprovider --timeout=900",
                  "source_commits": [], "add_only": True},
        "engines": [{"name": "coq", "path": "/verif/coq", "serves_properties": [c["property_id"] for c in checks],
                     "kind_free_text": "Coq 8.16.1 development: models generated by translators (coq/gen) or hand-written (coq/theories/Model), proofs in coq/theories/Proofs, property statements in coq/theories/Props; tools/ holds translators, correspondence harnesses and implementation-side searches"}],
        "checks": checks,
        "not_applicable": na,
        "notes": "Every check regenerates its models from /repo's working tree, rebuilds the Coq obligations, runs the model/implementation correspondence and an implementation-side search; see DESIGN.md.",
    }
    json.dump(m, open("/verif/MANIFEST.json", "w"), indent=1)
    print("checks:", [c["property_id"] for c in checks])

main()
