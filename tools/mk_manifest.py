"""Writes MANIFEST.json from the table below (kept in one place so it stays valid)."""
import json

CHECKS = {
 "C11": dict(
   text="Machine-checked proof (Coq) of the monoid laws, permutation invariance of sum, agreement of +, += and sum, "
        "multiplicative final-damage/defence-ignore, additivity and n-fold stacking of every declared field, for all "
        "rational stat blocks, about a Coq model REGENERATED from simaple/core/base.py on every run; the translator is "
        "validated on every run bit-for-bit (binary64 twin) and by exact rationals against the Python methods.",
   note="Trusted: Coq kernel/vm_compute; translator tools/lib/pynum.py + tr_core.py; numbers idealised as rationals "
        "(laws are false in floating point); pydantic construction/dump not modelled (tested only).",
   technique="Coq proof over a model generated from the source (translator) + bit-exact twin correspondence",
   design="7 C11"),
 "C12": dict(
   text="Machine-checked proofs about the definitions REGENERATED from core/damage.py, core/base.py and report/dpm.py on every "
        "run: for each of the five damage logics the damage and DOT factors are non-negative and non-decreasing in every one of "
        "the 27 stat fields simultaneously (non-negative block, armour >= 0, armour term >= 0), calculated damage is linear in "
        "damage% and hits; the cooldown equals the reference formula and is monotone in flat and percent reduction, <= base, >= "
        "floors; the level-gap advantage is total, in [0,1.2] and antitone for ALL integer level pairs.",
   note="Trusted: Coq kernel/vm_compute; translator pynum.py/tr_core.py (validated bit-exactly by the binary64 twin and by "
        "rationals each run); numbers idealised as rationals; hypotheses 0<=mastery<=1, 0<=rate<=100, non-negative reductions.",
   technique="Coq proof (nra/lra over Q) over a model generated from the source + twin correspondence + exhaustive level grid",
   design="7 C12"),
 "C01": dict(
   text="Coq theorems C01_resume_fresh_engine / C01_state_in_log: for EVERY store type, play function (router), save/restore with "
        "restore(save s)=s, clock, hash, plan and cut index, reloading the logs recorded up to the cut into a fresh engine and "
        "executing the rest yields the same logs (actions, events, clocks, checkpoints, previous-hash links) and an "
        "observationally equal engine; proved by the invariant 'engine = of_logs(its logs)'. The hand-written engine model is "
        "executed in Coq against the play table recorded from real engines on the same resume scenarios and must reproduce "
        "the implementation's logs; the resume experiment itself is also run on the implementation.",
   note="Trusted: Coq kernel; hypotheses restore∘save=id and play is a function (exercised/checked on every run); the component "
        "code, pydantic and hashlib enter only through the recorded play table; correspondence is sampled, not exhaustive.",
   technique="Coq proof (invariant + bisimulation) over a hand-written engine model + trace-driven correspondence in Coq",
   design="7 C01"),
 "C03": dict(
   text="Coq theorems C03_rollback_fresh_engine (any interleaving of exec/rollback = fresh run of the surviving commands: same "
        "logs, current store, buffered events, hence views and all further results), C03_hash_chain (every reachable history "
        "links previous-hash to the predecessor's hash), C03_hash_is_a_function, for every instantiation of the engine; model "
        "executed in Coq on recorded play tables for random and small-depth exhaustive exec/rollback words.",
   note="Trusted as C01. 'A hash locates its log' depends on sha1 collision-freeness: tested on the implementation "
        "(get_hash_index on every history), not proved.",
   technique="Coq proof (induction over step lists) over the engine model + trace-driven correspondence",
   design="7 C03"),
 "C04": dict(
   text="Coq theorems C04_hint_eq_full_run and C04_hint_chain: for every engine instantiation, previous plan and new plan, the "
        "model of run_plan_with_hint (double common-prefix test, step back to a log with checkpoints, reload, re-extract with "
        "every-10th checkpoint retention) returns exactly the extraction of the full run, also when the hint is itself an "
        "incremental output; the model is executed in Coq on play tables recorded from run_plan/run_plan_with_hint and must "
        "reproduce their responses; the JSON equality itself is checked on the implementation for every generated edit.",
   note="Trusted as C01 plus: response fields other than events/clock/action/checkpoint are functions of the checkpoint "
        "(checked per run); plan parsing/YAML/environment construction outside the model.",
   technique="Coq proof over the engine+api model + trace-driven correspondence on edit chains",
   design="7 C04"),
 "C05": dict(
   text="Coq theorems about play() for EVERY store type and router: the actions handed to the router at the next action are exactly "
        "rev(emitted callbacks of the previous events) ++ [action] ++ done callbacks (each carrying name, (method, tag), payload), "
        "nothing of an older action survives, and checkpoint+restore in between is transparent. The model's queue is compared in "
        "Coq with the exact list of actions the real router received, for every play of recorded runs incl. reloads/rollbacks.",
   note="Trusted: Coq kernel; restore∘save=id; listener matching lives inside the router (quantified over, not modelled); "
        "correspondence sampled over jobs/plans.",
   technique="Coq proof over a hand-written model of play() + router-level dispatch correspondence evaluated in Coq",
   design="7 C05"),
 "C06": dict(
   text="Coq theorems: one play advances the clock by exactly the payload of its direct *.elapse action (relayed callbacks add "
        "nothing); each command advances it by its documented amount (ELAPSE t / first positive delay of the CAST's own play / "
        "pending delay of the named skill for RESOLVE / 0 for USE, KEYDOWNSTOP); play-log payloads add up; the clock is monotone "
        "under non-negative ELAPSE. For every router whose components do not write the clock. Documented advance evaluated in Coq "
        "on recorded logs and compared with recorded clocks; the frame hypothesis and elapsed-payload clause monitored per play.",
   note="Trusted: Coq kernel; frame hypothesis (monitored); tick-valued time (binary64 rounding of clock additions outside); "
        "'elapsed carries the elapse time' is proved per modelled component under C09/C07, monitored for the rest.",
   technique="Coq proof over models of play(), timer and operation handlers + clock correspondence evaluated in Coq",
   design="7 C06"),
}

NOT_APPLICABLE = {}

def main():
    props = [json.loads(l)["id"] for l in open("/verif/properties.jsonl")]
    checks = []
    for p in props:
        if p not in CHECKS:
            continue
        c = CHECKS[p]
        checks.append({
            "property_id": p,
            "quick_cmd": "./check %s --tier quick" % p,
            "thorough_cmd": "./check %s --tier thorough" % p,
            "evidence_file": "/verif/evidence/%s.json" % p,
            "replay_cmd_template": "./check %s --replay {path}" % p,
            "engine": "coq",
            "level_claimed": {"category": c.get("category", "proof"), "text": c["text"], "design_ref": "DESIGN.md section " + c["design"]},
            "level_note": c["note"],
            "technique": c["technique"],
        })
    na = [{"property_id": p, "reason": NOT_APPLICABLE.get(p, "check not finished yet in this tree (see DESIGN.md section 10); not claimed rather than claimed weakly")}
          for p in props if p not in CHECKS]
    m = {
        "version": 1,
        "setup_cmd": "./setup.sh",
        "hooks": {"guard": "SIMAPLE_VERIF", "enable": "export SIMAPLE_VERIF=1 (no source hooks are needed: the harnesses use the public API)",
                  "baseline_off_cmd": "cd /repo && /venv/bin/python -m pytest -q -p no:cacheprovider --timeout=900",
                  "source_commits": [], "add_only": True},
        "engines": [{"name": "coq", "path": "/verif/coq", "serves_properties": [c["property_id"] for c in checks],
                     "kind_free_text": "Coq 8.16.1 development: models generated by translators (coq/gen) or hand-written (coq/theories/Model), proofs in coq/theories/Proofs, property statements in coq/theories/Props; tools/ holds translators, correspondence harnesses and implementation-side searches"}],
        "checks": checks,
        "not_applicable": na,
        "notes": "Every check regenerates its models from /repo's working tree, rebuilds the Coq obligations, runs the model/implementation correspondence and an implementation-side search; see DESIGN.md.",
    }
    json.dump(m, open("/verif/MANIFEST.json", "w"), indent=1)
    print("checks:", [c["property_id"] for c in checks])

main()
