#!/bin/bash
# dev_psweep_seeds.sh [-j N] [ids...] : like dev_sweep_seeds.sh but never touches /repo's working tree: every seeded change
# is applied to its own scratch git worktree under /tmp and the property's quick check runs with VERIF_REPO pointing
# there (N seeds in parallel).  A seed reported as missed here must be confirmed on /repo itself (dev_sweep_seeds.sh).
cd /verif
J=3
if [ "$1" = "-j" ]; then J=$2; shift 2; fi
IDS=${@:-$(ls seeded)}
mkdir -p /tmp/psweep
one() {
  NAME=$1
  P=$(/venv/bin/python -c "import json;print(json.load(open('/verif/seeded/$NAME/meta.json'))['property'])")
  W=/tmp/psweep/wt_$NAME
  git -C /repo worktree remove --force $W >/dev/null 2>&1; rm -rf $W
  git -C /repo worktree add --detach -q $W HEAD || { echo "$NAME: cannot create worktree"; return; }
  if ! git -C $W apply /verif/seeded/$NAME/patch.diff 2>/tmp/psweep/$NAME.apply; then
     echo "$NAME ($P): patch no longer applies: $(tail -1 /tmp/psweep/$NAME.apply)"
  else
     S=$(date +%s)
     VERIF_REPO=$W ./check $P --tier quick > /tmp/psweep/$NAME.check 2>&1; RC=$?
     V=$(grep -c "^VIOLATION" /tmp/psweep/$NAME.check)
     echo "$NAME ($P): exit $RC, $V VIOLATION line(s), $(( $(date +%s)-S ))s: $(grep '^VIOLATION' /tmp/psweep/$NAME.check | head -1 | cut -c1-110)"
  fi
  git -C /repo worktree remove --force $W >/dev/null 2>&1; rm -rf $W
}
export -f one
echo $IDS | tr ' ' '\n' | xargs -P $J -I{} bash -c 'one {}'
git -C /repo worktree prune
