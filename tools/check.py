"""Driver: ./check Cxx [--tier quick|thorough] [--replay file].

Exit 0 = property held on everything explored; exit 1 + `VIOLATION property=.. replay=..`
otherwise. Any internal error of the machinery is reported as exit 2 (never as a verdict)."""
import argparse
import importlib
import os
import sys
import traceback

sys.path.insert(0, "/verif/tools")
sys.path.insert(0, os.environ.get("VERIF_REPO", "/repo"))


def main():
    ap = argparse.ArgumentParser()
    ap.add_argument("prop")
    ap.add_argument("--tier", default=os.environ.get("VERIF_TIER", "quick"), choices=["quick", "thorough"])
    ap.add_argument("--replay", default=None)
    a = ap.parse_args()
    seed = int(os.environ.get("VERIF_SEED", "20260929"))
    from lib.vf import Ctx
    mod = importlib.import_module("props." + a.prop.lower())
    ctx = Ctx(a.prop, a.tier, seed)
    if a.replay:
        sys.exit(mod.replay(ctx, a.replay))
    sys.exit(mod.run(ctx))


if __name__ == "__main__":
    try:
        main()
    except SystemExit:
        raise
    except BaseException:
        traceback.print_exc()
        sys.exit(2)
