"""T-effects: Python `ast` -> effect skeletons in the language of coq/theories/Model/Effects.v.

`gen(repo)` reads every class with `@reducer_method` / `@view_method` methods under
simaple/simulate/component (common, specific, skill.py), the traits, the entities and every helper
they call, and emits `Effects_skeletons.v`: one skeleton per function, one summary per callee (and
per return class), the lists `all_reducers`, `all_views`, `all_summaries`, and the unit examples
`bad_examples` / `good_examples` (EXAMPLES below, translated by the same code).

What is TRUSTED here (validated at run time by tools/lib/h_effects.py and by the unit examples):
the classification of Python statements into effects.  The rules, all meant to over-approximate:

  * var 0 = "the globals" (never fresh); parameters 1..n; a parameter annotated with an immutable
    type (float/int/str/bool/None) is re-bound to a fresh value at entry; a parameter that is
    assigned in the body is copied into a local first (parameters are never re-bound);
  * `x = y` alias; `e.attr`, `e[k]`, iteration: SFrom [e] -- except attributes declared with an
    immutable annotation (in the static class of `e` when it is known, else in EVERY class that
    declares that name; `Tag.DAMAGE = "..."` counts): immutable values are indistinguishable from
    fresh copies.  Static classes come from annotations (parameters, fields, TypeVar bounds,
    return types), which are trusted to be truthful;
  * `v.f` for a local `v` and a field name `f` that is NEVER the target of an assignment anywhere
    in the analysed files (and no setattr/__dict__ is used): read once, when `v` is bound -- the
    same object every time;
  * literals, comprehensions, constructors `C(a, b)`, arithmetic on unknown operands, concatenation,
    slices, shallow copies (`model_copy()`, `list(x)`): SNew [parts]; `deepcopy()`,
    `model_copy(deep=True)`, `model_dump()`, arithmetic on immutable values: SNew [];
  * `x.attr = y`, `x[k] = y`, `x.append(y)`: Store x y (on `self` of a component/trait: WriteSelf);
    `x += y`: `__iadd__` of the static class, else an in-place Store or a re-binding;
  * a call `recv.m(args)` / `f(args)` is resolved BY NAME AND ARITY to the analysed definitions of
    that name -- narrowed to the family (ancestors, descendants; all component-like classes for a
    component/trait) of the receiver's static class when it is known -- joined with the built-in
    meaning of that method name if it has one; Protocol stubs and abstract methods are not
    definitions; properties are calls; generators act at every iteration; a name-recursive call
    mutates its arguments and returns something reachable from them or the globals; an unknown
    method mutates its receiver and arguments; an unknown function, a method of an object imported
    from outside simaple, or anything from random/time/os/... is Impure;
  * a callee is summarised by roles of its parameters (deeply mutated / modified at top level /
    stored / returned), inferred here with the Python mirror of the checker and JUSTIFIED in Coq;
  * returns are classed: class 1 = the returned events are `[<provider>.rejected()]` (or a variable
    known to hold such a list); at `a, b = f(..)` and `return f(..)` the analysis follows the two
    classes of the callee separately, and `is_rejected(b)` is decided on the class-1 path (the two
    source facts this rests on are re-verified syntactically: Translator.verify_reject_facts);
  * `break`/`continue`: the rest of the loop body is skipped (the loop rule allows any number of
    iterations); `raise`: Return []; `yield v`: "may return v here".
  Unsupported syntax (try/with/lambda/nested def/global/del/unknown decorator...) in a reachable
  function is a translator error: that function becomes a single Impure step (fail closed).
"""
from __future__ import annotations

import ast
import itertools
import pathlib
from collections import Counter

G = 0   # the variable that stands for global / unknown protected objects

PRIM_NAMES = {"float", "int", "str", "bool", "None", "complex", "bytes"}
IMPURE_MODULES = {"random", "time", "datetime", "os", "sys", "uuid", "secrets", "logging", "loguru", "logger", "socket",
                  "subprocess", "pathlib", "shutil", "io", "threading", "numpy", "np", "requests", "pickle", "json", "yaml"}
PURE_MODULES = {"math", "typing", "functools", "operator", "itertools", "enum", "abc", "pydantic", "fractions", "decimal"}
KNOWN_DECORATORS = {"reducer_method", "view_method", "property", "classmethod", "staticmethod", "abstractmethod",
                    "ignore_rejected"}
BINOP_DUNDER = {ast.Add: "add", ast.Sub: "sub", ast.Mult: "mul", ast.Div: "truediv", ast.FloorDiv: "floordiv",
                ast.Mod: "mod", ast.Pow: "pow", ast.BitOr: "or", ast.BitAnd: "and", ast.BitXor: "xor",
                ast.LShift: "lshift", ast.RShift: "rshift", ast.MatMult: "matmul"}

# built-in functions: name -> kind
BI_FRESH = {"int", "float", "len", "abs", "round", "any", "all", "isinstance", "issubclass", "bool", "str", "range", "repr",
            "divmod", "pow", "ord", "chr", "format", "callable", "hasattr"}
BI_GLOBAL = {"type"}          # returns a shared, pre-existing object
BI_FROM = {"min", "max", "next", "iter", "getattr", "cast"}
BI_NEW = {"list", "tuple", "set", "frozenset", "dict", "sorted", "reversed", "enumerate", "zip", "sum", "map", "filter"}
BI_IMPURE = {"print", "open", "input", "exec", "eval", "compile", "globals", "locals", "vars", "setattr", "delattr",
             "__import__", "breakpoint", "id", "hash", "object"}

# built-in / pydantic methods by name: kind
M_FRESH = {"model_dump", "model_dump_json", "dict", "json", "format", "join", "replace", "startswith", "endswith", "split",
           "strip", "lower", "upper", "count", "index", "is_integer", "as_integer_ratio", "isdigit", "encode", "decode",
           "model_json_schema", "total_seconds", "bit_length", "hex", "title", "lstrip", "rstrip", "zfill", "find"}
M_FROM = {"items", "values", "keys", "get", "__getitem__"}
M_SHALLOW = {"copy", "union", "intersection", "difference", "model_validate", "model_construct"}
M_STORE = {"append", "add", "extend", "update", "insert", "appendleft", "setdefault", "__setitem__"}
M_SHALLOW_MUT = {"pop", "remove", "clear", "sort", "reverse", "popitem", "popleft", "discard"}


class TranslatorError(Exception):
    pass


# ============================================================================ source model
class Fn:
    def __init__(self, key, node, cls, mod, kind):
        self.key, self.node, self.cls, self.mod, self.kind = key, node, cls, mod, kind
        a = node.args
        self.params = [x.arg for x in a.posonlyargs + a.args]
        self.kwonly = [x.arg for x in a.kwonlyargs]
        self.vararg = a.vararg.arg if a.vararg else None
        self.kwarg = a.kwarg.arg if a.kwarg else None
        self.ann = {x.arg: x.annotation for x in a.posonlyargs + a.args + a.kwonlyargs}
        self.ndefaults = len(a.defaults)
        self.decorators = [deco_name(d) for d in node.decorator_list]
        self.is_property = "property" in self.decorators
        self.is_gen = any(isinstance(n, (ast.Yield, ast.YieldFrom)) for n in walk_fn(node))
        self.skel = None
        self.shape = None
        self.summary = None     # dict(ok, mut, rets)
        self.error = None
        self.wrapped = None     # inner Fn for @ignore_rejected
        self.stats = Counter()

    def all_params(self):
        return self.params + self.kwonly


def deco_name(d):
    if isinstance(d, ast.Call):
        d = d.func
    if isinstance(d, ast.Attribute):
        return d.attr
    if isinstance(d, ast.Name):
        return d.id
    return ast.unparse(d)


def ends(body) -> bool:
    """every path through `body` ends in return/raise (syntactic)"""
    if not body:
        return False
    last = body[-1]
    if isinstance(last, (ast.Return, ast.Raise)):
        return True
    if isinstance(last, ast.If):
        return ends(last.body) and ends(last.orelse)
    return False


def walk_fn(node):
    """walk the body of a function without entering nested function/class definitions"""
    todo = list(node.body)
    while todo:
        n = todo.pop()
        yield n
        for c in ast.iter_child_nodes(n):
            if isinstance(c, (ast.FunctionDef, ast.AsyncFunctionDef, ast.ClassDef, ast.Lambda)):
                yield c
                continue
            todo.append(c)


def is_prim_ann(a) -> bool:
    if a is None:
        return False
    if isinstance(a, ast.Constant):
        return a.value is None or (isinstance(a.value, str) and a.value in PRIM_NAMES)
    if isinstance(a, ast.Name):
        return a.id in PRIM_NAMES
    if isinstance(a, ast.Subscript):
        base = a.value.id if isinstance(a.value, ast.Name) else (a.value.attr if isinstance(a.value, ast.Attribute) else "")
        if base in ("Optional", "Union", "Final"):
            elts = a.slice.elts if isinstance(a.slice, ast.Tuple) else [a.slice]
            return all(is_prim_ann(e) for e in elts)
        if base == "Literal":
            return True
        if base in ("tuple", "Tuple"):
            elts = a.slice.elts if isinstance(a.slice, ast.Tuple) else [a.slice]
            return all(is_prim_ann(e) or (isinstance(e, ast.Constant) and e.value is Ellipsis) for e in elts)
        return False
    if isinstance(a, ast.BinOp) and isinstance(a.op, ast.BitOr):
        return is_prim_ann(a.left) and is_prim_ann(a.right)
    return False


class Source:
    """Everything parsed from the tree: classes, functions, imports, attribute kinds."""

    FILES = ["simulate/component", "simulate/event.py", "simulate/global_property.py", "simulate/reserved_names.py",
             "core/base.py"]

    def __init__(self, repo):
        self.root = pathlib.Path(repo) / "simaple"
        self.files = []
        for f in self.FILES:
            p = self.root / f
            self.files += sorted(p.rglob("*.py")) if p.is_dir() else [p]
        self.methods = {}        # name -> [Fn]   (methods of any class)
        self.functions = {}      # name -> [Fn]   (module level)
        self.properties = {}     # name -> [Fn]
        self.classes = {}        # name -> (module, ClassDef)
        self.bases = {}          # class name -> [base names]
        self.mod_imports = {}    # module -> {local name: (module path, attr or None)}
        self.mod_globals = {}    # module -> set of module-level names
        self.attr_decl = {}      # attr -> [bool is_prim]
        self.class_fields = {}   # class -> {attr: annotation}
        self.typevars = {}       # TypeVar name -> bound class name
        self.assigned_fields = set()   # attribute names that are the target of an assignment somewhere
        self.reflection = False        # setattr / __dict__ / __setattr__ seen: no field is known to be stable
        self.fns = []
        self.texts = {}
        for p in self.files:
            self.load(p)

    def load(self, path, text=None):
        mod = str(path.relative_to(self.root))[:-3].replace("/", ".")
        text = path.read_text() if text is None else text
        self.texts[mod] = text
        tree = ast.parse(text)
        imports, globs = {}, set()
        for n in ast.walk(tree):
            if isinstance(n, ast.Attribute) and isinstance(n.ctx, (ast.Store, ast.Del)):
                inits = False
                self.assigned_fields.add(n.attr)
            if (isinstance(n, ast.Name) and n.id in ("setattr", "delattr", "__setattr__")) or \
                    (isinstance(n, ast.Attribute) and n.attr in ("__dict__", "__setattr__", "__delattr__")):
                self.reflection = True
        for n in tree.body:
            if isinstance(n, ast.Import):
                for a in n.names:
                    imports[(a.asname or a.name).split(".")[0]] = (a.name, None)
            elif isinstance(n, ast.ImportFrom):
                for a in n.names:
                    imports[a.asname or a.name] = (n.module or "", a.name)
            elif isinstance(n, ast.FunctionDef):
                globs.add(n.name)
                self.add_fn(Fn("%s:%s" % (mod.split(".")[-1], n.name), n, None, mod, "function"), self.functions, n.name)
            elif isinstance(n, ast.ClassDef):
                globs.add(n.name)
                self.load_class(n, mod)
            elif isinstance(n, (ast.Assign, ast.AnnAssign)):
                for t in (n.targets if isinstance(n, ast.Assign) else [n.target]):
                    if isinstance(t, ast.Name):
                        globs.add(t.id)
                        v = n.value
                        if isinstance(v, ast.Call) and isinstance(v.func, ast.Name) and v.func.id == "TypeVar":
                            for k in v.keywords:
                                if k.arg == "bound" and isinstance(k.value, ast.Name):
                                    self.typevars[t.id] = k.value.id
        self.mod_imports[mod] = imports
        self.mod_globals[mod] = globs

    def add_fn(self, fn, table, name):
        table.setdefault(name, []).append(fn)
        self.fns.append(fn)

    def load_class(self, c, mod):
        self.classes[c.name] = (mod, c)
        self.bases[c.name] = [b.id if isinstance(b, ast.Name) else (b.attr if isinstance(b, ast.Attribute) else ast.unparse(b))
                              for b in c.bases]
        for n in c.body:
            if isinstance(n, ast.FunctionDef):
                decos = [deco_name(d) for d in n.decorator_list]
                kind = "reducer" if "reducer_method" in decos else "view" if "view_method" in decos else "method"
                fn = Fn("%s.%s" % (c.name, n.name), n, c.name, mod, kind)
                if fn.is_property:
                    self.add_fn(fn, self.properties, n.name)
                else:
                    self.add_fn(fn, self.methods, n.name)
                if n.name == "__init__":
                    for s in ast.walk(n):
                        if isinstance(s, ast.Assign) and len(s.targets) == 1 and isinstance(s.targets[0], ast.Attribute) \
                                and isinstance(s.targets[0].value, ast.Name) and s.targets[0].value.id == "self":
                            prim = isinstance(s.value, ast.Constant) or (
                                isinstance(s.value, ast.Name) and is_prim_ann(fn.ann.get(s.value.id)))
                            self.attr_decl.setdefault(s.targets[0].attr, []).append(prim)
                            if isinstance(s.value, ast.Name) and fn.ann.get(s.value.id) is not None:
                                self.class_fields.setdefault(c.name, {}).setdefault(s.targets[0].attr, fn.ann[s.value.id])
            elif isinstance(n, ast.AnnAssign) and isinstance(n.target, ast.Name):
                self.attr_decl.setdefault(n.target.id, []).append(is_prim_ann(n.annotation))
                self.class_fields.setdefault(c.name, {})[n.target.id] = n.annotation
            elif isinstance(n, ast.Assign):
                for t in n.targets:
                    if isinstance(t, ast.Name):
                        self.attr_decl.setdefault(t.id, []).append(
                            isinstance(n.value, ast.Constant) and not isinstance(n.value.value, (bytes,)))
            elif isinstance(n, ast.ClassDef):
                pass

    def prim_attr(self, name) -> bool:
        d = self.attr_decl.get(name)
        return bool(d) and all(d) and name not in self.properties and name not in self.methods

    def ancestors(self, cname, seen=None):
        seen = seen if seen is not None else set()
        for b in self.bases.get(cname, []):
            if b not in seen:
                seen.add(b)
                self.ancestors(b, seen)
        return seen

    def is_protocol(self, cname) -> bool:
        return cname is not None and "Protocol" in (self.ancestors(cname) | set(self.bases.get(cname, [])))

    def descendants(self, cname):
        return {c for c in self.classes if cname in self.ancestors(c)}

    def family(self, cname):
        """classes whose definitions a call on a receiver of static type `cname` may reach"""
        if self.component_like(cname):
            return {c for c in self.classes if self.component_like(c)}
        return {cname} | self.ancestors(cname) | self.descendants(cname)

    def field_ann(self, cname, attr):
        for c in [cname] + sorted(self.ancestors(cname)):
            a = self.class_fields.get(c, {}).get(attr)
            if a is not None:
                return a
        return None

    def is_stub(self, fn) -> bool:
        return "abstractmethod" in fn.decorators or self.is_protocol(fn.cls)

    def ann_type(self, a):
        """static type of an annotation: a known class name, 'PRIM', ('list', t) or None"""
        if a is None:
            return None
        if is_prim_ann(a):
            return "PRIM"
        if isinstance(a, ast.Constant) and isinstance(a.value, str):
            return a.value if a.value in self.classes else None
        if isinstance(a, ast.Name):
            if a.id in self.classes:
                return a.id
            if a.id in self.typevars:
                return self.typevars[a.id]
            return None
        if isinstance(a, ast.Subscript) and isinstance(a.value, ast.Name):
            if a.value.id in ("list", "List", "Sequence", "Iterable", "set", "frozenset"):
                t = self.ann_type(a.slice)
                return ("list", t) if t else None
            if a.value.id == "Optional":
                return self.ann_type(a.slice)
        return None

    def component_like(self, cname) -> bool:
        if cname is None:
            return False
        a = self.ancestors(cname) | {cname}
        return bool(a & {"Component", "ComponentTrait", "SkillComponent"})


# ============================================================================ the checker (mirror of Model/Effects.v)
DEAD = None


def _rm(x, s):
    return tuple(v for v in s if v != x)


def _rmall(xs, s):
    return tuple(v for v in s if v not in xs)


def _inter(a, b):
    return tuple(v for v in a if v in b)


def meet(a, b):
    if a is DEAD:
        return b
    if b is DEAD:
        return a
    return (_inter(a[0], b[0]), _inter(a[1], b[1]), _inter(a[2], b[2]))


def le(a, b):
    if b is DEAD:
        return True
    if a is DEAD:
        return False
    return all(set(a[i]) <= set(b[i]) for i in range(3))


class Reject(Exception):
    def __init__(self, stmt, why):
        self.stmt, self.why = stmt, why


class Checker:
    """Exactly the algorithm of `check` in Model/Effects.v, plus bookkeeping for the evidence."""

    def __init__(self, retok, pinned, tally=None):
        self.retok, self.pinned, self.tally = retok, tuple(pinned), tally

    def note(self, kind, st):
        if self.tally is not None:
            self.tally.setdefault(kind, set()).add(id(st))

    def bind(self, x, src, s):
        sd, ss, iso = s
        sd0, ss0, iso0 = _rm(x, sd), _rm(x, ss), _rm(x, iso)
        k, a = src
        if k == "Alias":
            if a == x:
                return s
            return ((x,) + sd0 if a in sd else sd0, (x,) + ss0 if a in ss else ss0, _rm(a, iso0))
        alld = all(y in sd for y in a)
        if k == "From":
            return ((x,) + sd0, (x,) + ss0, _rmall(a, iso0)) if alld else (sd0, ss0, iso0)
        if k == "New":
            return ((x,) + sd0, (x,) + ss0, (x,) + _rmall(a, iso0)) if alld else (sd0, (x,) + ss0, (x,) + iso0)
        raise AssertionError(src)

    def check(self, st, s):
        if s is DEAD:
            return DEAD
        sd, ss, iso = s
        op = st[0]
        if op == "Bind":
            if st[1] in self.pinned:
                raise Reject(st, "re-binds a pinned (mutated) parameter")
            if st[2][0] in ("From", "Alias"):
                srcs = st[2][1] if st[2][0] == "From" else [st[2][1]]
                self.note("borrowed_read" if not all(y in sd for y in srcs) else "fresh_read", st)
            return self.bind(st[1], st[2], s)
        if op == "Mut":
            bad = [x for x in st[1] if x not in sd]
            if bad:
                raise Reject(st, "mutation of an object that is not known to be deep-fresh (variables %s)" % bad)
            self.note("mutate_after_fresh", st)
            return (sd, ss, _rmall(st[1], iso))
        if op == "Store":
            x, y = st[1], st[2]
            if x not in ss:
                raise Reject(st, "store into an object that is not known to be fresh (variable %d)" % x)
            self.note("store_into_fresh", st)
            if y in sd:
                return (sd, ss, _rm(y, iso))
            return (_rm(x, sd) if x in iso else (), ss, iso)
        if op == "WriteSelf":
            raise Reject(st, "assignment to an attribute of the component (self)")
        if op == "Impure":
            raise Reject(st, "impure step: %s" % (st[1] if len(st) > 1 else ""))
        if op == "If":
            return meet(self.checks(st[1], s), self.checks(st[2], s))
        if op == "Loop":
            inv = s
            for _ in range(1 + len(sd) + len(ss) + len(iso)):
                out = self.checks(st[1], inv)
                if le(inv, out):
                    return inv
                inv = meet(inv, out)
            raise Reject(st, "no loop invariant found")
        if op == "Return":
            if not self.retok(st[1], s):
                raise Reject(st, "return: a summary claim does not hold here")
            return DEAD
        raise AssertionError(st)

    def checks(self, l, s):
        for st in l:
            s = self.check(st, s)
        return s


def any_ret(rs, s):
    return True


def ret_deep(m):
    return lambda rs, s: s is DEAD or all(x in s[0] for x in m)


def ret_leaf(m, k):
    def f(rs, s):
        if s is DEAD:
            return True
        if not all(x in s[0] for x in m):
            return False
        if not rs:
            return True
        return k < len(rs) and rs[k] in s[0]
    return f


def safe(skel, tally=None):
    """(ok, reason)"""
    try:
        Checker(any_ret, (), tally).checks(skel, ((), (), ()))
        return True, None
    except Reject as r:
        return False, "%s  [%s]" % (r.why, show_stmt(r.stmt))


def check_from(retok, pinned, deep, shallow, skel, tally=None):
    try:
        Checker(retok, pinned, tally).checks(skel, (tuple(deep), tuple(deep) + tuple(shallow), ()))
        return True
    except Reject:
        return False


def effects_ok(skel, m, t):
    return check_from(ret_deep(m), list(m) + list(t), m, t, skel)


def sources_ok(skel, m, t, j):
    return check_from(ret_deep(list(m) + list(t)), list(m) + list(t), list(m) + list(t) + list(j), [], skel)


def leaf_ok(skel, m, t, k, r):
    return check_from(ret_leaf(m, k), list(m) + list(t), list(m) + list(r), t, skel)


def justified(skel, sm_mut, sm_top, sm_src, rets):
    return effects_ok(skel, sm_mut, sm_top) and sources_ok(skel, sm_mut, sm_top, sm_src) and \
        all(r is None or leaf_ok(skel, sm_mut, sm_top, k, r) for k, r in enumerate(rets))


def variant(skel, tag):
    """the skeleton in which the returns of the other classes claim nothing"""
    out = []
    for st in skel:
        if st[0] == "Return":
            out.append(st if (st[2] if len(st) > 2 else 0) == tag else ("Return", [], st[2] if len(st) > 2 else 0))
        elif st[0] == "If":
            out.append(("If", variant(st[1], tag), variant(st[2], tag)))
        elif st[0] == "Loop":
            out.append(("Loop", variant(st[1], tag)))
        else:
            out.append(st)
    return out


def show_stmt(st):
    if st[0] == "Bind":
        return "Bind %d (%s %s)" % (st[1], st[2][0], st[2][1])
    if st[0] in ("If", "Loop"):
        return st[0] + " ..."
    return " ".join(str(x) for x in st)


# ============================================================================ shapes of returned values
def shape_of(val):
    if val[0] == "T":
        return ("T", [shape_of(v) for v in val[1]])
    if val[0] == "L":
        return ("L", shape_of(val[1]))
    return "leaf"


def join_shape(a, b):
    if a is None:
        return b
    if b is None:
        return a
    if a == "leaf" or b == "leaf" or a[0] != b[0]:
        return "leaf"
    if a[0] == "T":
        if len(a[1]) != len(b[1]):
            return "leaf"
        return ("T", [join_shape(x, y) for x, y in zip(a[1], b[1])])
    return ("L", join_shape(a[1], b[1]))


def n_leaves(sh):
    if sh == "leaf":
        return 1
    if sh[0] == "T":
        return sum(n_leaves(s) for s in sh[1])
    return n_leaves(sh[1])


# ============================================================================ translation of one function
class CallRes:
    """A desugared call: its effects (re-emitted at every iteration for a generator) and, per return class of the
    callee (0 = any, 1 = certainly rejected), where each returned leaf may come from."""

    def __init__(self, t, direct=None):
        self.t, self.direct = t, direct
        self.results = []      # (shape, {tag: [sources of leaf k | None]})
        self.mut, self.stores = [], []
        self.gen = False
        self.alts = {0}

    def effects(self):
        t = self.t
        mut = list(dict.fromkeys(self.mut))
        if mut:
            t.emit(("Mut", mut))
        for tv, sv, deep in dict.fromkeys(self.stores):
            if deep:       # somewhere inside tv
                inner = t.new()
                t.emit(("Bind", inner, ("From", [tv])))
                tv = inner
            if sv is None:
                sv = t.new()
                t.emit(("Bind", sv, ("New", [])))
            t.emit(("Store", tv, sv))

    def finish(self, tags=None):
        t = self.t
        if self.direct is not None:
            return self.direct
        rs = [(sh, by[k]) for sh, by in self.results for k in by if tags is None or k in tags]
        sh = None
        for s_, _ in rs:
            sh = join_shape(sh, s_)
        nl = n_leaves(sh)
        srcs = [[] for _ in range(nl)]
        unknown = [False] * nl
        for s_, leaves in rs:
            if t.same_layout(s_, sh):
                pairs = [(k, r) for k, r in enumerate(leaves)]
            else:   # collapsed: every leaf of this result may flow into every leaf
                pairs = [(k, r) for k in range(nl) for r in leaves]
            for k, r in pairs:
                if r is None:
                    unknown[k] = True
                else:
                    srcs[k] += r
        touched = list(dict.fromkeys(self.mut + [tv for tv, _, _ in self.stores]))
        leaves, prev = [], []
        if nl == 1 and not touched and not srcs[0] and not unknown[0]:
            leaves = [("s", ("New", []))]
        else:
            for k in range(nl):
                x = t.new()
                t.emit(("Bind", x, ("From", list(dict.fromkeys(touched + srcs[k] + prev + ([G] if unknown[k] else []))))))
                leaves.append(("v", x))
                prev.append(x)
        return t.build(sh, iter(leaves))


class FnTr:
    def __init__(self, tr, fn: Fn, wrapper_of=None, body=None):
        self.tr, self.src, self.fn = tr, tr.src, fn
        self.names = {}
        self.nvars = 1
        self.blocks = [[]]
        self.returns = []          # placeholders
        self.wrapper_of = wrapper_of
        self.body = body if body is not None else fn.node.body
        self.mod = fn.mod          # module in which global names are resolved
        self.local_imports = {}
        self.rej = set()           # names of event lists known to contain a rejection
        self.paths = {}            # (name, field) -> variable holding `name.field` (fields that are never assigned)
        self.path_fields = {}      # name -> fields read through it

    # ---- light static types (annotations are trusted to be truthful; validated by the runtime monitor)
    def prepass_types(self):
        self.vtypes = {}
        fn = self.fn
        for p in fn.all_params():
            t = self.src.ann_type(fn.ann.get(p))
            if t:
                self.vtypes[p] = t
        if fn.cls is not None and fn.params and "staticmethod" not in fn.decorators and "classmethod" not in fn.decorators:
            self.vtypes[fn.params[0]] = fn.cls
        seen = {}
        for _ in range(3):
            for n in walk_fn(ast.Module(body=self.body, type_ignores=[])):
                pairs = []
                if isinstance(n, ast.Assign) and len(n.targets) == 1 and isinstance(n.targets[0], ast.Name):
                    pairs.append((n.targets[0].id, self.type_of(n.value)))
                elif isinstance(n, ast.AnnAssign) and isinstance(n.target, ast.Name):
                    pairs.append((n.target.id, self.src.ann_type(n.annotation) or (self.type_of(n.value) if n.value else None)))
                elif isinstance(n, (ast.For, ast.comprehension)) and isinstance(n.target, ast.Name):
                    t = self.type_of(n.iter)
                    pairs.append((n.target.id, t[1] if isinstance(t, tuple) and t[0] == "list" else
                                  ("PRIM" if isinstance(n.iter, ast.Call) and isinstance(n.iter.func, ast.Name) and n.iter.func.id == "range" else None)))
                elif isinstance(n, (ast.Assign, ast.For, ast.comprehension, ast.AugAssign)):
                    tg = n.targets if isinstance(n, ast.Assign) else [n.target]
                    for t in tg:
                        for x in ast.walk(t):
                            if isinstance(x, ast.Name) and not isinstance(n, ast.AugAssign):
                                pairs.append((x.id, None))
                for name, t in pairs:
                    if name in fn.all_params() and name in self.vtypes and (name, "param") not in seen:
                        seen[(name, "param")] = self.vtypes[name]
                    if name in seen and seen[name] != t:
                        seen[name] = None if not (name, "param") in seen or seen[(name, "param")] != t else t
                        if seen[name] is None:
                            seen[(name, "dead")] = True
                    elif name not in seen:
                        seen[name] = t
            for name, t in list(seen.items()):
                if isinstance(name, str):
                    if seen.get((name, "dead")) or t is None:
                        self.vtypes.pop(name, None)
                    elif (name, "param") in seen and seen[(name, "param")] != t:
                        self.vtypes.pop(name, None)
                    else:
                        self.vtypes[name] = t

    def type_of(self, e):
        src = self.src
        if isinstance(e, ast.Constant):
            return "PRIM"
        if isinstance(e, ast.Name):
            return self.vtypes.get(e.id)
        if isinstance(e, ast.Attribute):
            t = self.type_of(e.value)
            if isinstance(t, str) and t != "PRIM":
                a = src.field_ann(t, e.attr)
                if a is not None:
                    return src.ann_type(a)
                props = [p for p in src.properties.get(e.attr, []) if p.cls in src.family(t) and not src.is_stub(p)]
                ts = {src.ann_type(p.node.returns) for p in props}
                if len(ts) == 1:
                    return ts.pop()
            return None
        if isinstance(e, ast.Call):
            f = e.func
            if isinstance(f, ast.Name):
                if f.id in src.classes:
                    return f.id
                if f.id in ("int", "float", "len", "bool", "str", "abs", "round"):
                    return "PRIM"
                if f.id in ("min", "max", "sum") and e.args and all(self.type_of(a) == "PRIM" for a in e.args):
                    return "PRIM"
                if f.id in src.functions and len(src.functions[f.id]) == 1:
                    return src.ann_type(src.functions[f.id][0].node.returns)
                return None
            if isinstance(f, ast.Attribute):
                if f.attr in ("deepcopy", "model_copy"):
                    return self.type_of(f.value)
                t = self.type_of(f.value)
                if isinstance(t, str) and t != "PRIM":
                    cs = [m for m in src.methods.get(f.attr, []) if m.cls in src.family(t) and not src.is_stub(m)]
                    ts = {src.ann_type(m.node.returns) for m in cs}
                    if len(ts) == 1:
                        return ts.pop()
            return None
        if isinstance(e, ast.Subscript):
            t = self.type_of(e.value)
            if isinstance(t, tuple) and t[0] == "list":
                return t if isinstance(e.slice, ast.Slice) else t[1]
            return None
        if isinstance(e, ast.BinOp):
            l, r = self.type_of(e.left), self.type_of(e.right)
            if l == "PRIM" and r == "PRIM":
                return "PRIM"
            if isinstance(l, tuple) and l == r:
                return l
            return None
        if isinstance(e, (ast.Compare, ast.UnaryOp)) :
            return "PRIM" if isinstance(e, ast.Compare) or isinstance(e.op, ast.Not) or self.type_of(e.operand) == "PRIM" else None
        if isinstance(e, ast.IfExp):
            a, b = self.type_of(e.body), self.type_of(e.orelse)
            return a if a == b else None
        if isinstance(e, ast.JoinedStr):
            return "PRIM"
        return None

    def method_cands(self, recv_expr, name, table=None):
        """definitions a call `recv.name(...)` may reach, and whether the receiver's static type is known"""
        src = self.src
        table = src.methods if table is None else table
        allc = [f for f in table.get(name, []) if not src.is_stub(f)]
        t = self.type_of(recv_expr) if recv_expr is not None else None
        if isinstance(recv_expr, ast.Call) and isinstance(recv_expr.func, ast.Name) and recv_expr.func.id == "super":
            t = self.fn.cls
        if t == "PRIM" or isinstance(t, tuple):
            return [], True
        if isinstance(t, str) and not src.is_protocol(t):
            fam = src.family(t)
            return [f for f in allc if f.cls in fam], True
        return allc, False

    # ---- variables / emission
    def new(self):
        v = self.nvars
        self.nvars += 1
        return v

    def emit(self, st):
        self.blocks[-1].append(st)

    def var(self, name):
        if name not in self.names:
            self.names[name] = self.new()
        return self.names[name]

    def leaf_var(self, leaf):
        if leaf[0] == "v":
            return leaf[1]
        t = self.new()
        self.emit(("Bind", t, leaf[1]))
        return t

    def flat(self, val):
        if val[0] == "T":
            return [v for x in val[1] for v in self.flat(x)]
        if val[0] == "L":
            return self.flat(val[1])
        return [self.leaf_var(val)]

    def mat(self, val):
        if val[0] in ("T", "L"):
            t = self.new()
            self.emit(("Bind", t, ("New", self.flat(val))))
            return t
        return self.leaf_var(val)

    def fresh(self):
        return ("s", ("New", []))

    def block(self, f):
        self.blocks.append([])
        f()
        return self.blocks.pop()

    # ---- entry
    def run(self, declare=True):
        fn = self.fn
        if declare:
            params = fn.all_params() + ([fn.vararg] if fn.vararg else []) + ([fn.kwarg] if fn.kwarg else [])
            for p in params:
                self.var(p)
        self.param_vars = [self.names[p] for p in fn.all_params()]
        assigned = set()
        for n in walk_fn(ast.Module(body=self.body, type_ignores=[])):
            if isinstance(n, ast.Name) and isinstance(n.ctx, (ast.Store, ast.Del)):
                assigned.add(n.id)
        self.prepass_types()
        self.prepass_paths()
        for p in fn.all_params():
            if is_prim_ann(fn.ann.get(p)):
                v = self.new()
                self.emit(("Bind", v, ("New", [])))
                self.names[p] = v
                fn.stats["primitive_params"] += 1
            elif p in assigned:
                v = self.new()
                self.emit(("Bind", v, ("Alias", self.names[p])))
                self.names[p] = v
            self.refresh_paths(p)
        self.stmts(self.body)
        # falling off the end
        if fn.is_gen:
            self.emit(("Return", [], 0))
        elif not ends(self.body):
            self.ret(self.fresh())
        skel = self.blocks[0]
        sh = None
        for ph in self.returns:
            sh = join_shape(sh, shape_of(ph["val"]))
        if fn.is_gen:
            sh = ("L", sh if sh is not None else "leaf")
        self.finish_returns(skel, sh if not fn.is_gen else sh[1])
        fn.skel, fn.shape, fn.nvars = skel, sh, self.nvars
        fn.tags = sorted({ph["tag"] for ph in self.returns} | {0})
        return skel

    def prepass_paths(self):
        src = self.src
        if src.reflection:
            return
        nodes = list(walk_fn(ast.Module(body=self.body, type_ignores=[])))
        called = {id(n.func) for n in nodes if isinstance(n, ast.Call)}
        for n in nodes:
            if isinstance(n, ast.Attribute) and isinstance(n.ctx, ast.Load) and isinstance(n.value, ast.Name) and id(n) not in called:
                v, f = n.value.id, n.attr
                if f in src.assigned_fields or f in src.properties or f in src.methods or f.startswith("__"):
                    continue
                t = self.vtypes.get(v)
                decl = src.field_ann(t, f) if isinstance(t, str) and t != "PRIM" else None
                if (decl is not None and is_prim_ann(decl)) or (decl is None and src.prim_attr(f) and not isinstance(t, str)):
                    continue      # an immutable value: nothing to cache
                fs = self.path_fields.setdefault(v, [])
                if f not in fs:
                    fs.append(f)

    def refresh_paths(self, name):
        """`name` has just been bound: `name.f` (f never assigned anywhere in the analysed code) is read once, here"""
        if name not in self.names:
            return
        for f in self.path_fields.get(name, ()):
            key = (name, f)
            if key not in self.paths:
                self.paths[key] = self.new()
            self.emit(("Bind", self.paths[key], ("From", [self.names[name]])))
            self.fn.stats["cached_field_reads"] += 1

    def bind_name(self, name, src):
        x = self.var(name)
        self.emit(("Bind", x, src))
        self.refresh_paths(name)
        self.rej.discard(name)
        return x

    def ret(self, val, tag=0):
        ph = {"val": val, "tag": tag}
        self.returns.append(ph)
        self.emit(("ReturnPH", ph))

    def finish_returns(self, block, sh):
        i = 0
        while i < len(block):
            st = block[i]
            if st[0] == "ReturnPH":
                self.blocks.append([])
                leaves = self.coerce(st[1]["val"], sh)
                pre = self.blocks.pop()
                block[i:i + 1] = pre + [("Return", leaves, st[1]["tag"])]
                i += len(pre) + 1
                continue
            if st[0] == "If":
                self.finish_returns(st[1], sh)
                self.finish_returns(st[2], sh)
            elif st[0] == "Loop":
                self.finish_returns(st[1], sh)
            i += 1

    def coerce(self, val, sh):
        """leaf variables of `val` laid out according to shape `sh`"""
        if sh == "leaf":
            if val[0] in ("T", "L"):
                return [self.mat(val)]
            return [self.leaf_var(val)]
        if sh[0] == "T":
            if val[0] == "T" and len(val[1]) == len(sh[1]):
                return [v for x, s in zip(val[1], sh[1]) for v in self.coerce(x, s)]
            base = self.mat(val)
            out = []
            for s in sh[1]:
                out += self.coerce(("s", ("From", [base])), s)
            return out
        if sh[0] == "L":
            if val[0] == "L":
                return self.coerce(val[1], sh[1])
            base = self.mat(val)
            return self.coerce(("s", ("From", [base])), sh[1])
        raise AssertionError(sh)

    # ---- statements
    def stmts(self, body):
        for i, st in enumerate(body):
            if isinstance(st, (ast.Break, ast.Continue)):
                return          # the rest of the loop body is skipped
            if isinstance(st, ast.If) and self.has_jump(st):
                rest = body[i + 1:]
                rt = self.rejected_test(st.test)
                if rt is not None:
                    self.stmts((st.body if rt else st.orelse) + rest)
                    return
                self.effects_of_test(st.test)
                saved = set(self.rej)
                a = self.block(lambda: self.stmts(st.body + rest))
                self.rej = set(saved)
                b = self.block(lambda: self.stmts(st.orelse + rest))
                self.rej = saved
                self.emit(("If", a, b))
                return
            c = self.split_call(st)
            if c is not None:
                if self.split_stmt(st, c, body[i + 1:]):
                    return
                continue
            self.stmt(st)

    def split_call(self, st):
        """the call of `a, b = f(..)` / `return f(..)`: the two statement forms at which the analysis follows the
        accepted and the rejected outcome of the callee separately"""
        if isinstance(st, ast.Assign) and len(st.targets) == 1 and isinstance(st.targets[0], ast.Tuple) \
                and len(st.targets[0].elts) == 2 and all(isinstance(x, ast.Name) for x in st.targets[0].elts) \
                and isinstance(st.value, ast.Call):
            return st.value
        if isinstance(st, ast.Return) and isinstance(st.value, ast.Call):
            return st.value
        return None

    def split_stmt(self, st, c, rest):
        res = self.call(c)
        is_ret = isinstance(st, ast.Return)

        def do(tags, tag):
            val = res.finish(tags)
            if is_ret:
                self.ret(val, tag)
            else:
                self.assign(st.targets[0], val)
                if tag == 1:
                    self.rej.add(st.targets[0].elts[1].id)
        if 1 not in res.alts or not self.tr.reject_facts:
            do(None, 0)
            return False
        self.fn.stats["calls_split_by_outcome"] += 1
        saved = set(self.rej)
        a = self.block(lambda: (do({0}, 0), None if is_ret else self.stmts(rest)))
        self.rej = set(saved)
        b = self.block(lambda: (do({1}, 1), None if is_ret else self.stmts(rest)))
        self.rej = saved
        self.emit(("If", a, b))
        return True

    def rejected_test(self, test):
        """True / False when `test` is `is_rejected(x)` / `not is_rejected(x)` for an x known to hold a rejection"""
        if not self.tr.reject_facts:
            return None
        neg = False
        if isinstance(test, ast.UnaryOp) and isinstance(test.op, ast.Not):
            neg, test = True, test.operand
        if isinstance(test, ast.Call) and isinstance(test.func, ast.Name) and test.func.id == "is_rejected" \
                and "is_rejected" not in self.names and len(test.args) == 1 and not test.keywords \
                and isinstance(test.args[0], ast.Name) and test.args[0].id in self.rej:
            imp = self.lookup_import("is_rejected")
            if (imp and imp[0].endswith("component.util")) or self.mod.endswith("component.util"):
                self.fn.stats["rejection_tests_resolved"] += 1
                return not neg
        return None

    def return_tag(self, value):
        """1 when the returned events certainly contain a rejection: `return X, [<provider>.rejected()]` or
        `return X, ev` with ev known to hold one"""
        if not self.tr.reject_facts or not (isinstance(value, ast.Tuple) and len(value.elts) == 2):
            return 0
        b = value.elts[1]
        if isinstance(b, ast.Name) and b.id in self.rej:
            return 1
        if isinstance(b, ast.List) and len(b.elts) == 1 and isinstance(b.elts[0], ast.Call) \
                and isinstance(b.elts[0].func, ast.Attribute) and b.elts[0].func.attr == "rejected" \
                and not b.elts[0].args and not b.elts[0].keywords:
            return 1
        return 0

    def has_jump(self, st):
        if isinstance(st, (ast.Break, ast.Continue)):
            return True
        if isinstance(st, ast.If):
            return any(self.has_jump(s) for s in st.body + st.orelse)
        if isinstance(st, (ast.For, ast.While)):
            return False
        return False

    def effects_of_test(self, e):
        self.expr(e)

    def stmt(self, st):
        if isinstance(st, ast.Expr):
            if isinstance(st.value, ast.Constant):
                return
            if isinstance(st.value, ast.Yield):
                val = self.expr(st.value.value) if st.value.value is not None else self.fresh()
                a = self.block(lambda: self.ret(val, 0))
                self.emit(("If", a, []))
                return
            self.expr(st.value)
        elif isinstance(st, ast.Assign):
            val = self.expr(st.value, want_shape=isinstance(st.targets[0], (ast.Tuple, ast.List)))
            if len(st.targets) > 1:
                v = self.mat(val)
                val = ("v", v)
            for t in st.targets:
                self.assign(t, val)
        elif isinstance(st, ast.AnnAssign):
            if st.value is not None:
                self.assign(st.target, self.expr(st.value))
        elif isinstance(st, ast.AugAssign):
            self.augassign(st)
        elif isinstance(st, ast.Return):
            tag = self.return_tag(st.value)
            self.ret(self.expr(st.value, want_shape=True) if st.value is not None else self.fresh(), tag)
        elif isinstance(st, ast.If):
            rt = self.rejected_test(st.test)
            if rt is not None:
                self.stmts(st.body if rt else st.orelse)
                return
            self.effects_of_test(st.test)
            saved = set(self.rej)
            a = self.block(lambda: self.stmts(st.body))
            self.rej = set(saved)
            b = self.block(lambda: self.stmts(st.orelse))
            self.rej = saved - self.assigned_in(st)
            self.emit(("If", a, b))
        elif isinstance(st, ast.While):
            if st.orelse:
                raise TranslatorError("while/else")
            # test, body, test, body, ..., test  =  Loop [test; body]; test   (a `continue` goes to the next test)
            self.rej -= self.assigned_in(st)
            self.emit(("Loop", self.block(lambda: (self.effects_of_test(st.test), self.stmts(st.body)))))
            self.effects_of_test(st.test)
        elif isinstance(st, ast.For):
            if st.orelse:
                raise TranslatorError("for/else")
            self.rej -= self.assigned_in(st)
            self.for_loop(st.target, st.iter, lambda: self.stmts(st.body))
        elif isinstance(st, ast.Pass):
            pass
        elif isinstance(st, ast.Raise):
            if st.exc is not None:
                self.expr(st.exc)
            self.emit(("Return", [], 0))
        elif isinstance(st, ast.Assert):
            self.expr(st.test)
        elif isinstance(st, (ast.Import, ast.ImportFrom)):
            for a in st.names:
                nm = (a.asname or a.name).split(".")[0]
                modname = a.name if isinstance(st, ast.Import) else (st.module or "")
                self.local_imports[nm] = (modname, None if isinstance(st, ast.Import) else a.name)
        else:
            raise TranslatorError("unsupported statement %s at line %d" % (type(st).__name__, st.lineno))

    def assigned_in(self, st):
        return {n.id for n in ast.walk(st) if isinstance(n, ast.Name) and isinstance(n.ctx, (ast.Store, ast.Del))}


    def assign(self, target, val):
        if isinstance(target, ast.Name):
            if val[0] in ("T", "L"):
                self.bind_name(target.id, ("New", self.flat(val)))
            elif val[0] == "v":
                self.bind_name(target.id, ("Alias", val[1]))
            else:
                self.bind_name(target.id, val[1])
        elif isinstance(target, (ast.Tuple, ast.List)):
            elts = target.elts
            if val[0] == "T" and len(val[1]) == len(elts) and not any(isinstance(e, ast.Starred) for e in elts):
                # a, b = b, a : read everything that is about to be overwritten first
                tvars = {self.names[n.id] for n in ast.walk(target) if isinstance(n, ast.Name) and n.id in self.names}
                vals = []
                for v in val[1]:
                    if v[0] in ("T", "L"):
                        v = ("v", self.mat(v))
                    if v[0] == "v" and v[1] in tvars:
                        t = self.new()
                        self.emit(("Bind", t, ("Alias", v[1])))
                        v = ("v", t)
                    elif v[0] == "s" and any(x in tvars for x in ([v[1][1]] if v[1][0] == "Alias" else v[1][1])):
                        v = ("v", self.leaf_var(v))
                    vals.append(v)
                for e, v in zip(elts, vals):
                    self.assign(e, v)
            elif val[0] == "L":
                for e in elts:
                    self.assign(e.value if isinstance(e, ast.Starred) else e, val[1] if val[1][0] != "v" else val[1])
            else:
                base = self.mat(val)
                for e in elts:
                    self.assign(e.value if isinstance(e, ast.Starred) else e, ("s", ("From", [base])))
        elif isinstance(target, ast.Attribute):
            v = self.mat(val)
            if isinstance(target.value, ast.Name) and target.value.id == "self" and self.src.component_like(self.fn.cls) \
                    and self.names.get("self") is not None:
                self.emit(("WriteSelf",))
                return
            if isinstance(target.value, ast.Name) and target.value.id in ("cls",) and "classmethod" in self.fn.decorators:
                self.emit(("Impure", "assignment to a class attribute"))
                return
            owner = self.mat(self.expr(target.value))
            self.emit(("Store", owner, v))
        elif isinstance(target, ast.Subscript):
            v = self.mat(val)
            self.expr(target.slice)
            owner = self.mat(self.expr(target.value))
            self.emit(("Store", owner, v))
        else:
            raise TranslatorError("unsupported assignment target %s" % type(target).__name__)

    def augassign(self, st):
        v = self.mat(self.expr(st.value))
        t = st.target
        if isinstance(t, ast.Name):
            x = self.var(t.id)
            tx = self.type_of(t)
            if tx == "PRIM" or self.type_of(st.value) == "PRIM" and not isinstance(tx, (str, tuple)):
                self.bind_name(t.id, ("New", []))      # numbers / strings: a re-binding to a new immutable value
                return
            name = BINOP_DUNDER.get(type(st.op))
            icands, typed = self.method_cands(t, "__i%s__" % name) if name else ([], False)
            if typed and isinstance(tx, str) and icands:
                res = self.apply_summaries(icands, [("v", x), ("v", v)], {}, builtin=None, what="operator i" + name, is_method=True)
                rv = res.finish()
                self.assign(t, rv if rv[0] not in ("T", "L") else ("v", self.mat(rv)))
                return
            if icands:
                self.apply_summaries(icands, [("v", x), ("v", v)], {}, builtin=None, what="operator i" + name, is_method=True)
            # in place (list +=) or a re-binding (numbers, strings, tuples)
            self.emit(("If", [("Store", x, v)], [("Bind", x, ("New", [x, v]))]))
            self.refresh_paths(t.id)
            self.fn.stats["augassign_name"] += 1
        elif isinstance(t, ast.Attribute):
            if isinstance(t.value, ast.Name) and t.value.id == "self" and self.src.component_like(self.fn.cls):
                self.emit(("WriteSelf",))
                return
            owner = self.mat(self.expr(t.value))
            tt = self.type_of(t.value)
            decl = self.src.field_ann(tt, t.attr) if isinstance(tt, str) and tt != "PRIM" else None
            if not (is_prim_ann(decl) if decl is not None else self.src.prim_attr(t.attr)):
                cur = self.new()
                self.emit(("Bind", cur, ("From", [owner])))
                self.emit(("Store", cur, v))          # the object held in the attribute may be modified in place
            self.emit(("Store", owner, v))
        elif isinstance(t, ast.Subscript):
            self.expr(t.slice)
            owner = self.mat(self.expr(t.value))
            cur = self.new()
            self.emit(("Bind", cur, ("From", [owner])))
            self.emit(("Store", cur, v))
            self.emit(("Store", owner, v))
        else:
            raise TranslatorError("unsupported augmented assignment target")

    def for_loop(self, target, it, body_fn):
        gen = None
        if isinstance(it, ast.Call):
            gen = self.call(it)
            val = gen.finish()
            if not gen.gen:
                gen = None
        else:
            val = self.expr(it, want_shape=True)
        if val[0] == "L":
            elem = self.freeze(val[1])      # leaves must be variables bound before the loop
        elif val[0] == "T":
            elem = ("s", ("From", self.flat(val)))
        else:
            elem = ("s", ("From", [self.leaf_var(val)]))

        def body():
            if gen:
                gen.effects()               # a generator runs between the iterations
            self.assign(target, elem)
            body_fn()
        self.emit(("Loop", self.block(body)))
        if gen:
            gen.effects()

    def freeze(self, val):
        if val[0] == "T":
            return ("T", [self.freeze(v) for v in val[1]])
        if val[0] == "L":
            return ("L", self.freeze(val[1]))
        if val[0] == "s" and val[1][0] == "New" and not val[1][1]:
            return val
        return ("v", self.leaf_var(val))

    # ---- expressions: return a Val; effects are emitted
    def expr(self, e, want_shape=False):
        if e is None:
            return self.fresh()
        if isinstance(e, ast.Constant):
            return self.fresh()
        if isinstance(e, ast.Name):
            if e.id in self.names:
                return ("v", self.names[e.id])
            return ("v", G)
        if isinstance(e, ast.Attribute):
            return self.attribute(e)
        if isinstance(e, ast.Call):
            return self.call(e).finish()
        if isinstance(e, ast.Tuple):
            vals = [self.expr(x, want_shape) for x in e.elts]
            if any(isinstance(x, ast.Starred) for x in e.elts):
                return ("s", ("New", [self.mat(v) for v in vals]))
            return ("T", vals)
        if isinstance(e, (ast.List, ast.Set)):
            vals = [self.expr(x, want_shape) for x in e.elts]
            if want_shape and vals and all(v[0] == "T" for v in vals) and len({len(v[1]) for v in vals}) == 1:
                cols = []
                for k in range(len(vals[0][1])):
                    col = [self.mat(v[1][k]) for v in vals]
                    cols.append(("s", ("From", col)) if len(col) > 1 else ("v", col[0]))
                return ("L", ("T", cols))
            return ("s", ("New", [x for v in vals for x in self.flat(v)]))
        if isinstance(e, ast.Dict):
            parts = []
            for k, v in zip(e.keys, e.values):
                if k is not None:
                    parts += self.flat(self.expr(k))
                parts += self.flat(self.expr(v))
            return ("s", ("New", parts))
        if isinstance(e, ast.Starred):
            return self.expr(e.value)
        if isinstance(e, ast.BinOp):
            return self.binop(e)
        if isinstance(e, ast.UnaryOp):
            v = self.expr(e.operand)
            if isinstance(e.op, ast.Not):
                return self.fresh()
            return ("s", ("New", self.flat(v)))
        if isinstance(e, ast.BoolOp):
            first = self.expr(e.values[0])
            leaves = self.flat(first)
            t = self.new()
            self.emit(("Bind", t, ("From", leaves)))
            for x in e.values[1:]:
                def br(x=x):
                    self.emit(("Bind", t, ("From", [t] + self.flat(self.expr(x)))))
                self.emit(("If", self.block(br), []))
            return ("v", t)
        if isinstance(e, ast.Compare):
            self.expr(e.left)
            for c in e.comparators:
                self.expr(c)
            return self.fresh()
        if isinstance(e, ast.IfExp):
            self.expr(e.test)
            t = self.new()
            a = self.block(lambda: self.assign_var(t, self.expr(e.body)))
            b = self.block(lambda: self.assign_var(t, self.expr(e.orelse)))
            self.emit(("If", a, b))
            return ("v", t)
        if isinstance(e, ast.Subscript):
            base = self.expr(e.value)
            if isinstance(e.slice, ast.Slice):
                for p in (e.slice.lower, e.slice.upper, e.slice.step):
                    if p is not None:
                        self.expr(p)
                return ("s", ("New", self.flat(base)))
            self.expr(e.slice)
            if base[0] == "T" and isinstance(e.slice, ast.Constant) and isinstance(e.slice.value, int) \
                    and -len(base[1]) <= e.slice.value < len(base[1]):
                return base[1][e.slice.value]
            if base[0] == "L":
                return base[1]
            return ("s", ("From", self.flat(base)))
        if isinstance(e, (ast.ListComp, ast.SetComp, ast.GeneratorExp)):
            return self.comprehension(e.generators, [e.elt])
        if isinstance(e, ast.DictComp):
            return self.comprehension(e.generators, [e.key, e.value])
        if isinstance(e, ast.JoinedStr):
            for v in e.values:
                if isinstance(v, ast.FormattedValue):
                    self.expr(v.value)
            return self.fresh()
        if isinstance(e, ast.FormattedValue):
            self.expr(e.value)
            return self.fresh()
        raise TranslatorError("unsupported expression %s at line %d" % (type(e).__name__, getattr(e, "lineno", 0)))

    def assign_var(self, t, val):
        if val[0] in ("T", "L"):
            self.emit(("Bind", t, ("New", self.flat(val))))
        elif val[0] == "v":
            self.emit(("Bind", t, ("Alias", val[1])))
        else:
            self.emit(("Bind", t, val[1]))

    def comprehension(self, gens, elts):
        acc = self.new()
        self.emit(("Bind", acc, ("New", [])))

        def level(k):
            if k == len(gens):
                for x in elts:
                    for v in self.flat(self.expr(x)):
                        self.emit(("Store", acc, v))
                return
            g = gens[k]
            if g.is_async:
                raise TranslatorError("async comprehension")

            def body():
                if g.ifs:
                    for c in g.ifs:
                        self.expr(c)
                    self.emit(("If", self.block(lambda: level(k + 1)), []))
                else:
                    level(k + 1)
            self.for_loop(g.target, g.iter, body)
        saved = dict(self.names)
        for g in gens:          # comprehension targets are local to the comprehension
            for n in ast.walk(g.target):
                if isinstance(n, ast.Name):
                    self.names.pop(n.id, None)
        level(0)
        self.names = saved
        return ("v", acc)

    def binop(self, e):
        l, r = self.expr(e.left), self.expr(e.right)
        name = BINOP_DUNDER.get(type(e.op))
        tl, tr_ = self.type_of(e.left), self.type_of(e.right)
        if (l == self.fresh() and r == self.fresh()) or tl == "PRIM" or tr_ == "PRIM":
            return self.fresh()          # arithmetic on immutable values
        lv, rv = self.flat(l), self.flat(r)
        cands = []
        if name:
            c1, typed1 = self.method_cands(e.left, "__%s__" % name)
            c2, typed2 = self.method_cands(e.right, "__r%s__" % name)
            cands = c1 + c2
            if isinstance(tl, tuple):
                cands = []
        if cands:
            res = self.apply_summaries(cands, [("v", self.join_var(lv)), ("v", self.join_var(rv))], {},
                                       builtin=None if (typed1 and isinstance(tl, str)) else ("New", lv + rv),
                                       what="operator " + name, is_method=True)
            return res.finish()
        return ("s", ("New", lv + rv))

    def join_var(self, vs):
        if len(vs) == 1:
            return vs[0]
        t = self.new()
        self.emit(("Bind", t, ("From", vs)))
        return t

    def attribute(self, e):
        # module.attr
        if isinstance(e.value, ast.Name) and e.value.id not in self.names:
            imp = self.lookup_import(e.value.id)
            if imp and imp[1] is None:
                return ("v", G)
        base = self.expr(e.value)
        t = self.type_of(e.value)
        props, typed = self.method_cands(e.value, e.attr, self.src.properties)
        declared = None
        if typed and isinstance(t, str):
            declared = self.src.field_ann(t, e.attr)
        if props and declared is None:
            recv = ("v", self.mat(base))
            res = self.apply_summaries(props, [recv], {}, builtin=None if typed else ("From", [recv[1]]),
                                       what="property " + e.attr, is_method=True)
            return res.finish()
        if declared is not None and is_prim_ann(declared):
            self.fn.stats["primitive_attr_reads"] += 1
            return self.fresh()
        if declared is None and self.src.prim_attr(e.attr) and not (typed and isinstance(t, str)):
            self.fn.stats["primitive_attr_reads"] += 1
            return self.fresh()
        if isinstance(e.value, ast.Name) and (e.value.id, e.attr) in self.paths and e.value.id in self.names:
            return ("v", self.paths[(e.value.id, e.attr)])
        return ("s", ("From", self.flat(base)))

    def lookup_import(self, name):
        if name in self.local_imports:
            return self.local_imports[name]
        return self.src.mod_imports.get(self.mod, {}).get(name)

    # ---- calls
    def call(self, e):
        f = e.func
        args = list(e.args)
        kws = {k.arg: k.value for k in e.keywords if k.arg is not None}
        star = any(isinstance(a, ast.Starred) for a in args) or any(k.arg is None for k in e.keywords)
        # the wrapped function of a decorator: func(*args, **kwargs)
        if isinstance(f, ast.Name) and self.wrapper_of is not None and f.id == self.wrapper_of[0]:
            inner = self.wrapper_of[1]
            vals = [("v", v) for v in self.wrapper_of[2]]
            return self.apply_summaries([inner], vals, {}, builtin=None, what="wrapped function")
        if star:
            vs = []
            for a in args:
                vs += self.flat(self.expr(a))
            for k in e.keywords:
                vs += self.flat(self.expr(k.value))
            if isinstance(f, ast.Attribute):
                vs += self.flat(self.expr(f.value))
            self.emit(("Impure", "call with *args/**kwargs: " + ast.unparse(f)))
            return CallRes(self, direct=("s", ("From", vs + [G])))
        if isinstance(f, ast.Attribute):
            # module function?
            if isinstance(f.value, ast.Name) and f.value.id not in self.names:
                imp = self.lookup_import(f.value.id)
                if imp and imp[1] is None:
                    return self.module_call(imp[0], f.attr, args, kws)
            # a method of an object that comes from a module outside simaple (logger.info, os.environ.get, np.random.rand):
            # none of the analysed definitions of that name is the callee
            root = f.value
            while isinstance(root, (ast.Attribute, ast.Subscript, ast.Call)):
                root = root.func if isinstance(root, ast.Call) else root.value
            if isinstance(root, ast.Name) and root.id not in self.names:
                imp = self.lookup_import(root.id)
                if imp and not imp[0].startswith("simaple") and imp[0].split(".")[0] not in PURE_MODULES:
                    for a in args + list(kws.values()):
                        self.expr(a)
                    self.emit(("Impure", "method of a foreign object: " + ast.unparse(f)))
                    return CallRes(self, direct=("v", G))
            if isinstance(f.value, ast.Call) and isinstance(f.value.func, ast.Name) and f.value.func.id == "super":
                recv = ("v", self.names.get("self", self.names.get("cls", G)))
            else:
                recv = self.expr(f.value)
            recv = ("v", self.mat(recv))
            if isinstance(f.value, ast.Name) and f.attr in M_SHALLOW_MUT:
                self.rej.discard(f.value.id)
            argv = [self.expr(a) for a in args]
            kwv = {k: self.expr(v) for k, v in kws.items()}
            cands, typed = self.method_cands(f.value, f.attr)
            builtin = self.builtin_method(f.attr, recv[1], argv, kwv, e)
            if typed and cands and f.attr not in ("model_copy",):
                builtin = None
            return self.apply_summaries(cands, [recv] + argv, kwv, builtin=builtin, what="." + f.attr,
                                        is_method=True)
        if isinstance(f, ast.Name):
            name = f.id
            argv = [self.expr(a) for a in args]
            kwv = {k: self.expr(v) for k, v in kws.items()}
            allv = argv + list(kwv.values())
            if name in self.names:
                flat = [x for v in allv for x in self.flat(v)]
                self.emit(("Impure", "call of a function value: " + name))
                return CallRes(self, direct=("s", ("From", flat + [G])))
            imp = self.lookup_import(name)
            if imp and imp[1] is not None and imp[0].split(".")[0] in IMPURE_MODULES:
                self.emit(("Impure", "%s.%s" % imp))
                return CallRes(self, direct=("v", G))
            if name in self.src.functions:
                fns = self.src.functions[name]
                same = [x for x in fns if x.mod == self.mod]
                return self.apply_summaries(same or fns, argv, kwv, builtin=None, what=name)
            if name in self.src.classes or (name[:1].isupper() and (imp or name in self.src.mod_globals.get(self.mod, ()))) \
                    or name in ("ValueError", "KeyError", "TypeError", "NotImplementedError", "IndexError", "RuntimeError",
                                "AssertionError", "Exception", "StopIteration"):
                self.fn.stats["constructors"] += 1
                return CallRes(self, direct=("s", ("New", [x for v in allv for x in self.flat(v)])))
            if name == "cast" and len(argv) == 2:
                return CallRes(self, direct=argv[1])
            if name == "super":
                return CallRes(self, direct=("v", self.names.get("self", G)))
            if name in BI_GLOBAL:
                return CallRes(self, direct=("v", G))
            if name in BI_FRESH:
                return CallRes(self, direct=self.fresh())
            if name in BI_FROM:
                return CallRes(self, direct=("s", ("From", [x for v in allv for x in self.flat(v)])))
            if name in BI_NEW:
                return CallRes(self, direct=("s", ("New", [x for v in allv for x in self.flat(v)])))
            self.emit(("Impure", "unknown function " + name))
            return CallRes(self, direct=("v", G))
        # anything else: a call of a computed callee
        self.expr(f)
        for a in args:
            self.expr(a)
        self.emit(("Impure", "call of a computed function: " + ast.unparse(f)))
        return CallRes(self, direct=("v", G))

    def module_call(self, module, attr, args, kws):
        vs = []
        for a in args + list(kws.values()):
            vs += self.flat(self.expr(a))
        top = module.split(".")[0]
        if top == "copy" and attr == "deepcopy":
            return CallRes(self, direct=self.fresh())
        if top == "copy" and attr == "copy":
            return CallRes(self, direct=("s", ("New", vs)))
        if top == "math":
            return CallRes(self, direct=self.fresh())
        if top in PURE_MODULES:
            return CallRes(self, direct=("s", ("New", vs)))
        self.emit(("Impure", "%s.%s" % (module, attr)))
        return CallRes(self, direct=("v", G))

    def builtin_method(self, name, recv, argv, kwv, e):
        """built-in meaning of a method name, or None: ('New'|'From', vars) for the result plus ('store', vars) effects"""
        allv = argv + list(kwv.values())
        if name == "deepcopy" and not allv:
            return None   # ReducerState.deepcopy is analysed like any other function
        if name == "model_copy":
            deep = kwv.get("deep")
            kw = {k.arg: k.value for k in e.keywords}
            if "deep" in kw and isinstance(kw["deep"], ast.Constant) and kw["deep"].value is True and "update" not in kw:
                return ("New", [])
            return ("New", [recv] + [x for v in allv for x in self.flat(v)])
        if name in M_FRESH:
            return ("New", [])
        if name in M_FROM:
            return ("From", [recv] + [x for v in allv for x in self.flat(v)])
        if name in M_SHALLOW:
            return ("New", [recv] + [x for v in allv for x in self.flat(v)])
        if name in M_STORE:
            return ("StoreInto", [x for v in allv for x in self.flat(v)])
        if name in M_SHALLOW_MUT:
            return ("ShallowMut", [])
        return None

    def bind_args(self, fn: Fn, vals, kwv, is_method):
        """caller values per callee parameter index, or None when the call does not fit this definition"""
        params = fn.all_params()
        if fn.vararg or fn.kwarg:
            return None
        if is_method and "staticmethod" in fn.decorators:
            vals = vals[1:]
        if len(vals) > len(fn.params):
            return None
        m = {}
        for i, v in enumerate(vals):
            m[i] = v
        for k, v in kwv.items():
            if k not in params:
                return None
            i = params.index(k)
            if i in m:
                return None
            m[i] = v
        required = len(fn.params) - fn.ndefaults
        if any(i not in m for i in range(required)):
            return None
        return m

    def apply_summaries(self, cands, vals, kwv, builtin, what, is_method=False):
        """desugar a call with the join of the candidate summaries (+ the built-in meaning); effects are emitted here,
        the result is bound by CallRes.finish"""
        res = CallRes(self)
        fitting = []
        for fn in cands:
            m = self.bind_args(fn, vals, kwv, is_method)
            if m is not None:
                fitting.append((fn, m))
        allvals = vals + list(kwv.values())
        if not fitting and builtin is None:
            # unknown method: mutates its receiver and its arguments
            vs = [x for v in allvals for x in self.flat(v)]
            self.fn.stats["unknown_calls"] += 1
            self.tr.unknown.add(what)
            res.mut = vs
            res.results.append(("leaf", {0: [list(vs)]}))
            res.effects()
            return res
        unsafe = None
        for fn, m in fitting:
            if fn in self.tr.in_progress:
                # a (possibly spurious, name-based) recursive call: by induction on the call depth it does no more than
                # mutate its arguments and return something reachable from them or from the globals
                self.fn.stats["recursive_call_sites"] += 1
                res.mut += [x for v in allvals for x in self.flat(v)]
                res.results.append(("leaf", {0: [None]}))
                continue
            sm = self.tr.summary(fn)
            self.fn.stats["call_sites_with_summary"] += 1
            self.tr.called.add(fn.key)
            if not sm["ok"]:
                unsafe = fn.key
                continue
            pv = {p: i for i, p in enumerate(fn.param_vars)}

            def cv(ps, m=m, pv=pv):
                out = []
                for p in ps:
                    i = pv[p]
                    if i in m:
                        out += self.flat(m[i])
                return out
            res.mut += cv(sm["mut"])
            for p in sm["top"]:
                srcs = cv([q for q in sm["mut"] + sm["top"] + sm["src"] if q != p])
                for tv in cv([p]):
                    res.stores += [(tv, sv, False) for sv in srcs] or [(tv, None, False)]
            for p in sm["mut"]:
                for tv in cv([p]):
                    res.stores += [(tv, sv, True) for sv in cv(sm["src"])]
            res.results.append((fn.shape, {t: [None if r is None else cv(r) for r in rets] for t, rets in sm["rets"].items()}))
            res.gen = res.gen or fn.is_gen
        if unsafe:
            self.emit(("Impure", "call of %s, which has no justified summary" % unsafe))
            res.direct = ("v", G)
            return res
        if builtin is not None:
            kind, vs = builtin
            recv = self.flat(vals[0])[0]
            if kind == "StoreInto":
                res.stores += [(recv, v, False) for v in vs] or [(recv, None, False)]
                res.results.append(("leaf", {0: [[]]}))
            elif kind == "ShallowMut":
                res.stores.append((recv, None, False))
                res.results.append(("leaf", {0: [[recv]]}))
            elif kind == "New" and not res.results:
                res.direct = ("s", ("New", vs))
                return res
            else:
                res.results.append(("leaf", {0: [list(vs)]}))
        res.effects()
        res.alts = {t for _, by in res.results for t in by}
        return res

    def same_layout(self, a, b):
        if a == "leaf" or b == "leaf":
            return a == b
        if a[0] != b[0]:
            return False
        if a[0] == "T":
            return len(a[1]) == len(b[1]) and all(self.same_layout(x, y) for x, y in zip(a[1], b[1]))
        return self.same_layout(a[1], b[1])

    def build(self, sh, it):
        if sh == "leaf":
            return next(it)
        if sh[0] == "T":
            return ("T", [self.build(s, it) for s in sh[1]])
        return ("L", self.build(sh[1], it))


# ============================================================================ the whole translation
class Translator:
    def __init__(self, repo):
        self.repo = str(repo)
        self.src = Source(repo)
        self.in_progress = []
        self.unknown = set()
        self.called = set()
        self.errors = {}
        self.order = []        # callees in bottom-up order
        self.reject_facts = self.verify_reject_facts()

    def translate(self, fn: Fn):
        if fn.skel is not None or fn.error is not None:
            return
        if fn in self.in_progress:
            raise TranslatorError("recursive call graph through " + fn.key)
        self.in_progress.append(fn)
        try:
            bad = [d for d in fn.decorators if d not in KNOWN_DECORATORS]
            if bad:
                raise TranslatorError("unknown decorator %s on %s" % (bad, fn.key))
            for n in walk_fn(fn.node):
                if isinstance(n, (ast.FunctionDef, ast.AsyncFunctionDef, ast.ClassDef, ast.Lambda, ast.Try, ast.With,
                                  ast.Global, ast.Nonlocal, ast.Delete, ast.Await, ast.YieldFrom, ast.NamedExpr)):
                    raise TranslatorError("unsupported construct %s in %s (line %d)" % (type(n).__name__, fn.key, n.lineno))
            if "ignore_rejected" in fn.decorators:
                self.translate_wrapped(fn)
            else:
                t = FnTr(self, fn)
                t.run()
                fn.param_vars = t.param_vars
        except TranslatorError as e:
            fn.error = str(e)
            fn.skel = [("Impure", "translator error: " + str(e))]
            fn.shape = "leaf"
            fn.param_vars = list(range(1, 1 + len(fn.all_params())))
            self.errors[fn.key] = str(e)
        finally:
            self.in_progress.pop()

    def translate_wrapped(self, fn: Fn):
        """@ignore_rejected def f(...): the skeleton of f is the decorator's wrapper applied to the undecorated f"""
        decs = self.src.functions.get("ignore_rejected", [])
        if len(decs) != 1:
            raise TranslatorError("cannot find the definition of ignore_rejected")
        d = decs[0].node
        inner_defs = [n for n in d.body if isinstance(n, ast.FunctionDef)]
        last = d.body[-1]
        if len(d.args.args) != 1 or len(inner_defs) != 1 or not (isinstance(last, ast.Return) and isinstance(last.value, ast.Name)
                                                                 and last.value.id == inner_defs[0].name):
            raise TranslatorError("ignore_rejected does not have the shape `def deco(func): def wrapper(*a, **k): ...; return wrapper`")
        w = inner_defs[0]
        if not (w.args.vararg and w.args.kwarg and not w.args.args):
            raise TranslatorError("ignore_rejected.wrapper is expected to take (*args, **kwargs)")
        for n in walk_fn(w):
            if isinstance(n, (ast.FunctionDef, ast.Lambda, ast.Try, ast.With, ast.Global, ast.Nonlocal)):
                raise TranslatorError("unsupported construct in ignore_rejected.wrapper")
        inner = Fn(fn.key + "__undecorated", fn.node, fn.cls, fn.mod, "method")
        inner.decorators = [x for x in fn.decorators if x != "ignore_rejected"]
        ti = FnTr(self, inner)
        ti.run()
        inner.param_vars = ti.param_vars
        fn.wrapped = inner
        self.summary(inner)
        t = FnTr(self, fn, body=w.body)
        t.mod = decs[0].mod          # names in the wrapper body resolve in the decorator's module
        for p in fn.all_params():
            t.var(p)
        t.wrapper_of = (d.args.args[0].arg, inner, [t.names[p] for p in fn.all_params()])
        t.run(declare=False)
        fn.param_vars = t.param_vars

    def summary(self, fn: Fn):
        if fn.summary is not None:
            return fn.summary
        self.translate(fn)
        if fn.error:
            fn.summary = {"ok": False}
            return fn.summary
        params = [v for p, v in zip(fn.all_params(), fn.param_vars) if not is_prim_ann(fn.ann.get(p))]
        nl = n_leaves(fn.shape if not fn.is_gen else fn.shape[1])
        sk = fn.skel
        found = None
        for km in range(len(params) + 1):
            for m in itertools.combinations(params, km):
                rest = [p for p in params if p not in m]
                for kt in range(len(rest) + 1):
                    for t in itertools.combinations(rest, kt):
                        if not effects_ok(sk, m, t):
                            continue
                        rest2 = [p for p in rest if p not in t]
                        for kj in range(len(rest2) + 1):
                            for j in itertools.combinations(rest2, kj):
                                if sources_ok(sk, m, t, j):
                                    found = (list(m), list(t), list(j))
                                    break
                            if found:
                                break
                        if found:
                            break
                    if found:
                        break
                if found:
                    break
            if found:
                break
        if found is None:
            fn.summary = {"ok": False}
            try:
                Checker(ret_deep(params), params).checks(sk, (tuple(params), tuple(params), ()))
                fn.unsafe_reason = "no assignment of roles to the parameters is justified"
            except Reject as r:
                fn.unsafe_reason = "%s  [%s]" % (r.why, show_stmt(r.stmt))
        else:
            m, t, j = found
            cand = [p for p in params if p not in m]
            rets = {}
            for tag in fn.tags:
                skt = variant(sk, tag)
                rets[tag] = []
                for leaf in range(nl):
                    got = None
                    for k in range(len(cand) + 1):
                        for s_ in itertools.combinations(cand, k):
                            if leaf_ok(skt, m, t, leaf, s_):
                                got = list(s_)
                                break
                        if got is not None:
                            break
                    rets[tag].append(got)
            fn.summary = {"ok": True, "mut": m, "top": t, "src": j, "rets": rets}
        self.order.append(fn)
        return fn.summary

    def verify_reject_facts(self):
        """the two source facts behind the accepted/rejected case split: every `rejected()` builds an event tagged
        Tag.REJECT, and `is_rejected(events)` is `any(event["tag"] == Tag.REJECT for event in events)`"""
        src = self.src
        fs = src.functions.get("is_rejected", [])
        ms = [m for m in src.methods.get("rejected", []) if not src.is_stub(m)]
        if len(fs) != 1 or not ms:
            return False
        f = fs[0]
        body = [n for n in f.node.body if not (isinstance(n, ast.Expr) and isinstance(n.value, ast.Constant))]
        want = ast.parse("return any(event['tag'] == Tag.REJECT for event in %s)" % (f.params[0] if f.params else "events")).body[0]
        if len(body) != 1 or ast.dump(body[0]) != ast.dump(want):
            return False
        for m in ms:
            body = [n for n in m.node.body if not (isinstance(n, ast.Expr) and isinstance(n.value, ast.Constant))]
            if len(body) != 1 or not isinstance(body[0], ast.Return) or not isinstance(body[0].value, ast.Dict):
                return False
            d = body[0].value
            tags = [ast.unparse(v) for k, v in zip(d.keys, d.values) if isinstance(k, ast.Constant) and k.value == "tag"]
            if tags != ["Tag.REJECT"]:
                return False
        return True


# ============================================================================ Coq output
def coq_list(xs):
    return "[" + "; ".join(xs) + "]"


def coq_src(s):
    if s[0] == "Alias":
        return "(SAlias %d)" % s[1]
    return "(%s %s)" % ("SFrom" if s[0] == "From" else "SNew", coq_list(str(v) for v in s[1]))


def coq_stmt(st, ind):
    pad = " " * ind
    op = st[0]
    if op == "Bind":
        return pad + "Bind %d %s" % (st[1], coq_src(st[2]))
    if op == "Mut":
        return pad + "Mut %s" % coq_list(str(v) for v in st[1])
    if op == "Store":
        return pad + "Store %d %d" % (st[1], st[2])
    if op == "WriteSelf":
        return pad + "WriteSelf"
    if op == "Impure":
        return pad + "Impure (* %s *)" % (st[1].replace("(*", "( *").replace("*)", "* )").replace('"', "'") if len(st) > 1 else "")
    if op == "If":
        return pad + "If\n" + coq_block(st[1], ind + 2) + "\n" + coq_block(st[2], ind + 2)
    if op == "Loop":
        return pad + "Loop\n" + coq_block(st[1], ind + 2)
    if op == "Return":
        return pad + "Return %s" % coq_list(str(v) for v in st[1])
    raise AssertionError(st)


def coq_block(l, ind):
    pad = " " * ind
    if not l:
        return pad + "[]"
    return pad + "[\n" + ";\n".join(coq_stmt(s, ind + 1) for s in l) + "\n" + pad + "]"


def ident(key):
    return "".join(c if c.isalnum() else "_" for c in key)


def count_stmts(l, c):
    for st in l:
        c[st[0]] += 1
        if st[0] == "If":
            count_stmts(st[1], c)
            count_stmts(st[2], c)
        elif st[0] == "Loop":
            count_stmts(st[1], c)


ROOT_DIRS = ("simulate.component.common", "simulate.component.specific", "simulate.component.skill")


def analyse(repo):
    """Translate everything; returns (translator, reducers, views, callees)."""
    tr = Translator(repo)
    roots = [f for f in tr.src.fns if f.kind in ("reducer", "view") and f.mod.startswith(ROOT_DIRS)]
    for f in roots:
        tr.translate(f)
    reducers = [f for f in roots if f.kind == "reducer"]
    views = [f for f in roots if f.kind == "view"]
    # every entity / trait method is summarised even when no root calls it (new code may)
    for f in tr.src.fns:
        if f.cls is not None and f.kind == "method" and f.mod.startswith(("simulate.component.entity", "simulate.component.trait.impl",
                                                                         "simulate.component.common", "simulate.component.specific",
                                                                         "simulate.global_property", "simulate.event")) \
                and f.node.name not in ("get_default_state",) and not f.node.name.startswith("__"):
            if "abstractmethod" in f.decorators:
                continue
            tr.summary(f)
    return tr, reducers, views


# unit examples: (name, class, method, replacement source, accepted?).  The first one is the body
# FullMetalBarrageComponent.elapse had before /repo commit 5af86b7.
EXAMPLES = [
    ("fullmetalbarrage_elapse_prerepair", "FullMetalBarrageComponent", "elapse", False, """
def elapse(self, time: float, state: FullMetalBarrageState):
    state.penalty_lasting.elapse(time)
    state, event = self.elapse_keydown_trait(time, state)

    if is_keydown_ended(event):
        state.penalty_lasting.set_time_left(self.homing_penalty_duration)

    return state, event
"""),
    ("no_copy", "AttackSkillComponent", "reset_cooldown", False, """
def reset_cooldown(self, _: None, state: AttackSkillState):
    state.cooldown.set_time_left(0)
    return state, None
"""),
    ("copy_after_mutation", "TriggableBuffSkillComponent", "elapse", False, """
def elapse(self, time: float, state: TriggableBuffState):
    state.cooldown.elapse(time)
    state = state.deepcopy()
    state.lasting.elapse(time)
    state.trigger_cooldown.elapse(time)
    return state, [self.event_provider.elapsed(time)]
"""),
    ("append_to_input_list", "ChainLightningVIComponent", "use", False, """
def use(self, _: None, state: ChainLightningVISkillState):
    state.current_fields.field_periodics.append(Periodic(interval=1.0))
    state = state.deepcopy()
    return state, []
"""),
    ("view_mutates", "BuffSkillComponent", "buff", False, """
def buff(self, state: BuffSkillState):
    state.lasting.elapse(0)
    if state.lasting.enabled():
        return self.stat
    return None
"""),
    ("trait_caches_on_self", "BuffTrait", "running_in_buff_trait", False, """
def running_in_buff_trait(self, state: LastingProtocol) -> Running:
    self._cache = state.lasting.time_left
    return Running(id=self._get_id(), name=self._get_name(), time_left=state.lasting.time_left,
                   lasting_duration=state.lasting.assigned_duration)
"""),
    ("uses_random", "MultipleHitHexaSkillComponent", "elapse", False, """
def elapse(self, time: float, state: MultipleHitHexaSkillState):
    import random
    state = state.deepcopy()
    state.cooldown.elapse(time * random.random())
    return state, [self.event_provider.elapsed(time)]
"""),
    ("borrowed_entity_stored_then_mutated", "MultipleHitHexaSkillComponent", "elapse", False, """
def elapse(self, time: float, state: MultipleHitHexaSkillState):
    new_state = state.deepcopy()
    new_state.cooldown = state.cooldown
    new_state.cooldown.elapse(time)
    return new_state, [self.event_provider.elapsed(time)]
"""),
    ("alias_of_input", "MultipleHitHexaSkillComponent", "elapse", False, """
def elapse(self, time: float, state: MultipleHitHexaSkillState):
    s = state
    s.cooldown.elapse(time)
    return s, [self.event_provider.elapsed(time)]
"""),
    ("iadd_on_component_stat", "BuffSkillComponent", "buff", False, """
def buff(self, state: BuffSkillState):
    stat = self.stat
    stat += Stat(attack_power=1)
    return stat
"""),
    ("shallow_copy_then_deep_mutation", "MultipleHitHexaSkillComponent", "elapse", False, """
def elapse(self, time: float, state: MultipleHitHexaSkillState):
    state = state.model_copy()
    state.cooldown.elapse(time)
    return state, [self.event_provider.elapsed(time)]
"""),
    ("mutation_on_rejected_path", "AdeleStormComponent", "use", False, """
def use(self, _: None, state: AdeleStormState):
    sword_count = state.order_sword.get_sword_count()
    state, events = self.use_periodic_damage_trait(state)
    if is_rejected(events):
        state.stack.reset(sword_count)
    return state, events
"""),
    ("attribute_store_on_input_entity", "MultipleHitHexaSkillComponent", "elapse", False, """
def elapse(self, time: float, state: MultipleHitHexaSkillState):
    state.cooldown.time_left = 0.0
    return state.deepcopy(), [self.event_provider.elapsed(time)]
"""),
    ("input_entity_through_a_list", "MultipleHitHexaSkillComponent", "elapse", False, """
def elapse(self, time: float, state: MultipleHitHexaSkillState):
    entities = [state.cooldown]
    entities[0].elapse(time)
    return state.deepcopy(), [self.event_provider.elapsed(time)]
"""),
    ("input_entities_in_a_loop", "TriggableBuffSkillComponent", "elapse", False, """
def elapse(self, time: float, state: TriggableBuffState):
    for e in (state.cooldown, state.trigger_cooldown):
        e.elapse(time)
    return state.deepcopy(), [self.event_provider.elapsed(time)]
"""),
    ("class_attribute_counter", "MultipleHitHexaSkillComponent", "elapse", False, """
def elapse(self, time: float, state: MultipleHitHexaSkillState):
    type(self).calls = 1
    state = state.deepcopy()
    state.cooldown.elapse(time)
    return state, [self.event_provider.elapsed(time)]
"""),
    ("logging", "MultipleHitHexaSkillComponent", "elapse", False, """
def elapse(self, time: float, state: MultipleHitHexaSkillState):
    from loguru import logger
    logger.info("elapse")
    state = state.deepcopy()
    state.cooldown.elapse(time)
    return state, [self.event_provider.elapsed(time)]
"""),
    ("shared_dynamics_modified", "MultipleHitHexaSkillComponent", "use", False, """
def use(self, _: None, state: MultipleHitHexaSkillState):
    state = state.deepcopy()
    self.modifier.attack_power += 1
    return state, []
"""),
    ("guard_first", "MultipleHitHexaSkillComponent", "elapse", True, """
def elapse(self, time: float, state: MultipleHitHexaSkillState):
    if time <= 0:
        return state, []
    state = state.deepcopy()
    state.cooldown.elapse(time)
    return state, [self.event_provider.elapsed(time)]
"""),
    ("borrowed_values_collected_in_a_local_list", "MultipleHitHexaSkillComponent", "elapse", True, """
def elapse(self, time: float, state: MultipleHitHexaSkillState):
    state = state.deepcopy()
    seen = []
    for entry in self.damage_and_hits:
        seen.append(entry)
        state.cooldown.elapse(time)
    return state, [self.event_provider.elapsed(time)]
"""),
    ("deep_model_copy", "MultipleHitHexaSkillComponent", "elapse", True, """
def elapse(self, time: float, state: MultipleHitHexaSkillState):
    state = state.model_copy(deep=True)
    state.cooldown.elapse(time)
    return state, [self.event_provider.elapsed(time)]
"""),
]


def examples(repo):
    out = []
    for name, cls, meth, accepted, text in EXAMPLES:
        nf, _tr = translate_variant(repo, cls, meth, text.strip() + "\n")
        ok, why = safe(nf.skel)
        out.append({"name": name, "class": cls, "method": meth, "expected_accepted": accepted, "accepted": ok,
                    "why": why, "skel": nf.skel, "error": nf.error})
    return out


def gen(repo):
    tr, reducers, views = analyse(repo)
    return emit(tr, reducers, views, examples(repo))


def summary_items(f):
    """[(suffix, skeleton, summary dict)] -- one per return class of the callee"""
    sm = f.summary
    out = []
    for tag in f.tags:
        suffix = "" if len(f.tags) == 1 else "_r%d" % tag
        out.append((suffix, f.skel if len(f.tags) == 1 else variant(f.skel, tag),
                    {"mut": sm["mut"], "top": sm["top"], "src": sm["src"], "rets": sm["rets"][tag]}))
    return out


def emit(tr, reducers, views, examples=()):
    out = ["(* GENERATED by tools/tr_effects.py from %s -- do not edit. *)" % "simaple/simulate/component",
           "From Coq Require Import List.", "Import ListNotations.", "From V.Model Require Import Effects.", ""]
    done = set()

    def head(fn):
        return "(* %s  [%s:%d]  parameters %s *)" % (fn.key, fn.mod, fn.node.lineno,
                                                      ", ".join("%s=%d" % (p, v) for p, v in zip(fn.all_params(), fn.param_vars)))

    def put(fn):
        if fn.key in done:
            return
        done.add(fn.key)
        out.append(head(fn))
        out.append("Definition sk_%s : list stmt :=\n%s." % (ident(fn.key), coq_block(fn.skel, 1)))
    callees = [f for f in tr.order]
    pairs = []
    for f in callees:
        if not f.summary["ok"]:
            put(f)
            continue
        for suffix, skel, sm in summary_items(f):
            if suffix == "":
                put(f)
            else:
                out.append(head(f) + " (* return class %s: the other returns claim nothing *)" % suffix[2:])
                out.append("Definition sk_%s%s : list stmt :=\n%s." % (ident(f.key), suffix, coq_block(skel, 1)))
            rets = coq_list("None" if r is None else "Some " + coq_list(str(v) for v in r) for r in sm["rets"])
            out.append("Definition sm_%s%s : summary := {| s_mut := %s; s_top := %s; s_src := %s; s_rets := %s |}." % (
                ident(f.key), suffix, coq_list(str(v) for v in sm["mut"]), coq_list(str(v) for v in sm["top"]),
                coq_list(str(v) for v in sm["src"]), rets))
            pairs.append("(sk_%s%s, sm_%s%s)" % (ident(f.key), suffix, ident(f.key), suffix))
    for f in reducers + views:
        put(f)
    for ex in examples:
        out.append("(* unit example %s: %s.%s replaced; expected to be %s *)" % (
            ex["name"], ex["class"], ex["method"], "accepted" if ex["expected_accepted"] else "REJECTED"))
        out.append("Definition ex_%s : list stmt :=\n%s." % (ex["name"], coq_block(ex["skel"], 1)))
    out.append("Definition bad_examples : list (list stmt) :=\n " + coq_list("ex_" + ex["name"] for ex in examples if not ex["expected_accepted"]) + ".")
    out.append("Definition good_examples : list (list stmt) :=\n " + coq_list("ex_" + ex["name"] for ex in examples if ex["expected_accepted"]) + ".")
    out.append("")
    out.append("Definition all_reducers : list (list stmt) :=\n " + coq_list("sk_" + ident(f.key) for f in reducers) + ".")
    out.append("Definition all_views : list (list stmt) :=\n " + coq_list("sk_" + ident(f.key) for f in views) + ".")
    out.append("Definition all_summaries : list (list stmt * summary) :=\n " + coq_list(pairs) + ".")
    out.append("Definition n_reducers := %d.\nDefinition n_views := %d.\nDefinition n_summaries := %d." % (
        len(reducers), len(views), len(pairs)))
    meta = metadata(tr, reducers, views, callees)
    meta["n_summary_obligations"] = len(pairs)
    meta["examples"] = [{k: v for k, v in ex.items() if k != "skel"} for ex in examples]
    return {"Effects_skeletons.v": "\n".join(out) + "\n"}, meta


def metadata(tr, reducers, views, callees):
    tally = {}
    rejected = {}
    for f in reducers + views:
        ok, why = safe(f.skel, tally)
        if not ok:
            rejected[f.key] = why
    unjustified = []
    for f in callees:
        if f.summary["ok"]:
            sm = f.summary
            check_from(ret_deep(sm["mut"]), sm["mut"] + sm["top"], sm["mut"], sm["top"], f.skel, tally)
            for suffix, skel, one in summary_items(f):
                if not justified(skel, one["mut"], one["top"], one["src"], one["rets"]):
                    unjustified.append(f.key + suffix)
    c = Counter()
    for f in reducers + views + callees:
        count_stmts(f.skel, c)
    stats = Counter()
    for f in reducers + views + callees:
        stats.update(f.stats)

    def names(f, vs):
        return [f.all_params()[f.param_vars.index(v)] for v in vs]
    return {
        "files_read": [str(p.relative_to(tr.src.root.parent)) for p in tr.src.files],
        "reducers": len(reducers), "views": len(views),
        "classes_with_reducers_or_views": len({f.cls for f in reducers + views}),
        "callees_summarised": len([f for f in callees if f.summary["ok"]]),
        "callees_without_summary": {f.key: getattr(f, "unsafe_reason", f.error) for f in callees if not f.summary["ok"]},
        "deeply_mutating_callees": {f.key: names(f, f.summary["mut"]) for f in callees if f.summary["ok"] and f.summary["mut"]},
        "top_level_mutating_callees": {f.key: {"modifies": names(f, f.summary["top"]), "may store": names(f, f.summary["src"])}
                                       for f in callees if f.summary["ok"] and f.summary["top"]},
        "callees_with_a_rejected_return_class": [f.key for f in callees if len(f.tags) > 1],
        "summaries_not_justified_by_python_mirror": unjustified,
        "translator_errors": dict(tr.errors),
        "unknown_method_names": sorted(tr.unknown),
        "rejected_by_python_mirror": rejected,
        "reject_facts_verified": tr.reject_facts,
        "classification": {"Mutate-after-Fresh": len(tally.get("mutate_after_fresh", ())) + len(tally.get("store_into_fresh", ())),
                           "  of which deep mutations (Mut)": len(tally.get("mutate_after_fresh", ())),
                           "  of which stores into a fresh object (Store)": len(tally.get("store_into_fresh", ())),
                           "Borrowed-read": len(tally.get("borrowed_read", ())),
                           "Fresh-read": len(tally.get("fresh_read", ())),
                           "call sites desugared with a summary": stats["call_sites_with_summary"],
                           "calls followed separately for the accepted / rejected outcome": stats["calls_split_by_outcome"],
                           "is_rejected tests resolved on the rejected path": stats["rejection_tests_resolved"],
                           "constructor calls": stats["constructors"],
                           "primitive attribute reads": stats["primitive_attr_reads"],
                           "primitive parameters": stats["primitive_params"],
                           "reads of never-assigned fields done once at binding time": stats["cached_field_reads"],
                           "name-recursive call sites": stats["recursive_call_sites"],
                           "unknown calls (receiver and arguments mutated)": stats["unknown_calls"]},
        "statements": dict(c),
        "primitive_attributes": len([a for a in tr.src.attr_decl if tr.src.prim_attr(a)]),
        "never_assigned_field_caching": not tr.src.reflection,
        "reducer_keys": [f.key for f in reducers], "view_keys": [f.key for f in views],
    }


def translate_variant(repo, class_name, method_name, new_method_src):
    """Skeleton of `class_name.method_name` with its source replaced by `new_method_src` (unit examples)."""
    tr = Translator(repo)
    new = ast.parse(new_method_src).body[0]
    for table in (tr.src.methods, tr.src.properties):
        for f in table.get(method_name, []):
            if f.cls == class_name:
                new.decorator_list = f.node.decorator_list
                nf = Fn(f.key, new, f.cls, f.mod, f.kind)
                tr.src.fns[tr.src.fns.index(f)] = nf
                table[method_name][table[method_name].index(f)] = nf
                tr.translate(nf)
                return nf, tr
    raise KeyError(class_name + "." + method_name)


if __name__ == "__main__":
    import json
    import sys
    files, meta = gen(sys.argv[1] if len(sys.argv) > 1 else "/repo")
    m = dict(meta)
    m.pop("reducer_keys"), m.pop("view_keys"), m.pop("files_read")
    print(json.dumps(m, indent=1, ensure_ascii=False))
    if len(sys.argv) > 2:
        open(sys.argv[2], "w").write(files["Effects_skeletons.v"])
