"""T-engine: fail-closed translator  Python `ast` -> Gallina  for the stateful glue of the operation engine:

    simaple/simulate/engine.py       BasicOperationEngine.reload, rollback, exec, _console, _exec_operation, get_current_viewer
    simaple/simulate/policy/base.py  SimulationHistory.__init__ (logs branch), current_store, move_store   (+ what tr_history.py covers)

-> gen/EngineSrc.v.  The engine object is three pieces of state - the history's list of logs, the history's cached store and the
engine's buffered events - and every method is a sequence of statements that read and write them.  The translator walks each method's
statements IN SOURCE ORDER, threading a symbolic state (logs, cache, buf, locals), and emits the resulting state transformer as a Coq
term in the option monad (None = raises).  Proofs/EngineTie.v proves the generated `src_exec`, `src_rollback`, `src_reload` equal to
`exec`, `rollback`, `reload` of Model/Engine.v - the definitions C01, C03, C04, C05, C06 are proved about.

Accepted statements (anything else raises Rejected):
    self._history = SimulationHistory(logs=<local>)              logs := <local> (copied: __init__ is checked to do `list(logs)`), cache := None
    self._buffered_events = self._history.last_events()          buf := src_last_events logs
    self._history.discard_after(<local>)                         logs := src_discard_after logs <local>, cache := None   (tr_history checks the method)
    store = self._history.move_store()                           store := current store (cache, else restore of the last checkpoint); cache := None
    output = SimulationProfile(self.get_current_viewer()).inspect(<console>.text)
                                                                 cache := Some (current store); output := inspect text (current store)
    return self._history.commit(c, pls, description=d[, moved_store=s])
                                                                 logs := src_commit logs c pls d; cache := Some s when moved_store is given
    the play loop of _exec_operation                             reviewed shape (compared as a normalised AST with REVIEWED_LOOP below): it is
                                                                 Lib/PyGen.v's exec_gen applied to the generated handler of the operation
    match command: case Operation(..) as op: return self._exec_operation(op); case ConsoleText(..) as console: return self._console(console)
"""
from __future__ import annotations

import ast
import os

ENGINE = "simaple/simulate/engine.py"
HIST = "simaple/simulate/policy/base.py"


class Rejected(Exception):
    pass


def bad(node, why):
    raise Rejected("%s (line %s): %s" % (why, getattr(node, "lineno", "?"), ast.dump(node)[:160] if isinstance(node, ast.AST) else node))


def body_of(fn):
    return [s for s in fn.body if not (isinstance(s, ast.Expr) and isinstance(s.value, ast.Constant) and isinstance(s.value.value, str))]


def method(cls, name):
    for n in cls.body:
        if isinstance(n, ast.FunctionDef) and n.name == name:
            return n
    raise Rejected("method %s.%s not found" % (cls.name, name))


def same(stmts, text, what):
    want = ast.parse(text).body
    if len(stmts) != len(want) or any(ast.dump(a) != ast.dump(b) for a, b in zip(stmts, want)):
        got = "; ".join(ast.unparse(s).replace("\n", " ") for s in stmts)[:300]
        raise Rejected("%s is not the reviewed shape `%s` but `%s`" % (what, text.strip().replace("\n", "; "), got))


REVIEWED_LOOP = '''
for behavior in self._get_behavior_gen(op):
    if 0 < early_stop <= self._viewset.show("clock", store):
        break
    action = behavior(self._buffered_events)
    if action is None:
        break
    store, self._buffered_events = play(store, action, self._router)
    playlogs.append(PlayLog(clock=self._viewset.show("clock", store), action=action, events=self._buffered_events, checkpoint=Checkpoint(store_ckpt=store.save())))
    for event in self._buffered_events:
        for handler in self._callbacks:
            handler(event, self._viewset.get_viewer(store), self._buffered_events)
'''


class State:
    def __init__(self):
        self.logs, self.cache, self.buf = "(logs _ _ _ _ _ _ _ _ e)", "(cache _ _ _ _ _ _ _ _ e)", "(buf _ _ _ _ _ _ _ _ e)"
        self.locals = {}
        self.n = 0

    def fresh(self, b):
        self.n += 1
        return "%s%d" % (b, self.n)


def walk(stmts, st: State, k_final):
    """-> Coq term : option eng.  k_final(st) is used when the statements end without a return (methods returning None)."""
    if not stmts:
        return k_final(st)
    s, rest = stmts[0], stmts[1:]
    u = ast.unparse(s)
    # self._history = SimulationHistory(logs=X)
    if isinstance(s, ast.Assign) and ast.unparse(s.targets[0]) == "self._history" and isinstance(s.value, ast.Call) \
            and ast.unparse(s.value.func) == "SimulationHistory" and not s.value.args and [k.arg for k in s.value.keywords] == ["logs"] \
            and isinstance(s.value.keywords[0].value, ast.Name) and s.value.keywords[0].value.id in st.locals:
        st.logs, st.cache = st.locals[s.value.keywords[0].value.id], "None"
        return walk(rest, st, k_final)
    if u == "self._buffered_events = self._history.last_events()":
        v = st.fresh("b")
        t = "(bind (src_last_events _ _ _ _ _ _ _ %s) (fun %s => " % (st.logs, v)
        st.buf = v
        return t + walk(rest, st, k_final) + "))"
    if isinstance(s, ast.Expr) and isinstance(s.value, ast.Call) and ast.unparse(s.value.func) == "self._history.discard_after" \
            and len(s.value.args) == 1 and not s.value.keywords and isinstance(s.value.args[0], ast.Name) and s.value.args[0].id in st.locals:
        v = st.fresh("l")
        t = "(bind (src_discard_after _ _ _ _ _ _ _ %s %s) (fun %s => " % (st.logs, st.locals[s.value.args[0].id], v)
        st.logs, st.cache = v, "None"
        return t + walk(rest, st, k_final) + "))"
    if u == "store = self._history.move_store()":
        v = st.fresh("st")
        t = "(bind (src_current_store %s %s) (fun %s => " % (st.logs, st.cache, v)
        st.cache = "None"
        st.locals["store"] = v
        return t + walk(rest, st, k_final) + "))"
    if isinstance(s, ast.Assign) and isinstance(s.targets[0], ast.Name) and isinstance(s.value, ast.Call) \
            and ast.unparse(s.value.func) == "SimulationProfile(self.get_current_viewer()).inspect" and len(s.value.args) == 1 \
            and isinstance(s.value.args[0], ast.Attribute) and s.value.args[0].attr == "text" \
            and isinstance(s.value.args[0].value, ast.Name) and s.value.args[0].value.id in st.locals:
        v = st.fresh("st")
        t = "(bind (src_current_store %s %s) (fun %s => " % (st.logs, st.cache, v)
        st.cache = "(Some %s)" % v          # get_current_viewer -> current_store fills the cache
        st.locals[s.targets[0].id] = "(inspect (text_of %s) %s)" % (st.locals[s.value.args[0].value.id], v)
        return t + walk(rest, st, k_final) + "))"
    if u == "playlogs: list[PlayLog] = []":
        st.locals["playlogs"] = "[]"
        return walk(rest, st, k_final)
    if isinstance(s, ast.For) and ast.unparse(s.iter) == "self._get_behavior_gen(op)":
        same([s], REVIEWED_LOOP, "the play loop of _exec_operation")
        if st.locals.get("playlogs") != "[]" or "store" not in st.locals or "op" not in st.locals:
            bad(s, "the play loop starts in an unexpected state")
        a, b, c = st.fresh("st"), st.fresh("pls"), st.fresh("b")
        t = "(let '(%s, %s, %s) := exec_gen Ev Act St playlog play mkpl_ (src_handler_ (operation_of %s) %s) %s %s in " % (
            a, b, c, st.locals["op"], st.buf, st.locals["store"], st.buf)
        st.locals["store"], st.locals["playlogs"], st.buf = a, b, c
        return t + walk(rest, st, k_final) + ")"
    if isinstance(s, ast.Return) and isinstance(s.value, ast.Call) and ast.unparse(s.value.func) == "self._history.commit":
        if rest:
            bad(s, "statements after return")
        c = s.value
        if len(c.args) != 2 or not isinstance(c.args[0], ast.Name) or c.args[0].id not in st.locals:
            bad(s, "commit arguments")
        cmd = st.locals[c.args[0].id]
        if isinstance(c.args[1], ast.List) and not c.args[1].elts:
            pls = "[]"
        elif isinstance(c.args[1], ast.Name) and c.args[1].id in st.locals:
            pls = st.locals[c.args[1].id]
        else:
            bad(s, "commit play logs")
        kw = {k.arg: k.value for k in c.keywords}
        if not set(kw) <= {"description", "moved_store"} or "description" not in kw:
            bad(s, "commit keywords %r" % sorted(kw))
        d = kw["description"]
        if isinstance(d, ast.Constant) and d.value is None:
            desc = "None"
        elif isinstance(d, ast.Name) and d.id in st.locals:
            desc = "(Some %s)" % st.locals[d.id]
        else:
            bad(s, "commit description")
        if "moved_store" in kw:
            m = kw["moved_store"]
            if not (isinstance(m, ast.Name) and m.id in st.locals):
                bad(s, "commit moved_store")
            st.cache = "(Some %s)" % st.locals[m.id]
        v = st.fresh("l")
        t = "(bind (src_commit _ _ _ _ _ _ _ H0 hashf %s %s %s %s) (fun %s => " % (st.logs, cmd, pls, desc, v)
        st.logs = v
        return t + k_final(st) + "))"
    bad(s, "statement outside the language")


def final(st):
    return "Some (Build_eng _ _ _ _ _ _ _ _ %s %s %s)" % (st.logs, st.cache, st.buf)


def gen(repo):
    et = ast.parse(open(os.path.join(str(repo), ENGINE), encoding="utf-8").read())
    ht = ast.parse(open(os.path.join(str(repo), HIST), encoding="utf-8").read())
    ecls = {n.name: n for n in et.body if isinstance(n, ast.ClassDef)}
    hcls = {n.name: n for n in ht.body if isinstance(n, ast.ClassDef)}
    if "BasicOperationEngine" not in ecls or "SimulationHistory" not in hcls:
        raise Rejected("BasicOperationEngine / SimulationHistory not found")
    eng, hist = ecls["BasicOperationEngine"], hcls["SimulationHistory"]

    # ---- SimulationHistory: the pieces the statements above rely on
    init = method(hist, "__init__")
    ib = body_of(init)
    if not (len(ib) == 3 and isinstance(ib[1], ast.If) and ast.unparse(ib[1].test) == "initial_store"):
        bad(init, "SimulationHistory.__init__ shape")
    same(ib[1].orelse, "assert logs is not None\nself._logs = list(logs)\n", "SimulationHistory.__init__, logs branch")
    same([ib[2]], "self._cached_store: Optional[AddressedStore] = None\n", "SimulationHistory.__init__, cache")
    same(body_of(method(hist, "current_store")),
         "if self._cached_store is None:\n    self._cached_store = self._current_ckpt().restore()\nreturn self._cached_store\n",
         "SimulationHistory.current_store")
    same(body_of(method(hist, "move_store")), "store = self.current_store()\nself._cached_store = None\nreturn store\n",
         "SimulationHistory.move_store")
    same(body_of(method(eng, "get_current_viewer")), "store = self._history.current_store()\nreturn self._viewset.get_viewer(store)\n",
         "BasicOperationEngine.get_current_viewer")
    same(body_of(method(eng, "_get_behavior_gen")), "return self._handlers[op.command](op)\n", "BasicOperationEngine._get_behavior_gen")

    out = []
    out.append("(* SimulationHistory.current_store: the cached store, else the restored checkpoint of the last play log *)\n"
               "Definition src_current_store (ls : list oplog) (c : option St) : option St :=\n"
               "  match c with Some s => Some s | None => bind (src_current_ckpt _ _ _ _ _ _ _ ls) (fun ck => Some (restore ck)) end.")

    def translate(name, params, coqparams):
        fn = method(eng, name)
        a = [x.arg for x in fn.args.args]
        if a[:1 + len(params)] != ["self"] + params:
            bad(fn, "signature of %s" % name)
        st = State()
        for p, c in zip(params, coqparams):
            st.locals[p] = c[0]
        return "Definition src_%s (e : eng)%s : option eng :=\n  %s." % (
            name.lstrip("_"), "".join(" (%s : %s)" % c for c in coqparams), walk(body_of(fn), st, final))

    # reload: the state before is irrelevant (the history object is replaced) - `e` stays a parameter for uniformity
    out.append(translate("reload", ["previous_operation_logs"], [("previous_operation_logs", "list oplog")]))
    out.append(translate("rollback", ["idx"], [("idx", "Z")]))
    out.append(translate("_console", ["console_text"], [("console_text", "cmd T Name")]))
    fn = method(eng, "_exec_operation")
    if [x.arg for x in fn.args.args] != ["self", "op", "early_stop"] or ast.unparse(fn.args.defaults[0]) != "-1":
        bad(fn, "signature of _exec_operation (early_stop must default to -1: the guard of the loop is then never taken)")
    out.append(translate("_exec_operation", ["op"], [("op", "cmd T Name")]))
    # exec: dispatch on the command's kind
    same(body_of(method(eng, "exec")),
         "match command:\n    case Operation(command_type='operation') as op:\n        return self._exec_operation(op)\n"
         "    case ConsoleText(command_type='console') as console:\n        return self._console(console)\n",
         "BasicOperationEngine.exec")
    out.append("Definition src_exec (e : eng) (command : cmd T Name) : option eng :=\n"
               "  match command with Op _ _ _ _ => src_exec_operation e command | Console _ _ _ => src_console e command end.")
    return {"EngineSrc.v": HEADER + "\n\n".join(out) + "\n\nEnd EngineSrc.\n"}, \
        {"functions": ["BasicOperationEngine.reload", "rollback", "exec", "_console", "_exec_operation", "get_current_viewer",
                       "_get_behavior_gen", "SimulationHistory.__init__", "current_store", "move_store"], "sources": [ENGINE, HIST]}


HEADER = """(* GENERATED by tools/tr_engine.py from simaple/simulate/engine.py and simaple/simulate/policy/base.py - do not edit *)
From Coq Require Import List ZArith.
Import ListNotations.
From V Require Import Lib.PyHist Lib.PyGen Model.Engine.
From G Require Import HistorySrc HandlersSrc.

Section EngineSrc.
  Variables St Ev Act Ck H T D Name : Type.
  Variable play : St -> Act -> St * list Ev.
  Variable save : St -> Ck.
  Variable restore : Ck -> St.
  Variable clock : St -> T.
  Variable inspect : Name -> St -> D.
  Variable mk_act : Name -> meth -> option T -> Act.
  Variable star : Name.
  Variable ev_name : Ev -> Name.
  Variable ev_delay : Ev -> option T.
  Variable name_eqb : Name -> Name -> bool.
  Variable tzero : T.
  Variables tpos tis0 : T -> bool.
  Variable H0 : H.
  Variable hashf : H -> cmd T Name -> list (T * Act * list Ev) -> H.
  Notation oplog := (oplog Ev Act Ck H T D Name).
  Notation playlog := (playlog Ev Act Ck T).
  Notation eng := (eng St Ev Act Ck H T D Name).
  Notation mkpl_ := (mkpl St Ev Act Ck T save clock).
  Notation src_handler_ := (src_handler Ev Act T Name mk_act star ev_name ev_delay name_eqb tzero tpos tis0).
  (* a command known to be an Operation / a ConsoleText (exec dispatches on the kind before calling the method) *)
  Definition operation_of (c : cmd T Name) : op T Name := match c with Op _ _ o _ => o | Console _ _ _ => ELAPSE _ _ tzero end.
  Definition text_of (c : cmd T Name) : Name := match c with Console _ _ t => t | Op _ _ _ x => x end.

"""

if __name__ == "__main__":
    import sys
    files, meta = gen(sys.argv[1] if len(sys.argv) > 1 else "/repo")
    print(files["EngineSrc.v"])
