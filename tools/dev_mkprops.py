"""Dev-time helper (not used by checks): writes a Props file whose theorems restate, with
their full closed types as printed by Coq, lemmas proved elsewhere.
usage: dev_mkprops.py <out.v> <header-comment> <Require line> name=lemma ..."""
import re
import subprocess
import sys

out, comment, req = sys.argv[1:4]
pairs = [a.split("=") for a in sys.argv[4:]]
q = req + "\nSet Printing Width 100.\nSet Printing Depth 1000.\n" + "".join("Check @%s.\n" % l for _n, l in pairs)
r = subprocess.run(["coqtop", "-quiet", "-Q", "theories", "V", "-Q", "gen", "G"], input=q, cwd="/verif/coq",
                   capture_output=True, text=True).stdout
body = ["(* %s *)" % comment, req, ""]
for name, lemma in pairs:
    m = re.search(r"(?ms)^%s\n     : (.*?)(?=^\S|\Z)" % re.escape(lemma), r)
    if not m:
        raise SystemExit("cannot find type of %s in:\n%s" % (lemma, r[-2000:]))
    ty = m.group(1).rstrip()
    body.append("Theorem %s :\n  %s.\nProof. exact @%s. Qed.\n" % (name, ty.replace("\n", "\n "), lemma))
body += ["Print Assumptions %s." % n for n, _l in pairs]
open(out, "w").write("\n".join(body) + "\n")
print("wrote", out, len(pairs))
