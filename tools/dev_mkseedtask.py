"""dev helper: python3 tools/dev_mkseedtask.py NAME=Cxx ... -> /tmp/seedtasks/NAME.md, the task text handed to a fresh
sub-agent that sees only the property text (and one-paragraph summaries of earlier seeds of that property) and a scratch
worktree /tmp/seed_NAME.  Create the worktree first: git -C /repo worktree add --detach /tmp/seed_NAME HEAD"""
import glob
import json
import os
import sys

props = {json.loads(l)['id']: json.loads(l) for l in open('/verif/properties.jsonl')}


def prior(p):
    out = []
    for d in sorted(glob.glob('/verif/seeded/%s*/meta.json' % p)):
        m = json.load(open(d))
        out.append("- " + m.get('summary', '')[:400])
    return out


TEMPLATE = open(os.path.join(os.path.dirname(__file__), 'dev_seedtask_template.md')).read()

os.makedirs('/tmp/seedtasks', exist_ok=True)
for a in sys.argv[1:]:
    name, p = a.split('=')
    d = props[p]
    pr = prior(p)
    prior_txt = ''
    if pr:
        prior_txt = ("\nEarlier changes already produced for this property (yours must be DIFFERENT in kind and in place - another "
                     "file/mechanism/aspect of the statement):\n" + "\n".join(pr) + "\n")
    t = TEMPLATE.format(wt='/tmp/seed_' + name, name=name, id=p, title=d['title'], statement=d['statement'], qtext=d['quantifier']['text'],
                        why=d['why_tests_cant'], anchors=json.dumps(d['anchors'], ensure_ascii=False), prior=prior_txt)
    open('/tmp/seedtasks/%s.md' % name, 'w').write(t)
    print(name, len(t))
