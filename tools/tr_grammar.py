"""T-grammar (C14): fail-closed reader of the plan DSL's definition.

gen(repo) reads, with Python's `ast` only (nothing is imported or executed):
  simaple/simulate/policy/parser.py   the Lark grammar string, the Lark(...) options, every method of
                                      TreeToOperation (the three `expr` f-string templates as data, the
                                      other methods recognised against the shapes the model implements),
                                      the three parse_* entry points (start symbol, strip, operations only)
  simaple/simulate/policy/handlers.py the command words that have a handler
  simaple/simulate/strategy/default.py the DSL texts the strategy layer formats
  simaple/api/base.py                 the header separator it splits on and the header+body render template
and emits gen/DslGrammar.v: the same things as Coq data.  Proofs/DslTie.v proves by computation that
they are the grammar / printer / entry points Model/Dsl.v implements.  Anything this file does not
recognise raises Reject: no output, the check reports the tie as broken."""
from __future__ import annotations

import ast
import re
from pathlib import Path


class Reject(Exception):
    pass


# ------------------------------------------------------------------ Lark grammar text (EBNF subset)
TOK = re.compile(r"""
    (?P<ws>[ \t]+)
  | (?P<str>"(?:[^"\\]|\\.)*")
  | (?P<re>/(?:[^/\\\n]|\\.)+/[a-z]*)
  | (?P<name>[A-Za-z_][A-Za-z_0-9]*)
  | (?P<op>[()|?*+])
""", re.X)


def tokenize(s: str, where: str):
    out, i = [], 0
    while i < len(s):
        m = TOK.match(s, i)
        if not m:
            raise Reject("grammar: unknown construct %r in %s" % (s[i:i + 12], where))
        i = m.end()
        k = m.lastgroup
        if k != "ws":
            out.append((k, m.group(k)))
    return out


def parse_expansion(toks, where):
    """alternatives of sequences of items; an item is an atom with an optional ? * + ."""
    pos = 0

    def alts(closing):
        nonlocal pos
        res, cur = [], []
        while pos < len(toks):
            k, v = toks[pos]
            if k == "op" and v == "|":
                res.append(cur)
                cur = []
                pos += 1
            elif k == "op" and v == ")":
                if not closing:
                    raise Reject("grammar: unbalanced ) in " + where)
                break
            else:
                cur.append(item())
        res.append(cur)
        if any(not a for a in res):
            raise Reject("grammar: empty alternative in " + where)
        return res

    def item():
        nonlocal pos
        k, v = toks[pos]
        pos += 1
        if k == "name":
            a = ("T" if v.isupper() or (v.upper() == v) else "R", v)
            if not (v.isupper() or v.islower() or re.fullmatch(r"[A-Z_0-9]+|[a-z_0-9]+", v)):
                raise Reject("grammar: mixed-case name %r in %s" % (v, where))
        elif k == "str":
            a = ("L", v[1:-1])
        elif k == "re":
            j = v.rindex("/")
            a = ("X", v[1:j], v[j + 1:])
        elif k == "op" and v == "(":
            inner = alts(True)
            if pos >= len(toks) or toks[pos] != ("op", ")"):
                raise Reject("grammar: missing ) in " + where)
            pos += 1
            a = ("G", inner)
        else:
            raise Reject("grammar: unexpected %r in %s" % (v, where))
        if pos < len(toks) and toks[pos][0] == "op" and toks[pos][1] in "?*+":
            m = toks[pos][1]
            pos += 1
            inner = a[1] if a[0] == "G" else [[a]]
            a = ({"?": "O", "*": "S", "+": "P"}[m], inner)
            if pos < len(toks) and toks[pos][0] == "op" and toks[pos][1] in "?*+":
                raise Reject("grammar: stacked repetition in " + where)
        return a

    res = alts(False)
    if pos != len(toks):
        raise Reject("grammar: trailing input in " + where)
    return res


def parse_grammar(text: str):
    rules, terms, imports, ignores = [], [], [], []
    cur = None
    for raw in text.split("\n"):
        line = raw.strip()
        if not line or line.startswith("//"):
            continue
        if line.startswith("%"):
            cur = None
            m = re.fullmatch(r"%import\s+([a-z_]+\.[A-Z_]+)", line)
            if m:
                imports.append(m.group(1))
                continue
            m = re.fullmatch(r"%ignore\s+(.+)", line)
            if m:
                e = parse_expansion(tokenize(m.group(1), line), line)
                if len(e) != 1 or len(e[0]) != 1 or e[0][0][0] not in ("L", "T"):
                    raise Reject("grammar: %ignore of something that is not a literal or a terminal: " + line)
                ignores.append(e[0][0])
                continue
            raise Reject("grammar: unknown directive " + line)
        m = re.match(r"([A-Za-z_][A-Za-z_0-9]*)\s*:(.*)$", line)
        if m and not line.startswith("|"):
            name, rhs = m.group(1), m.group(2)
            if not (name.isupper() or name.islower()) or name.startswith(("_", "?", "!")):
                raise Reject("grammar: unsupported rule name " + name)
            cur = [name, parse_expansion(tokenize(rhs, name), name)]
            (terms if name.isupper() else rules).append(cur)
            continue
        if line.startswith("|") and cur is not None:
            cur[1] += parse_expansion(tokenize(line[1:], cur[0]), cur[0])
            continue
        raise Reject("grammar: unknown line %r" % line)
    return rules, terms, imports, ignores


# ------------------------------------------------------------------ Python side: normalised method shapes
def strip_fn(fn: ast.FunctionDef) -> ast.FunctionDef:
    """drop annotations and the docstring; decorators are not accepted"""
    if fn.decorator_list:
        raise Reject("decorated function %s" % fn.name)
    fn = ast.parse(ast.unparse(fn)).body[0]
    fn.returns = None
    for a in fn.args.args + fn.args.kwonlyargs + fn.args.posonlyargs:
        a.annotation = None
    if fn.args.vararg or fn.args.kwarg or fn.args.defaults or fn.args.kw_defaults:
        raise Reject("unexpected signature of %s" % fn.name)
    if fn.body and isinstance(fn.body[0], ast.Expr) and isinstance(getattr(fn.body[0], "value", None), ast.Constant) \
            and isinstance(fn.body[0].value.value, str):
        fn.body = fn.body[1:]
    return fn


def same(fn: ast.FunctionDef, expected_src: str) -> bool:
    return ast.dump(strip_fn(fn)) == ast.dump(strip_fn(ast.parse(expected_src).body[0]))


# method name -> (semantic tag, the only shape accepted)
TRANSFORM = {
    "simaple": ("yaml_header_or_empty", """
def simaple(self, tkns):
    if len(tkns) == 1:
        return {}, tkns[0]
    context, body = tkns
    return yaml.safe_load(context), body
"""),
    "header": ("text_without_dashes", """
def header(self, tkns):
    assert len(tkns) == 1
    full_text = tkns[0]
    assert full_text[-3:] == "---"
    context = full_text[:-3]
    return context
"""),
    "op_command": ("token_value", """
def op_command(self, command_word):
    (command,) = command_word
    return cast(str, command.value)
"""),
    "skill": ("between_quotes", """
def skill(self, skill_string):
    (skill_with_double_quote,) = skill_string
    return skill_with_double_quote[1:-1]
"""),
    "multiplier": ("int", """
def multiplier(self, multiplier_syntax):
    (multiplier_string,) = multiplier_syntax
    return int(multiplier_string)
"""),
    "time": ("float", """
def time(self, time_signed_number):
    (time_string,) = time_signed_number
    return float(time_string)
"""),
    "WS": ("discard", """
def WS(self, white_space):
    return Discard
"""),
    "NEWLINE": ("discard", """
def NEWLINE(self, new_line):
    return Discard
"""),
    "body": ("concat", """
def body(self, x):
    return cast(list[Operation | ConsoleText], sum(x, []))
"""),
    "request": ("replicate", """
def request(self, x):
    if len(x) == 2:
        multiplier, operation = x
        return [operation for _ in range(multiplier)]
    return [cast(Operation, x[0])]
"""),
    "operation": ("only_child", """
def operation(self, x):
    return x[0]
"""),
    "console": ("console_text", """
def console(self, wrapped_expression):
    return [ConsoleText(text=wrapped_expression[0])]
"""),
    "expression": ("between_quotes", """
def expression(self, s):
    (s,) = s
    return s.value[1:-1]
"""),
}

ENTRIES = {
    "parse_dsl_to_operations": (("body", False, True), """
def parse_dsl_to_operations(dsl):
    try:
        ops = __OperationTreeTransformer.transform(__PARSER.parse(dsl, start="body"))
        assert all(isinstance(op, Operation) for op in ops)
        return cast(list[Operation], ops)
    except Exception as e:
        raise DSLError(str(e) + f" was {dsl}") from e
"""),
    "parse_dsl_to_command": (("body", False, False), """
def parse_dsl_to_command(dsl):
    try:
        return cast(list[Command], __OperationTreeTransformer.transform(__PARSER.parse(dsl, start="body")))
    except Exception as e:
        raise DSLError(str(e) + f" was {dsl}") from e
"""),
    "parse_simaple_runtime": (("simaple", True, False), """
def parse_simaple_runtime(runtime_text):
    commands = __OperationTreeTransformer.transform(__PARSER.parse(runtime_text.strip(), start="simaple"))
    return cast(tuple[dict, list[Operation | ConsoleText]], commands)
"""),
}

FIELD_OF_KW = {"command": "FCommand", "name": "FName", "time": "FTime"}


def joined_str(node, fieldmap, where):
    """f-string -> list of ('c', codepoint) / ('f', field); no conversions, no format specs"""
    if isinstance(node, ast.Constant) and isinstance(node.value, str):
        return [("c", ord(ch)) for ch in node.value]
    if not isinstance(node, ast.JoinedStr):
        raise Reject("%s: expr is not an f-string" % where)
    out = []
    for v in node.values:
        if isinstance(v, ast.Constant) and isinstance(v.value, str):
            out += [("c", ord(ch)) for ch in v.value]
        elif isinstance(v, ast.FormattedValue):
            if v.conversion != -1 or v.format_spec is not None:
                raise Reject("%s: f-string field with a conversion or format spec" % where)
            if not isinstance(v.value, ast.Name) or v.value.id not in fieldmap:
                raise Reject("%s: f-string field %s is not one of the operation's own fields" % (where, ast.unparse(v.value)))
            out.append(("f", fieldmap[v.value.id]))
        else:
            raise Reject("%s: unknown f-string part" % where)
    return out


def op_method(fn: ast.FunctionDef):
    """`a, b = x ; return Operation(command=.., name=.., time=.., expr=f'..')`
    -> (unpack order as fields, name given?, time given?, template)"""
    fn = strip_fn(fn)
    w = "TreeToOperation." + fn.name
    if len(fn.args.args) != 2 or len(fn.body) != 2:
        raise Reject(w + ": unexpected shape")
    asg, ret = fn.body
    if not (isinstance(asg, ast.Assign) and len(asg.targets) == 1 and isinstance(asg.targets[0], ast.Tuple)
            and all(isinstance(e, ast.Name) for e in asg.targets[0].elts)
            and isinstance(asg.value, ast.Name) and asg.value.id == fn.args.args[1].arg):
        raise Reject(w + ": first statement is not a tuple unpacking of the argument")
    names = [e.id for e in asg.targets[0].elts]
    if not (isinstance(ret, ast.Return) and isinstance(ret.value, ast.Call) and isinstance(ret.value.func, ast.Name)
            and ret.value.func.id == "Operation" and not ret.value.args):
        raise Reject(w + ": does not return Operation(...)")
    kws = {k.arg: k.value for k in ret.value.keywords}
    if set(kws) != {"command", "name", "time", "expr"}:
        raise Reject(w + ": Operation(...) keywords are %s" % sorted(kws))
    fieldmap = {}
    given = {}
    for kw in ("command", "name", "time"):
        v = kws[kw]
        if isinstance(v, ast.Name) and v.id in names:
            fieldmap[v.id] = FIELD_OF_KW[kw]
            given[kw] = True
        elif kw == "name" and isinstance(v, ast.Constant) and v.value == "":
            given[kw] = False
        elif kw == "time" and isinstance(v, ast.Constant) and v.value is None:
            given[kw] = False
        else:
            raise Reject(w + ": %s=%s is not modelled" % (kw, ast.unparse(v)))
    if sorted(fieldmap) != sorted(names):
        raise Reject(w + ": unpacked values %s are not exactly the fields used" % names)
    return [fieldmap[n] for n in names], given["name"], given["time"], joined_str(kws["expr"], fieldmap, w)


def read(path: Path) -> ast.Module:
    try:
        return ast.parse(path.read_text(encoding="utf-8"))
    except (OSError, SyntaxError) as e:
        raise Reject("cannot read %s: %r" % (path, e))


def extract(repo):
    repo = Path(repo)
    meta = {"files": []}
    # ---------------- parser.py
    p = repo / "simaple/simulate/policy/parser.py"
    meta["files"].append(str(p))
    mod = read(p)
    lark_calls = [n for n in ast.walk(mod) if isinstance(n, ast.Call) and isinstance(n.func, ast.Name) and n.func.id == "Lark"]
    if len(lark_calls) != 1:
        raise Reject("parser.py: expected exactly one Lark(...) call")
    call = lark_calls[0]
    if len(call.args) != 1 or not (isinstance(call.args[0], ast.Constant) and isinstance(call.args[0].value, str)):
        raise Reject("parser.py: the grammar is not a string literal")
    kw = {k.arg: k.value for k in call.keywords}
    if set(kw) != {"start"}:
        raise Reject("parser.py: Lark options %s are not modelled (only start=...; parser/lexer defaults = earley/dynamic)" % sorted(kw))
    try:
        starts = ast.literal_eval(kw["start"])
    except Exception:
        raise Reject("parser.py: start= is not a literal")
    if not (isinstance(starts, list) and all(isinstance(s, str) for s in starts)):
        raise Reject("parser.py: start= is not a list of names")
    gtext = call.args[0].value
    if any(ord(c) > 126 for c in gtext):
        raise Reject("parser.py: non-ASCII character in the grammar")
    rules, terms, imports, ignores = parse_grammar(gtext)

    cls = [n for n in mod.body if isinstance(n, ast.ClassDef) and n.name == "TreeToOperation"]
    if len(cls) != 1 or [ast.unparse(b) for b in cls[0].bases] != ["Transformer"] or cls[0].decorator_list or cls[0].keywords:
        raise Reject("parser.py: class TreeToOperation(Transformer) not found in the expected form")
    transform, op_kinds = [], []
    for n in cls[0].body:
        if not isinstance(n, ast.FunctionDef):
            raise Reject("TreeToOperation: member that is not a method: " + ast.unparse(n)[:60])
        if n.name in TRANSFORM:
            tag, src = TRANSFORM[n.name]
            if not same(n, src):
                raise Reject("TreeToOperation.%s is not the shape the model implements (%s)" % (n.name, tag))
            transform.append((n.name, tag))
        elif n.name.endswith("_operation"):
            op_kinds.append((n.name,) + tuple(op_method(n)))
        else:
            raise Reject("TreeToOperation.%s: unknown method" % n.name)
    # the transformer instance must be a plain TreeToOperation(), parse functions as modelled
    inst = [n for n in mod.body if isinstance(n, ast.Assign) and ast.unparse(n.value) == "TreeToOperation()"]
    if len(inst) != 1:
        raise Reject("parser.py: expected one `= TreeToOperation()`")
    entries = []
    fns = {n.name: n for n in mod.body if isinstance(n, ast.FunctionDef)}
    for name, (sem, src) in ENTRIES.items():
        if name not in fns:
            raise Reject("parser.py: %s is missing" % name)
        a, b = ast.unparse(strip_fn(fns[name])), ast.unparse(strip_fn(ast.parse(src).body[0]))
        # private names are mangled only inside classes; compare literally
        if a != b:
            raise Reject("parser.py: %s is not the shape the model implements" % name)
        entries.append((name,) + sem)
    extra = sorted(set(fns) - set(ENTRIES) - {"get_parser"})
    if extra:
        raise Reject("parser.py: unknown module-level functions %s" % extra)

    # ---------------- handlers.py: command words
    p = repo / "simaple/simulate/policy/handlers.py"
    meta["files"].append(str(p))
    hm = read(p)
    words = None
    for n in hm.body:
        if isinstance(n, ast.FunctionDef) and n.name == "get_operation_handlers":
            rets = [s for s in n.body if isinstance(s, ast.Return)]
            if len(rets) == 1 and isinstance(rets[0].value, ast.Dict) and all(
                    isinstance(k, ast.Constant) and isinstance(k.value, str) for k in rets[0].value.keys):
                words = [k.value for k in rets[0].value.keys]
    if words is None:
        raise Reject("handlers.py: get_operation_handlers() does not return a literal dict")

    # ---------------- strategy/default.py: DSL texts the strategy layer prints
    p = repo / "simaple/simulate/strategy/default.py"
    meta["files"].append(str(p))
    sm = read(p)
    strat = []
    for n in ast.walk(sm):
        if isinstance(n, ast.Yield) and n.value is not None:
            v = n.value
            if isinstance(v, ast.JoinedStr) or (isinstance(v, ast.Constant) and isinstance(v.value, str)):
                parts = []
                for x in (v.values if isinstance(v, ast.JoinedStr) else [v]):
                    if isinstance(x, ast.Constant):
                        parts += [("c", ord(ch)) for ch in x.value]
                    elif isinstance(x, ast.FormattedValue) and x.conversion == -1 and x.format_spec is None:
                        src = ast.unparse(x.value)
                        if "name" in src:
                            parts.append(("f", "FName"))
                        elif "time" in src:
                            parts.append(("f", "FTime"))
                        else:
                            raise Reject("default.py: DSL text formats %s, which is neither a name nor a time" % src)
                    else:
                        raise Reject("default.py: DSL f-string with a conversion or format spec")
                strat.append(parts)
            elif not isinstance(v, (ast.Call, ast.Name, ast.Attribute)):
                raise Reject("default.py: yield of %s is not modelled" % ast.unparse(v)[:50])
    if not strat:
        raise Reject("default.py: no DSL text found")

    # ---------------- api/base.py: separator and render template
    p = repo / "simaple/api/base.py"
    meta["files"].append(str(p))
    am = read(p)
    seps, renders = [], []
    for n in ast.walk(am):
        if isinstance(n, ast.Call) and isinstance(n.func, ast.Attribute) and n.func.attr in ("split", "join"):
            lit = n.args[0] if n.func.attr == "split" and n.args else (n.func.value if n.func.attr == "join" else None)
            if n.func.attr == "split" and not n.args:
                raise Reject("api/base.py: split() without separator")
            if isinstance(lit, ast.Constant) and isinstance(lit.value, str):
                if n.func.attr == "split" and len(n.args) != 1:
                    raise Reject("api/base.py: split with maxsplit is not modelled")
                seps.append(lit.value)
            elif n.func.attr == "split":
                raise Reject("api/base.py: split on a non-literal")
        if isinstance(n, ast.JoinedStr):
            parts = []
            for x in n.values:
                if isinstance(x, ast.Constant):
                    parts += [("c", ord(ch)) for ch in x.value]
                elif isinstance(x, ast.FormattedValue) and x.conversion == -1 and x.format_spec is None and isinstance(x.value, ast.Name):
                    if "metadata" in x.value.id:
                        parts.append(("f", "RMeta"))
                    elif "operations" in x.value.id:
                        parts.append(("f", "ROps"))
                    else:
                        raise Reject("api/base.py: f-string field %s is not modelled" % x.value.id)
                else:
                    raise Reject("api/base.py: f-string part not modelled")
            renders.append(parts)
    if not seps or not renders:
        raise Reject("api/base.py: no header split / render found")
    return dict(rules=rules, terms=terms, imports=imports, ignores=ignores, starts=starts, transform=transform,
                op_kinds=op_kinds, entries=entries, words=words, strat=strat, seps=seps, renders=renders), meta


# ------------------------------------------------------------------ Coq output
def cstr(s: str) -> str:
    if any(ord(c) > 126 or (ord(c) < 32) for c in s):
        raise Reject("non-printable character in %r" % s)
    return '"' + s.replace('"', '""') + '"'


def cexp(e) -> str:
    return "[" + "; ".join("[" + "; ".join(csym(s) for s in alt) + "]" for alt in e) + "]"


def csym(s) -> str:
    k = s[0]
    if k == "R":
        return "GRule " + cstr(s[1])
    if k == "T":
        return "GTerm " + cstr(s[1])
    if k == "L":
        return "GLit " + cstr(s[1])
    if k == "X":
        return "GRe %s %s" % (cstr(s[1]), cstr(s[2]))
    return {"G": "GGroup ", "O": "GOpt ", "S": "GStar ", "P": "GPlus "}[k] + cexp(s[1])


def cchars(s) -> str:
    return "[" + "; ".join(str(ord(c)) for c in s) + "]%N" if s else "(@nil N)"


def ctmpl(parts, cc="TC", cf="TF") -> str:
    return "[" + "; ".join(("%s %d%%N" % (cc, v)) if k == "c" else (("%s %s" % (cf, v)) if cf else v) for k, v in parts) + "]"


def cbool(b) -> str:
    return "true" if b else "false"


def emit(d) -> str:
    L = ["(* GENERATED by tools/tr_grammar.py from simaple/simulate/policy/parser.py (+ handlers.py, strategy/default.py,",
         "   api/base.py).  Do not edit. *)",
         "From Coq Require Import List NArith String.", "Import ListNotations.", "From V.Model Require Import Dsl.",
         "Open Scope string_scope.", ""]

    def table(name, ty, rows):
        L.append("Definition %s : %s :=\n  [ %s ]." % (name, ty, ";\n    ".join(rows)) if rows else "Definition %s : %s := []." % (name, ty))
    table("rules", "list (string * gexp)", ["(%s, %s)" % (cstr(n), cexp(e)) for n, e in d["rules"]])
    table("terminals", "list (string * gexp)", ["(%s, %s)" % (cstr(n), cexp(e)) for n, e in d["terms"]])
    table("imports", "list string", [cstr(x) for x in d["imports"]])
    table("ignores", "list gsym", [csym(x) for x in d["ignores"]])
    table("starts", "list string", [cstr(x) for x in d["starts"]])
    table("transform", "list (string * string)", ["(%s, %s)" % (cstr(a), cstr(b)) for a, b in d["transform"]])
    table("op_kinds", "list (string * (list field * (bool * bool) * template))",
          ["(%s, ([%s], (%s, %s), %s))" % (cstr(n), "; ".join(fs), cbool(gn), cbool(gt), ctmpl(t)) for n, fs, gn, gt, t in d["op_kinds"]])
    table("entries", "list (string * (string * (bool * bool)))",
          ["(%s, (%s, (%s, %s)))" % (cstr(n), cstr(s), cbool(st), cbool(oo)) for n, s, st, oo in d["entries"]])
    table("command_words", "list text", [cchars(w) for w in d["words"]])
    table("strategy_templates", "list template", [ctmpl(t) for t in d["strat"]])
    table("api_separators", "list text", [cchars(s) for s in d["seps"]])
    table("api_renders", "list (list rpart)", [ctmpl(t, "RC", "") for t in d["renders"]])
    return "\n".join(L) + "\n"


def gen(repo="/repo"):
    d, meta = extract(repo)
    meta.update(rules=len(d["rules"]), terminals=len(d["terms"]), transformer_methods=len(d["transform"]) + len(d["op_kinds"]),
                templates=[n for n, *_ in d["op_kinds"]], command_words=d["words"], strategy_texts=len(d["strat"]))
    return {"DslGrammar.v": emit(d)}, meta


if __name__ == "__main__":
    import sys
    files, meta = gen(sys.argv[1] if len(sys.argv) > 1 else "/repo")
    print(files["DslGrammar.v"])
    print(meta, file=sys.stderr)
