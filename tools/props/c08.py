"""C08 -- state-transition functions are pure: no input mutation, same in same out.

Proof part: tools/tr_effects.py turns every @reducer_method / @view_method of the current source
(and the traits, entities, helpers they call) into effect skeletons; Coq evaluates the proved
ownership checker of Model/Effects.v on all of them (Props/C08.v).  Tie: the skeletons are
regenerated on every run; the classification of statements into effects is validated by the
run-time monitors (every reducer and view of every installed component of the shipped jobs, in
store states reached by random plans: input dump before/after, component dump before/after,
second call) and by the unit examples (pre-repair FullMetalBarrage body and other impure bodies
must be rejected by the same translator + checker)."""
from __future__ import annotations

import collections
import json

from lib import entitycheck as ec
from lib import h_effects as HE
from lib import vf
from lib.vf import Ctx, open_known

TARGETS = ["theories/Props/C08.vo"]

RULE = ("proof obligations: one checker evaluation per extracted reducer, view and callee summary (Coq vm_compute). "
        "run-time validation: in store states reached by random plans of the shipped jobs every reducer (simple and structured "
        "payloads) and every view of every installed component is called directly: deep dump of the state, the payload and the "
        "component before/after, second call with equal arguments; plus random walks over random / shipped instances of the common "
        "classes. A case is distinct by (class, method, input state, payload); non-trivial = the call went through (did not raise)")

ASSUME = [
    "the classification of Python statements into effects by tools/tr_effects.py (each skeleton over-approximates the heap effects "
    "of the function it was extracted from): calls resolved by name and arity (narrowed by static annotations, which are trusted to "
    "be truthful), immutable values treated as fresh, `x.f` of a never-assigned field read once, a call behaves as its justified "
    "summary says, `is_rejected(events)` holds of the events of a rejecting return (both source facts re-verified syntactically on "
    "every run) -- validated by the run-time monitors and the unit examples, not proved",
    "pydantic (model_copy(deep=True), model_dump, constructors do not modify their arguments), built-in containers and operators",
    "'same in, same out' is read off the absence of Impure / WriteSelf / input mutation; it is additionally tested by calling twice",
    "the dispatcher glue (ReducerMethodWrappingDispatcher, StoreAdapter) is outside this property",
]


def err_of(log):
    return ec.err_of(log)


def known_match(entry, f):
    m = entry.get("match", {})
    return f.get("component") == m.get("component") and f.get("reducer") == m.get("reducer")


def run(ctx: Ctx) -> int:
    import tr_effects as T
    repo = str(vf.REPO)
    quick = not ctx.thorough
    # ---- 1. regenerate the skeletons from the current source
    meta = None
    try:
        files, meta = T.gen(repo)
        for n, t in files.items():
            ctx.write_gen(n, t)
    except Exception as e:
        ctx.broken.append("translator tools/tr_effects.py rejected the source: %r" % e)
    focus = set()
    if meta is not None:
        for k, why in meta["translator_errors"].items():
            ctx.broken.append("translator: %s: %s" % (k, why))
        for k, why in meta["rejected_by_python_mirror"].items():
            ctx.broken.append("checker rejects %s: %s" % (k, why))
            focus.add(tuple(k.split(".", 1)))
        for k, why in meta["callees_without_summary"].items():
            ctx.broken.append("callee %s has no justified summary: %s" % (k, why))
        for k in meta["summaries_not_justified_by_python_mirror"]:
            ctx.broken.append("summary of %s is not justified" % k)
        for ex in meta["examples"]:
            if ex["accepted"] != ex["expected_accepted"]:
                ctx.broken.append("unit example %s (%s.%s) is %s by translator + checker, expected %s" % (
                    ex["name"], ex["class"], ex["method"], "accepted" if ex["accepted"] else "rejected",
                    "accepted" if ex["expected_accepted"] else "rejected"))
        if not meta["reject_facts_verified"]:
            ctx.broken.append("the source facts behind the accepted/rejected case split (EventProvider.rejected builds a Tag.REJECT "
                              "event, is_rejected tests for it) no longer have the expected shape")
        ctx.cov["translators"] = {"tr_effects": {k: meta[k] for k in (
            "files_read", "reducers", "views", "classes_with_reducers_or_views", "callees_summarised", "n_summary_obligations",
            "deeply_mutating_callees", "top_level_mutating_callees", "callees_with_a_rejected_return_class", "classification",
            "statements", "primitive_attributes", "never_assigned_field_caching", "unknown_method_names", "translator_errors")}}
        ctx.cov["unit_examples"] = [{k: ex[k] for k in ("name", "class", "method", "expected_accepted", "accepted", "why")}
                                    for ex in meta["examples"]]
    # ---- 2. Coq: the checker evaluated on every skeleton, the soundness theorems
    mirror_clean = meta is not None and not ctx.broken
    if meta is not None:
        ok, log, failed = ctx.build(TARGETS)
        if not ok:
            ctx.broken.append("Coq build failed at %s: %s" % (failed, err_of(log)))
            ctx.obligations += 1
            if mirror_clean:
                ctx.broken.append("the Python mirror of the checker accepted everything but Coq did not: mirror and Model/Effects.v disagree")
        else:
            ctx.check_props("theories/Props/C08.v")
            if not mirror_clean and meta["rejected_by_python_mirror"]:
                ctx.broken.append("the Python mirror of the checker rejected a skeleton that Coq accepted: mirror and Model/Effects.v disagree")
    else:
        ctx.obligations += 1
    # ---- 3. run-time validation of the classification + implementation-side search
    broken_before = bool(ctx.broken)
    mult = 3 if broken_before else 1
    jobs = ec.job_pairs(ctx, 16 if quick else 64)
    f1, s1 = ec.monitor(ctx, jobs, 20 if quick else 40, 4 if quick else 8, (50 if quick else 330) * mult)
    f1 = [f for f in f1 if f["prop"] == "C08"]
    f2, s2, sample = HE.monitor(ctx, jobs, 20 if quick else 40, 4 if quick else 8, (50 if quick else 330) * mult)
    f3, s3 = HE.common_purity(ctx, 160 if quick else 1600, 10 if quick else 12, jobs[:4] if quick else jobs[:8])
    findings = f1 + f2 + f3
    s4 = None
    if focus and not findings:
        # an obligation broke: look for a concrete failing input of exactly those reducers / views, on every job
        f4, s4, _ = HE.monitor(ctx, HE.all_job_pairs(), 40, 12, 240 if quick else 900, focus=focus, seed_shift=1, reducers="all")
        findings += f4
    bad_tree, n_tree = HE.tree_shaped(ctx, jobs[:4])
    for b in bad_tree[:3]:
        ctx.broken.append("modelling assumption (states are trees of entities) fails: " + b)
    ctx.cov["impl_search"] = {"reducers_simple_payloads": {k: v for k, v in s1.items() if k != "classes"},
                              "views_and_structured_payloads": {k: v for k, v in s2.items() if k != "classes"},
                              "common_classes_random_walks": s3, "focused_search": s4,
                              "classes_exercised": len(set(s1.get("classes", {})) | set(s2.get("classes", {}))),
                              "default_state_entities_checked_distinct": n_tree,
                              "findings": len(findings)}
    ctx.cov["traces_validated_against_impl"] = s1.get("reducer_calls", 0) + s2.get("view_calls", 0) + s2.get("reducer_calls", 0)
    ctx.cov["evaluations"] = ctx.cov["traces_validated_against_impl"] + s3["cases"] + (meta["reducers"] + meta["views"] + meta["n_summary_obligations"] if meta else 0)
    ctx.cov["distinct_nontrivial"] = s1.get("distinct_calls", 0) + s2.get("distinct_calls", 0) + s3["distinct"]
    ctx.cov["rule"] = RULE
    ctx.cov["samples"] = sample or [{"note": "no view call went through"}]
    if meta:
        exercised = set(s1.get("classes", {})) | set(s2.get("classes", {}))
        roots = {k.split(".")[0] for k in meta["reducer_keys"] + meta["view_keys"]}
        ctx.cov["unmodelled"] = ["classes with skeletons that no shipped job installed in this run (proved, not monitored): %s"
                                 % sorted(roots - exercised)]
    ctx.cov["trusted_extra"] = ["translator tools/tr_effects.py (classification of statements into effects; see assumptions)",
                                "Python mirror of the checker is used only to NAME the failing reducer; the verdict on the obligations is Coq's"]
    # ---- 4. known findings
    opens = open_known("C08")
    unmatched, matched = [], collections.defaultdict(list)
    for f in findings:
        for e in opens:
            if known_match(e, f):
                matched[e["id"]].append(f)
                break
        else:
            unmatched.append(f)
    for e in opens:
        try:
            still, detail = HE.replay_input(e["witness"])
        except Exception as ex:
            still, detail = False, "witness could not be replayed: %r" % ex
        if still:
            ctx.known(e, detail)
        else:
            ctx.broken.append("known finding %s no longer reproduces (%s)" % (e["id"], detail))
    # ---- 5. verdict
    if unmatched:
        seen = set()
        for f in unmatched:
            k = (f["what"], f["component"], f["reducer"])
            if k in seen:
                continue
            seen.add(k)
            ctx.violation("impl-counterexample", "%s: %s.%s" % (f["what"], f["component"], f["reducer"]), input=f,
                          expected="input state, payload and component unchanged; second call equal",
                          observed=f["what"])
            if len(seen) >= 3:
                break
    elif ctx.broken:
        ctx.violation("proof-obligation", "; ".join(ctx.broken)[:1800],
                      input={"rejected": sorted(".".join(k) for k in focus), "searched": s4}, no_input=True)
    return ctx.finish("proof", ASSUME)


def replay(ctx, path):
    d = json.load(open(path))
    inp = d.get("input") or {}
    print(json.dumps({k: inp.get(k) for k in ("what", "component", "name", "reducer", "job", "variant", "payload")}, ensure_ascii=False))
    if d.get("kind") != "impl-counterexample" or "job" not in inp:
        print("nothing to re-execute (proof-obligation replay): %s" % d.get("what", "")[:500])
        return 0
    still, detail = HE.replay_input(inp)
    print("replay:", "STILL FAILING" if still else "no longer failing", "-", detail)
    if still:
        print("VIOLATION property=C08 replay=%s" % path)
        return 1
    return 0
