"""C07 -- a rejected action is reported alone and changes nothing."""
from __future__ import annotations

from lib import entitycheck as ec
from lib.vf import Ctx

RULE = ("correspondence: random walks (use/elapse/stop/trigger/reset) from default and random well-formed states of random and shipped "
        "instances of the 16 stateful common classes, each step one case (rejected uses are counted in the histogram); "
        "implementation-side search: in store states reached by random plans on all jobs every reducer of every installed component is "
        "called directly; a case is distinct by (class, reducer, input state, payload)")


def known_match(entry, f):
    m = entry.get("match", {})
    if entry.get("id") == "C07-raw-action-listeners":
        # identified by the listening keys: (listener component, raw action key) pairs of the reviewed list
        return (f.get("mechanism") == "raw-action-listener"
                and [f.get("component"), f.get("listened_key")] in m.get("listeners", []))
    return f["component"] == m.get("component") and f["reducer"] == m.get("reducer") and "changed the state" in f["what"]


def witness_replay(entry):
    """StackableBuffSkillComponent.use on a skill that is cooling down (or the recorded witness of another entry)."""
    if entry.get("id") == "C07-raw-action-listeners":
        from lib import h_dispatch
        return h_dispatch.replay_raw_listener_witness()
    from simaple.core.base import ActionStat, Stat
    from simaple.simulate.component.common.stackable_buff_skill import StackableBuffSkillComponent, StackableBuffSkillState
    from simaple.simulate.component.entity import Cooldown, Lasting, Stack
    from simaple.simulate.global_property import Dynamics
    c = StackableBuffSkillComponent(id="x", name="x", stat=Stat(attack_power=1), cooldown_duration=1000.0, delay=0.0,
                                    lasting_duration=500.0, maximum_stack=3)
    s = StackableBuffSkillState(cooldown=Cooldown(time_left=1000.0), lasting=Lasting(time_left=500.0, assigned_duration=500.0),
                                stack=Stack(stack=1, maximum_stack=3), dynamics=Dynamics(stat=ActionStat()))
    out, ev = c.use(None, s)
    rej = any(e["tag"] == "global.reject" for e in ev)
    return (rej and out.stack.stack != s.stack.stack), "rejected use: stack %d -> %d" % (s.stack.stack, out.stack.stack)


def dispatch_hook(ctx):
    """store-level claim: Props/C07_dispatch.v over Model/Dispatch.v + the H-dispatch tie and search"""
    from lib import h_dispatch
    wrapper_source(ctx)
    return h_dispatch.hook(ctx, "C07")


def wrapper_source(ctx):
    """the event plumbing of the component dispatcher (regularize / tag + automatic ACCEPT) and the store's address rules, regenerated
    from the tree under test (fail closed); Props/C07_wrapper_src.v proves them equal to the definitions of Model/Dispatch.v"""
    import tr_wrapper
    from lib.vf import REPO
    try:
        files, meta = tr_wrapper.gen(str(REPO))
    except Exception as e:      # noqa: BLE001
        ctx.prepare_coq()
        for f in (ctx.coq / "gen").glob("WrapperSrc.*"):
            f.unlink()
        ctx.broken.append("translator tools/tr_wrapper.py rejects the source: %s" % str(e)[:400])
        ctx.obligations += 1
        ctx.cov.setdefault("translators", {})["tr_wrapper"] = {"rejected": str(e)[:400]}
        return
    for n, t in files.items():
        ctx.write_gen(n, t)
    ctx.cov.setdefault("translators", {})["tr_wrapper"] = {"rejected": None, "functions": meta["functions"]}
    pf = "theories/Props/C07_wrapper_src.v"
    ok, log, failed = ctx.build([pf + "o"])
    if ok:
        ctx.check_props(pf)
    else:
        ctx.obligations += 1
        ctx.broken.append("the wrapper functions generated from the source are no longer the definitions of Model/Dispatch.v "
                          "(Proofs/WrapperTie.v): %s: %s" % (failed, ec.err_of(log)))


def run(ctx: Ctx) -> int:
    return ec.run_prop(ctx, "theories/Props/C07.v", ec.ASSUME_COMMON + [
        "StackableBuffSkillComponent.use is modelled as shipped (stack bumped before the availability test): refuted theorem + known finding",
        "store level: Props/C07_dispatch.v (a reducer answering (input state, [reject]) leaves the store unchanged, no ACCEPT) over "
        "Model/Dispatch.v, tied to simulate/base.py + component/base.py by the H-dispatch correspondence"],
        known_match, witness_replay, RULE, hook=dispatch_hook)


def replay(ctx, path):
    print(open(path).read()[:3000])
    return 0
