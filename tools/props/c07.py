"""C07 -- a rejected action is reported alone and changes nothing."""
from __future__ import annotations

from lib import entitycheck as ec
from lib.vf import Ctx

RULE = ("correspondence: random walks (use/elapse/stop/trigger/reset) from default and random well-formed states of random and shipped "
        "instances of the 16 stateful common classes, each step one case (rejected uses are counted in the histogram); "
        "implementation-side search: in store states reached by random plans on all jobs every reducer of every installed component is "
        "called directly; a case is distinct by (class, reducer, input state, payload)")


def known_match(entry, f):
    m = entry.get("match", {})
    if entry.get("id") == "C07-raw-action-listeners":
        # identified by the listening keys: (listener component, raw action key) pairs of the reviewed list
        return (f.get("mechanism") == "raw-action-listener"
                and [f.get("component"), f.get("listened_key")] in m.get("listeners", []))
    return f["component"] == m.get("component") and f["reducer"] == m.get("reducer") and "changed the state" in f["what"]


def witness_replay(entry):
    """StackableBuffSkillComponent.use on a skill that is cooling down (or the recorded witness of another entry)."""
    if entry.get("id") == "C07-raw-action-listeners":
        from lib import h_dispatch
        return h_dispatch.replay_raw_listener_witness()
    from simaple.core.base import ActionStat, Stat
    from simaple.simulate.component.common.stackable_buff_skill import StackableBuffSkillComponent, StackableBuffSkillState
    from simaple.simulate.component.entity import Cooldown, Lasting, Stack
    from simaple.simulate.global_property import Dynamics
    c = StackableBuffSkillComponent(id="x", name="x", stat=Stat(attack_power=1), cooldown_duration=1000.0, delay=0.0,
                                    lasting_duration=500.0, maximum_stack=3)
    s = StackableBuffSkillState(cooldown=Cooldown(time_left=1000.0), lasting=Lasting(time_left=500.0, assigned_duration=500.0),
                                stack=Stack(stack=1, maximum_stack=3), dynamics=Dynamics(stat=ActionStat()))
    out, ev = c.use(None, s)
    rej = any(e["tag"] == "global.reject" for e in ev)
    return (rej and out.stack.stack != s.stack.stack), "rejected use: stack %d -> %d" % (s.stack.stack, out.stack.stack)


def dispatch_hook(ctx):
    """store-level claim: Props/C07_dispatch.v over Model/Dispatch.v + the H-dispatch tie and search"""
    from lib import h_dispatch
    return h_dispatch.hook(ctx, "C07")


def run(ctx: Ctx) -> int:
    return ec.run_prop(ctx, "theories/Props/C07.v", ec.ASSUME_COMMON + [
        "StackableBuffSkillComponent.use is modelled as shipped (stack bumped before the availability test): refuted theorem + known finding",
        "store level: Props/C07_dispatch.v (a reducer answering (input state, [reject]) leaves the store unchanged, no ACCEPT) over "
        "Model/Dispatch.v, tied to simulate/base.py + component/base.py by the H-dispatch correspondence"],
        known_match, witness_replay, RULE, hook=dispatch_hook)


def replay(ctx, path):
    print(open(path).read()[:3000])
    return 0
