"""C04 -- incremental re-run (with hint) returns exactly what a full run returns."""
from __future__ import annotations

import json

from lib import enginecheck as ec
from lib import h_engine, simenv
from lib.vf import Ctx

KINDS = ["append", "truncate", "edit", "insert", "delete", "same", "edit_debug", "respell", "edit_debug"]


def edit(rng, job, variant, lines, kind, pos):
    new = list(lines)
    pos = max(0, min(pos, len(new) - 1)) if new else 0
    if kind == "append":
        new += [simenv.random_command_text(rng, job, variant) for _ in range(rng.randint(1, 4))]
    elif kind == "truncate":
        new = new[:max(1, pos)]
    elif kind == "edit":
        # edits that keep the command before a RESOLVE but change what is resolved are the interesting ones
        new[pos] = simenv.random_command_text(rng, job, variant)
    elif kind == "insert":
        new.insert(pos, simenv.random_command_text(rng, job, variant))
    elif kind == "delete" and len(new) > 1:
        del new[pos]
    elif kind == "edit_debug":
        # change only the expression of an existing console line (or plant one early in the plan)
        idx = [i for i, l in enumerate(new) if l.startswith("!debug")]
        k = rng.randint(1, 9)
        if idx:
            new[rng.choice(idx)] = '!debug "viewer(\'clock\') + %d"' % k
        else:
            new.insert(rng.randint(0, min(8, len(new))), '!debug "viewer(\'clock\') + %d"' % k)
    elif kind == "respell":
        # same meaning, different text: ELAPSE 100 -> ELAPSE 100.0, CAST x -> USE x
        idx = [i for i, l in enumerate(new) if l.startswith(("ELAPSE", "CAST"))]
        if idx:
            i = rng.choice(idx)
            new[i] = ("ELAPSE %s" % repr(float(new[i].split()[1]) + 0.0) + "0") if new[i].startswith("ELAPSE") else "USE" + new[i][4:]
    return new or ["ELAPSE 1"]


def positions(rng, n):
    """edit positions on both sides of every checkpoint boundary (indices are 1-based in the history)"""
    hot = [p for b in (10, 20, 30) for p in (b - 2, b - 1, b, b + 1) if 0 <= p < n]
    return hot + [rng.randrange(n) for _ in range(3)]


def meta_case(job, variant, lines):
    """different metadata => plain full run; compared on the implementation only"""
    from simaple.api.base import run_plan, run_plan_with_hint
    p1 = h_engine.plan_text(job, variant, lines, author="a")
    p2 = h_engine.plan_text(job, variant, lines, author="b")
    hist = run_plan(p1)
    got = run_plan_with_hint(p1, hist, p2)
    want = run_plan(p2)
    return h_engine.resp_json(got) == h_engine.resp_json(want)


def translate(ctx: Ctx) -> bool:
    """run_plan_with_hint and the two contains_chekcpoint methods, regenerated from the tree under test (fail closed)"""
    import tr_hint
    from lib.vf import REPO
    try:
        files, meta = tr_hint.gen(str(REPO))
    except Exception as e:      # noqa: BLE001
        ctx.prepare_coq()
        for f in (ctx.coq / "gen").glob("HintSrc.*"):
            f.unlink()
        ctx.broken.append("translator tools/tr_hint.py rejects the source: %s" % str(e)[:300])
        ctx.obligations += 1
        ctx.cov.setdefault("translators", {})["tr_hint"] = {"files": [tr_hint.API, tr_hint.MODELS], "rejected": str(e)[:300]}
        return False
    for n, t in files.items():
        ctx.write_gen(n, t)
    ctx.cov.setdefault("translators", {})["tr_hint"] = {"files": [tr_hint.API, tr_hint.MODELS], "rejected": None, "functions": meta["functions"]}
    return True


def run(ctx: Ctx) -> int:
    ec.build_and_check_props(ctx, ["theories/Props/C04.v"] + (["theories/Props/C04_hint_src.v"] if translate(ctx) else []))
    budget = ec.Budget(1200 if ctx.thorough else 130)
    shards, findings, infos, samples = {}, [], {}, []
    distinct = set()
    hops_total = 0
    kinds_hist = {}
    schedule = ec.job_schedule(ctx, 60 if ctx.thorough else 16)
    n_directed = 8 if ctx.thorough else 4
    for si, (job, variant) in enumerate(schedule):
        if not budget.ok():
            break
        rng = ctx.rng
        if si < n_directed:
            # directed: the operation log the incremental run steps back to (history index 10, the last one with a retained
            # checkpoint) is a CAST of a skill with a delay -- two play logs, use and elapse -- and the new plan continues right
            # there with the command that reads the pending events of the LAST play (RESOLVE / KEYDOWNSTOP of that skill)
            x = rng.choice(list(simenv.delay_skill_names(job, variant)))
            filler = ["ELAPSE %s" % rng.choice([30, 100, 500]) for _ in range(9)]
            # ... or a USE of it: one play log whose delay event is still pending, so the RESOLVE that follows elapses a time read
            # from the RESTORED events (after a JSON writer that prints 720.0 as 720 an integer: fixed finding C04-resolve-int-delay)
            verb = "CAST" if si % 4 < 2 else "USE"
            prev = filler + ['%s "%s"' % (verb, x), "ELAPSE 1000", "ELAPSE 7"]
            tail = rng.choice([['RESOLVE "%s"' % x, "ELAPSE 100"], ['KEYDOWNSTOP "%s"' % x, 'RESOLVE "%s"' % x], ['RESOLVE "%s"' % x]])
            if verb == "USE":
                tail = ['RESOLVE "%s"' % x, "ELAPSE 100"]
            hops, kinds = [filler + ['%s "%s"' % (verb, x)] + tail], [("directed-boundary-%s" % verb.lower(), 10)]
            cur = hops[0]
            kinds_hist["directed-boundary-%s" % verb.lower()] = kinds_hist.get("directed-boundary-%s" % verb.lower(), 0) + 1
        else:
            n = rng.choice([9, 11, 12, 19, 21, 23, 31]) if si % 2 == 0 else rng.randint(3, 26)
            prev = simenv.random_plan(rng, job, variant, n)
            if rng.random() < 0.6:      # an early console line, before the first retained checkpoint
                prev.insert(rng.randint(0, min(6, len(prev))), '!debug "viewer(\'clock\')"')
            hops, cur, kinds = [], prev, []
        for _h in range(rng.choice([1, 2, 3]) if si >= n_directed else 0):
            kind = rng.choice(KINDS)
            pos = rng.choice(positions(rng, len(cur)))
            cur = edit(rng, job, variant, cur, kind, pos)
            # make the boundary command a RESOLVE of the preceding CAST now and then
            if kind in ("edit", "insert") and pos > 0 and cur[pos - 1].startswith("CAST") and rng.random() < 0.6:
                cur[pos] = "RESOLVE " + cur[pos - 1][5:]
            hops.append(cur)
            kinds.append((kind, pos))
            kinds_hist[kind] = kinds_hist.get(kind, 0) + 1
        via_json = bool(si % 2)
        try:
            txt, mism, rec = h_engine.scenario_hint(job, variant, prev, hops, via_json=via_json)
        except Exception as e:
            findings.append({"job": job, "variant": variant, "previous_plan": prev, "hops": hops, "via_json": via_json,
                             "what": "exception: %r" % e})
            continue
        name = "c04_%03d" % si
        shards[name] = txt
        infos[name] = {"job": job, "variant": variant, "previous_plan": prev, "edits": kinds, "hops": hops,
                       "via_json": via_json, "plays": rec.plays, "conflicts": rec.conflicts}
        for m in mism:
            findings.append(dict(m, job=job, variant=variant, what="run_plan_with_hint differs from run_plan (JSON)"))
        hops_total += len(hops)
        distinct.add(json.dumps([job, variant, prev, hops, via_json], ensure_ascii=False))
        if len(samples) < 2:
            samples.append({"job": job, "variant": variant, "previous_plan": prev, "edits": kinds, "new_plans": hops})
    # directed (fixed finding C04-dot-ticks-in-dict-order): two damage-over-time effects applied in non-alphabetical order before the
    # checkpointed log the incremental run steps back to; the hint also travels through the member-sorting JSON writer
    try:
        wprev = ['CAST "미스트 이럽션 VI"', 'RESOLVE "미스트 이럽션 VI"', 'KEYDOWNSTOP "미스트 이럽션 VI"', 'USE "이프리트"',
                 '!debug "viewer(\'clock\')"', "ELAPSE 480", "ELAPSE 0.5", "ELAPSE 100", 'USE "도트 퍼니셔"', 'RESOLVE "이그나이트"',
                 'CAST "플레임 헤이즈 VI"', 'CAST "포이즌 미스트"', "ELAPSE 0.1", 'USE "포이즌 노바"', "ELAPSE 0", "ELAPSE 3000"]
        wnew = list(wprev)
        wnew[10] = 'USE "플레임 헤이즈 VI"'
        txt, mism, rec = h_engine.scenario_hint("archmagefb", 1, wprev, [wnew], via_json=True)
        shards["c04_dot"] = txt
        infos["c04_dot"] = {"job": "archmagefb", "variant": 1, "previous_plan": wprev, "edits": [("directed-dot-order", 10)], "hops": [wnew],
                            "via_json": True, "plays": rec.plays, "conflicts": rec.conflicts}
        for m in mism:
            findings.append(dict(m, job="archmagefb", variant=1, what="run_plan_with_hint differs from run_plan (JSON)"))
        hops_total += 1
        kinds_hist["directed-dot-order"] = 1
    except Exception as e:
        findings.append({"job": "archmagefb", "variant": 1, "what": "directed DOT-order scenario raised %r" % e})
    meta_ok = True
    try:
        job, variant = ec.job_schedule(ctx, 1)[0]
        meta_ok = meta_case(job, variant, simenv.random_plan(ctx.rng, job, variant, 6))
        if not meta_ok:
            findings.append({"job": job, "variant": variant, "what": "different metadata: hint run differs from full run"})
    except Exception as e:
        findings.append({"what": "different-metadata case raised %r" % e})
    res = ec.run_engine_shards(ctx, shards, h_engine.parse_hint_result)
    diffs = []
    for name, r in sorted(res.items()):
        if not (isinstance(r, list) and all(x == "ok" for x in r) and len(r) == len(infos[name]["hops"])):
            diffs.append({"scenario": {k: infos[name][k] for k in ("job", "variant", "previous_plan", "hops", "via_json")},
                          "model_vs_implementation": r})
        if infos[name]["conflicts"]:
            diffs.append({"scenario": infos[name]["job"], "model_vs_implementation": infos[name]["conflicts"][:2]})
    ctx.cov.update({
        "evaluations": hops_total, "distinct_nontrivial": len(distinct), "samples": samples,
        "traces_validated_against_impl": len(res),
        "rule": "previous plan (lengths chosen to straddle the every-10th-checkpoint boundaries) then chains of 1-3 edits "
                "(append/truncate/edit/insert/delete/same) at positions b-2..b+1 around b=10,20,30 or random, the edited command "
                "often a RESOLVE of the preceding CAST; each hop's hint is the previous hop's incremental output; hint passed in "
                "memory or through JSON alternately; plus one different-metadata case; distinct = distinct (job, env, plans, transport)",
        "edit_kinds": kinds_hist,
        "correspondence": {"scenarios": len(res), "differences": len(diffs)},
        "impl_search": {"hops_compared_as_json": hops_total, "counterexamples": len(findings), "different_metadata_ok": meta_ok},
    })
    for d in diffs:
        ctx.broken.append("engine/api model and implementation disagree: %s" % json.dumps(d, ensure_ascii=False)[:300])
    if findings:
        for f in findings[:3]:
            ctx.violation("impl-counterexample", f.get("what", "hint run differs"), input=f)
    elif ctx.broken:
        ctx.violation("correspondence" if diffs else "proof-obligation", "; ".join(ctx.broken)[:1500],
                      input={"differences": diffs[:3]}, no_input=True)
    return ctx.finish("proof", ASSUME)


ASSUME = [
    "restore (save s) = s; play is a function of (store, action); every field of a response other than events, clock, "
    "action and the kept checkpoint is a function of the play log's checkpoint (checked: one checkpoint never shows two view sets)",
    "plan text parsing, YAML metadata and environment construction are outside the model (C14/C16); equal metadata is "
    "the model's precondition, different metadata is the definitional full run (tested)",
    "hand-written model coq/theories/Model/Engine.v (extract, run_hint) tied to api/base.py by the trace-driven correspondence",
]


def replay(ctx, path):
    r = json.load(open(path))
    i = r["input"]
    print(json.dumps(i, ensure_ascii=False, indent=1)[:3000])
    if "previous_plan" in i and "new_plan" in i:
        _t, mism, _ = h_engine.scenario_hint(i["job"], i["variant"], i["previous_plan"], [i["new_plan"]], via_json=i.get("via_json", False))
        print("still failing" if mism else "no longer failing")
        return 1 if mism else 0
    return 0
