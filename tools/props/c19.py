"""C19 -- optimizers stay within budget and bounds, keep presets, never do worse.

1. T-fields: regenerate gen/CloneFields.v from simaple/optimizer/*.py (constructor parameters vs clone() keywords).
2. Build and check Props/C19.v (step-wise optimizer, iterator, weapon potential, clone obligations).
3. Correspondence: the real StepwizeOptimizer on table-driven synthetic targets, the real step iterator and the real
   WeaponPotentialOptimizer against the executable Coq model (Model/Greedy.v, Model/GreedyInst.v).
4. Known findings (none open at the time of writing).
5. Implementation-side search: the property as stated, monitored on the real targets over damage logics x reference
   stats x budgets x armours x presets; weapon potentials against an independent brute force.
"""
from __future__ import annotations

import json
import os
import subprocess
import time
from collections import Counter
from concurrent.futures import ThreadPoolExecutor

from lib import h_opt, h_targets
from lib.vf import PY, REPO, VERIF, Ctx, open_known

PROPS = "theories/Props/C19.v"
TARGETS = ["theories/Props/C19.vo", "theories/Model/GreedyInst.vo", "theories/Lib/Corr.vo"]


def worker(job: dict, timeout=900):
    """run one h_opt job in a fresh interpreter against REPO's tree"""
    env = dict(os.environ)
    env["PYTHONPATH"] = "%s:%s" % (REPO, VERIF / "tools")
    env["PYTHONDONTWRITEBYTECODE"] = "1"
    env["PYTHONHASHSEED"] = "0"
    try:
        p = subprocess.run([PY, str(VERIF / "tools" / "lib" / "h_opt.py")], input=json.dumps(job), text=True,
                           capture_output=True, env=env, timeout=timeout, cwd=str(VERIF))
    except subprocess.TimeoutExpired:
        return None, "timeout after %ss" % timeout
    if "@@RESULT@@" not in p.stdout:
        return None, (p.stderr or p.stdout)[-1500:]
    return json.loads(p.stdout.split("@@RESULT@@", 1)[1]), None


def parallel(jobs, timeout=900):
    with ThreadPoolExecutor(min(16, max(1, len(jobs)))) as ex:
        return list(ex.map(lambda j: worker(j, timeout), jobs))


# ------------------------------------------------------------------------------------------ step 1
def translate(ctx: Ctx):
    import tr_fields
    try:
        files, meta = tr_fields.gen(str(REPO))
    except Exception as e:
        ctx.broken.append("translator tr_fields rejected simaple/optimizer: %r" % e)
        ctx.prepare_coq()                 # fail closed: no stale table from setup may stand in for the source
        for f in (ctx.coq / "gen").glob("CloneFields.*"):
            f.unlink()
        return None
    for n, t in files.items():
        ctx.write_gen(n, t)
    # readable diagnosis of what the Coq obligation `forallb clone_ok clone_targets = true` will say
    dropped = []
    for t in meta["targets"]:
        kw = dict(t["clone_kwargs"])
        asg = dict(t["assigns"])
        for p in t["params"]:
            if p not in kw:
                dropped.append("%s.clone() does not forward %s" % (t["name"], p))
        for a in t["reads"]:
            if kw.get(asg.get(a)) != a:
                dropped.append("%s: objective attribute %s is not restored by clone()" % (t["name"], a))
    meta["dropped"] = sorted(set(dropped))
    ctx.cov["translators"] = {"tr_fields": {"files": sorted({t["file"] for t in meta["targets"]}),
                                            "classes": [t["name"] for t in meta["targets"]], "not_forwarded": meta["dropped"]}}
    return meta


# ------------------------------------------------------------------------------------------ step 3
def correspondence(ctx: Ctx, n_syn: int, iter_max_n: int, n_weapon: int):
    diffs, findings = [], []
    nw = 8
    jobs = [{"job": "synthetic", "seed": ctx.seed + 1900 + k, "n": n_syn // nw, "fixed": k == 0} for k in range(nw)]
    pairs = [[n, d] for n in range(0, iter_max_n + 1) for d in range(0, 7)]
    jobs.append({"job": "iterator", "pairs": pairs})
    wjobs = 4
    jobs += [{"job": "weapon", "seed": ctx.seed + 1950 + k, "n": n_weapon // wjobs} for k in range(wjobs)]
    res = parallel(jobs)
    syn, iters, weapons = [], [], []
    for job, (r, err) in zip(jobs, res):
        if r is None:
            ctx.broken.append("harness job %s did not run: %s" % (job["job"], err))
            continue
        {"synthetic": syn, "iterator": iters, "weapon": weapons}[job["job"]].extend(r)
    # ---- shards
    shards, index = {}, {}
    for k in range(0, len(syn), 400):
        name = "c19_syn_%03d" % (k // 400)
        chunk = syn[k:k + 400]
        shards[name] = h_opt.shard([h_opt.coq_case(x["case"], x["res"]) for x in chunk])
        index[name] = [("synthetic", x) for x in chunk]
    if iters:
        shards["c19_iter"] = h_opt.shard([h_opt.coq_iter_case(x) for x in iters])
        index["c19_iter"] = [("iterator", x) for x in iters]
    wp_ok = [x for x in weapons if x.get("coq")]
    for k in range(0, len(wp_ok), 6):
        name = "c19_wp_%03d" % (k // 6)
        chunk = wp_ok[k:k + 6]
        shards[name] = h_opt.shard([h_opt.coq_weapon_case(x["coq"], with_unpruned=(j == 0)) for j, x in enumerate(chunk)])
        index[name] = [("weapon", x) for x in chunk]
    out = ctx.coq_eval(shards, timeout=1200)
    for name, (rc, txt) in sorted(out.items()):
        bad = h_opt.parse_bad(txt) if rc == 0 else None
        if bad is None:
            diffs.append({"shard": name, "what": "shard did not evaluate", "output": txt[-400:]})
            continue
        for i in bad:
            kind, x = index[name][i]
            if kind == "synthetic":
                diffs.append({"what": "StepwizeOptimizer differs from Model/Greedy.v", "mode": "synthetic", "case": x["case"],
                              "implementation": x["res"]})
            elif kind == "iterator":
                diffs.append({"what": "step iterator differs from the model", "mode": "iterator", "n": x["n"], "depth": x["depth"],
                              "implementation": x["tuples"][:40]})
            else:
                diffs.append({"what": "WeaponPotentialOptimizer differs from the model (candidates or optimum)", "mode": "weapon",
                              "config": x["config"], "implementation": x["info"]})
    # ---- python-side side conditions of the synthetic runs
    hist = Counter()
    distinct = set()
    float_ties = 0
    for x in syn:
        hist.update(x["features"])
        o = x["res"]["outcome"]
        if o["kind"] != "Done" or o["steps"] > 0:
            distinct.add(json.dumps(x["case"], sort_keys=True))
        if not x["deterministic"]:
            findings.append({"what": "same inputs, different result (synthetic target)", "mode": "synthetic", "case": x["case"]})
        if not x["float_agrees"]:
            if x.get("tie"):
                float_ties += 1
            else:
                diffs.append({"what": "int/float run of the same tables differs from the exact run without a tie",
                              "mode": "synthetic", "case": x["case"], "exact": x["res"], "float": x["float"]})
    for x in weapons:
        for f in x.get("findings") or []:
            findings.append(dict(f, mode="weapon", config=x["config"]))
        if x.get("harness_error"):
            ctx.broken.append("weapon harness could not run a configuration: %s" % x["harness_error"][:300])
    ctx.cov["correspondence"] = {
        "synthetic_cases": len(syn), "iterator_pairs": len(iters), "weapon_configs": len(weapons),
        "weapon_skipped_outside_domain": sum(1 for x in weapons if x.get("skipped")),
        "differences": len(diffs), "float_vs_exact_excused_by_exact_tie": float_ties,
        "input_histogram": dict(sorted(hist.items())),
        "iterator_tuples_compared": sum(len(x["tuples"]) for x in iters),
        "weapon_candidate_counts": sorted({(x["info"]["n_cands"], x["info"]["n_cands_emblem"]) for x in weapons if x.get("info")}),
    }
    return diffs, findings, syn, weapons, distinct


# ------------------------------------------------------------------------------------------ step 5
def impl_search(ctx: Ctx, n_real: int, n_weapon: int, focus=None):
    nw = 12
    jobs = [{"job": "real", "seed": ctx.seed + 1990 + k, "n": n_real // nw} for k in range(nw)]
    if focus:
        jobs.append({"job": "real", "seed": ctx.seed + 77, "configs": focus})
    if n_weapon:
        jobs += [{"job": "weapon", "seed": ctx.seed + 2050 + k, "n": n_weapon // 4} for k in range(4)]
    res = parallel(jobs)
    findings, rows = [], []
    for job, (r, err) in zip(jobs, res):
        if r is None:
            ctx.broken.append("implementation-side search job %s did not run: %s" % (job["job"], err))
            continue
        for x in r:
            x["mode"] = job["job"]
            rows.append(x)
            if x.get("harness_error"):
                ctx.broken.append("harness could not run a %s configuration: %s" % (job["job"], x["harness_error"][:300]))
            for f in x.get("findings") or []:
                findings.append(dict(f, mode=job["job"], config=x["config"]))
    real = [x for x in rows if x["mode"] == "real"]
    ran = [x for x in real if x.get("info")]
    per_target = Counter(x["config"]["target"] for x in ran)
    ctx.cov["impl_search"] = {
        "real_configs": len(real), "skipped_outside_positive_damage_domain": sum(1 for x in real if x.get("skipped")),
        "per_target": dict(per_target),
        "logics": dict(Counter(x["config"]["logic"]["cls"] for x in ran)),
        "armours": dict(Counter(str(x["config"]["armor"]) for x in ran)),
        "non_default_armour_changes_result": sum(1 for x in ran if x["info"].get("armour_changes_result")),
        "with_presets": sum(1 for x in ran if x["info"].get("preset")),
        "start_over_budget": sum(1 for x in ran if x["info"].get("start_over_budget")),
        "runs_with_steps": sum(1 for x in ran if x["info"].get("steps")),
        "legal_affordable_increments_left_at_termination": sum(x["info"].get("legal_affordable_left", 0) for x in ran),
        "weapon_configs": sum(1 for x in rows if x["mode"] == "weapon"),
        "counterexamples": len(findings),
    }
    return findings, rows


def focus_configs(ctx: Ctx, meta):
    """when the clone obligation broke: the classes concerned, with non-default armours"""
    import random
    rng = random.Random(ctx.seed + 5)
    names = {"HyperstatTarget": "hyperstat", "UnionSquadTarget": "union_squad", "UnionOccupationTarget": "union_occupation",
             "LinkSkillTarget": "link"}
    kinds = sorted({names[d.split(".")[0].split(":")[0]] for d in (meta or {}).get("dropped", [])
                    if d.split(".")[0].split(":")[0] in names}) or list(names.values())
    out = []
    for i in range(24):
        # plain generator, then force a non-default armour inside the positive domain
        cfg = {"target": kinds[i % len(kinds)], "logic": {"cls": rng.choice(h_opt.LOGICS), "arc": 1.2, "mastery": 0.9},
               "stat": h_opt.gen_stat(rng), "armor": rng.choice([0, 100, 250])}
        cfg["stat"]["ignored_defence"] = float(rng.choice([70, 85, 95]))
        k = cfg["target"]
        cfg.update({"hyperstat": {"budget": 300, "step": 1, "level": 200},
                    "union_squad": {"budget": 12, "step": 1, "preset_jobs": ["archmagefb"]},
                    "union_occupation": {"budget": 60, "step": 2, "preset_state": None},
                    "link": {"budget": 8, "step": 1, "preset_jobs": ["archmagefb"]}}[k])
        out.append(cfg)
    return out


# ------------------------------------------------------------------------------------------ run
def err_of(log: str) -> str:
    ls = [l for l in log.splitlines() if l.strip()]
    for i, l in enumerate(ls):
        if l.startswith("Error"):
            return " ".join(ls[max(0, i - 1):i + 3])[:400]
    return " ".join(ls[-3:])[:400]


def run(ctx: Ctx) -> int:
    t0 = time.time()
    meta = translate(ctx)
    ok, log, failed = ctx.build(TARGETS)
    if ok:
        props_ok = ctx.check_props(PROPS)
        if props_ok and ctx.thorough:
            from lib.vf import sh
            cmd = "coqchk -silent -o -Q theories V -Q gen G V.Props.C19"
            rc, out = sh("timeout 900 " + cmd, cwd=ctx.coq, timeout=930)
            ctx.checker_cmds.append(cmd)
            clean = rc == 0 and "Axioms: <none>" in " ".join(out.split())
            ctx.cov["coqchk"] = {"cmd": cmd, "rc": rc, "axioms_none": clean}
            if not clean:
                ctx.broken.append("coqchk does not re-check the closure of Props/C19.vo cleanly: %s" % out[-400:])
    else:
        src = (ctx.coq / PROPS).read_text() if (ctx.coq / PROPS).exists() else ""
        ctx.obligations += max(1, src.count("\nTheorem "))
        what = "Coq build failed at %s: %s" % (failed, err_of(log))
        if meta and meta.get("dropped") and failed and "GreedyCloneP" in failed:
            what = "proof obligation clone_targets_ok (C19_clone_preserves_objective) fails: " + "; ".join(meta["dropped"])
        ctx.broken.append(what)
    ctx.log("props: %d/%d obligations, %.0fs" % (ctx.discharged, ctx.obligations, time.time() - t0))

    n_syn = 16000 if ctx.thorough else 800
    diffs, findings, syn, weapons, distinct = correspondence(
        ctx, n_syn, 9 if ctx.thorough else 7, 120 if ctx.thorough else 16)
    for d in diffs:
        ctx.broken.append("model and implementation disagree: %s" % json.dumps(d, ensure_ascii=False, default=str)[:300])
    ctx.log("correspondence: %d synthetic, %d differences, %.0fs" % (len(syn), len(diffs), time.time() - t0))
    # the REAL targets: objectives regenerated from the tree (tr_targets), Props/C19_targets.v, tie to the real objects
    findings += h_targets.run(ctx)

    for e in open_known("C19"):          # none at the time of writing; kept for the decision logic
        r, err = worker({"job": e["witness"]["mode"], "seed": 0, "configs": [e["witness"].get("config")],
                         "cases": [e["witness"].get("case")]})
        still = bool(r) and any(x.get("findings") for x in r)
        if still:
            ctx.known(e, "witness still fails")
        else:
            ctx.broken.append("known finding %s no longer reproduces" % e["id"])

    big = ctx.thorough or bool(ctx.broken)
    focus = focus_configs(ctx, meta) if any("clone" in b for b in ctx.broken) else None
    f2, rows = impl_search(ctx, 2400 if ctx.thorough else (480 if big else 144), 160 if ctx.thorough else 0, focus)
    findings += f2
    ctx.log("implementation-side search: %d configurations, %d findings, %.0fs" % (len(rows), len(f2), time.time() - t0))

    nontrivial_real = {json.dumps(x["config"], sort_keys=True) for x in rows if x.get("info") and
                       (x["info"].get("steps") or x["info"].get("full"))}
    nontrivial_wp = {json.dumps(x["config"], sort_keys=True) for x in weapons if x.get("info")}
    ctx.cov.update({
        "evaluations": len(syn) + ctx.cov["correspondence"]["iterator_pairs"] + len(weapons) + len(rows),
        "distinct_nontrivial": len(distinct) + len(nontrivial_real) + len(nontrivial_wp),
        "rule": "synthetic: random table-driven targets (1-4 slots, maximum step 1-3, step size 0-5, separable sums/products, "
                "full lookup tables with falling/zero/negative values, budgets placed on and next to the cost of a reachable "
                "state, start states inside/at/above the maximum and over budget, small iteration limits) run through the real "
                "StepwizeOptimizer with Fraction-valued tables and compared with Model/Greedy.v on outcome, step count and every "
                "visited state; non-trivial = at least one accepted increment or an exception; distinct = distinct case JSON. "
                "iterator: all (n, depth) with n <= 7 (9 thorough), depth <= 6. weapon: candidate lists, optimum and (one per "
                "shard) unpruned optimum against Model/GreedyInst.v. real: random damage logic x reference stat x armour x budget "
                "x presets per target; non-trivial = optimizer took at least one step; distinct = distinct configuration JSON",
        "samples": [{"synthetic_case": syn[2]["case"], "implementation": syn[2]["res"]}] if len(syn) > 2 else
                   [{"note": "no synthetic case ran"}],
        "model_files": ["Model/Greedy.v", "Model/GreedyInst.v", "Model/GreedyClone.v", "gen/CloneFields.v"],
        "traces_validated_against_impl": len(syn),
        "unmodelled": ["value/cost of the real targets (pydantic Stat arithmetic, Hyperstat/UnionSquad/LinkSkillset tables) are the "
                       "abstract functions value, cost of the theorems; their positivity and monotonicity are monitored, not proved",
                       "PresetOptimizer (preset.py) orchestration: only the five optimizers it calls are covered"],
        "trusted_extra": ["tools/tr_fields.py (ast reader of __init__/clone/get_value), tools/lib/h_opt.py (synthetic targets, "
                          "encoders, independent weapon-potential brute force)"],
    })
    if len(ctx.cov["samples"]) and rows:
        ex = next((x for x in rows if x.get("info") and x["info"].get("steps")), None)
        if ex:
            ctx.cov["samples"].append({"real_config": ex["config"], "observed": ex["info"]})

    if findings:
        seen = set()
        for f in findings:
            key = f["what"]
            if key in seen:
                continue
            seen.add(key)
            inp = {"mode": f.get("mode"), "config": f.get("config"), "case": f.get("case")}
            ctx.violation("impl-counterexample", "C19: " + f["what"], input=inp,
                          expected="property C19 holds", observed={k: v for k, v in f.items() if k not in ("config", "case")})
            if len(seen) >= 3:
                break
    elif ctx.broken:
        d0 = diffs[0] if diffs else None
        ctx.violation("correspondence" if diffs else "proof-obligation", "; ".join(ctx.broken)[:1500],
                      input={"mode": d0.get("mode"), "case": d0.get("case"), "config": d0.get("config")} if d0 else
                      {"differences": []},
                      expected="model and implementation agree; all obligations proved",
                      observed=diffs[:3], no_input=True)
    return ctx.finish("proof", ASSUME)


ASSUME = [
    "real-number reading: value and cost are exact rationals (the synthetic correspondence runs the real optimizer on Fractions; "
    "an int/float run of the same tables is compared as well and may differ only where two rewards tie exactly)",
    "never-worse for the real targets needs the objective not to fall along a legal increment (C19_never_worse / "
    "C19_coded_never_worse hypothesis); monitored on every run of the real targets in the positive-damage domain, where it follows "
    "from C12 (monotone damage factor) and non-negative option tables",
    "no ZeroDivisionError for the real targets needs a non-zero value and a cost that changes with every increment "
    "(C19_coded_total hypotheses); monitored",
    "C19_wp_prune_safe assumes that replacing a useless line by the useful attack line of its tier never lowers the objective; "
    "checked on every weapon configuration by an independent brute force over the unpruned lines and once per shard inside Coq",
    "hand-written models Model/Greedy.v, Model/GreedyInst.v tied to optimizer.py, step_iterator.py, weapon_potential_optimizer.py "
    "by the correspondence run; Model/GreedyClone.v + generated gen/CloneFields.v tied by the translator tools/tr_fields.py",
]


def replay(ctx: Ctx, path) -> int:
    rp = json.loads(open(path).read())
    inp = rp.get("input") or {}
    mode = inp.get("mode")
    print("replaying %s (%s)" % (path, rp.get("what", "")[:200]))
    if mode == "synthetic" and inp.get("case"):
        r, err = worker({"job": "synthetic", "seed": 0, "cases": [inp["case"]]})
        if r is None:
            print("worker failed:", err)
            return 2
        x = r[0]
        print("implementation:", json.dumps(x["res"]))
        ok, log, failed = ctx.build(["theories/Model/GreedyInst.vo", "theories/Lib/Corr.vo"])
        out = ctx.coq_eval({"c19_replay": h_opt.shard([h_opt.coq_case(x["case"], x["res"])])})
        rc, txt = out["c19_replay"]
        bad = h_opt.parse_bad(txt) if rc == 0 else None
        print("model agrees with implementation:", bad == [])
        return 0 if bad == [] and x["deterministic"] else 1
    if mode == "targets" and inp.get("config"):
        return h_targets.replay(ctx, inp)
    if mode in ("real", "weapon") and inp.get("config"):
        r, err = worker({"job": mode, "seed": 0, "configs": [inp["config"]]})
        if r is None:
            print("worker failed:", err)
            return 2
        print(json.dumps(r[0], indent=1, default=str)[:3000])
        return 1 if r[0].get("findings") else 0
    print(json.dumps(rp, indent=1)[:3000])
    return 0
