"""C20 -- memoized environments equal freshly computed ones."""
from __future__ import annotations

import json
import multiprocessing
import os
import random
import re
import time
from collections import Counter
from concurrent.futures import ProcessPoolExecutor, as_completed

from lib import h_memo
from lib.vf import REPO, Ctx, open_known

PROPS = "theories/Props/C20.v"
MIN, BASE = "MinimalEnvironmentProvider", "BaselineEnvironmentProvider"
VARIANTS = ["mem", "xi", "file"]
WORKERS = 14


def err_of(log: str) -> str:
    m = re.search(r'File "\./([^"]+)", line (\d+).*?\n(Error:.*?)(?:\n\n|\Z)', log, re.S)
    if m:
        return "%s:%s %s" % (m.group(1), m.group(2), " ".join(m.group(3).split())[:300])
    return " ".join(log.strip().splitlines()[-3:])[:300]


# ------------------------------------------------------------------------------ scenarios
def scenarios(ctx: Ctx, extended: bool):
    """(cheap, costly): Minimal scenarios cost milliseconds, every distinct Baseline provider ~5-10 s."""
    rng = random.Random(ctx.seed + 20)
    big = ctx.thorough or extended
    cheap, costly = [], []
    n = [0]

    def sid(tag):
        n[0] += 1
        return "%s%04d" % (tag, n[0])

    # ---- Minimal: every field x variant x pattern (x job in thorough)
    jobs = h_memo.JOBS if big else [h_memo.JOBS[rng.randrange(len(h_memo.JOBS))], "bishop"]
    jobs = list(dict.fromkeys(jobs))
    alts = {}
    for job in jobs:
        alts[(MIN, job)] = h_memo.alternatives(MIN, job, rng)
        for f, vs in alts[(MIN, job)].items():
            for vi, v in enumerate(vs if big else vs[:1]):
                for k, variant in enumerate(VARIANTS):
                    for pattern in ("A", "B"):
                        cheap.append(h_memo.single_field_scenario(sid("m"), MIN, job, f, v, variant, pattern,
                                                                  proc=(variant == "file" and pattern == "B")))
    # ---- Minimal random walks
    for i in range(400 if big else 40):
        job = jobs[i % len(jobs)]
        cheap.append(h_memo.walk_scenario(sid("w"), rng, [MIN], job, VARIANTS[i % 3], rng.randint(8, 18), {MIN: alts[(MIN, job)]}))
    # ---- Baseline: every field once (quick: rotating variant, pattern A; thorough: all variants, both patterns)
    bjob = "bishop"
    balt = h_memo.alternatives(BASE, bjob, rng)
    k = 0
    for f, vs in balt.items():
        if big:
            for variant in VARIANTS:
                for pattern in ("A", "B"):
                    costly.append(h_memo.single_field_scenario(sid("b"), BASE, bjob, f, vs[0], variant, pattern,
                                                               proc=(variant == "file" and pattern == "A")))
        else:
            costly.append(h_memo.single_field_scenario(sid("b"), BASE, bjob, f, vs[0], VARIANTS[k % 3], "A", proc=(k % 2 == 0)))
        k += 1
    # ---- both kinds in one memo
    malt = {MIN: alts[(MIN, "bishop")] if (MIN, "bishop") in alts else h_memo.alternatives(MIN, "bishop", rng), BASE: balt}

    def cheap_fields(kind, f):     # Baseline walks mostly move fields outside the key (hits), sometimes a key field
        info_excluded = ("use_doping", "armor", "mob_level", "force_advantage", "v_skill_level", "hexa_skill_level",
                         "hexa_mastery_level", "v_improvements_level", "hexa_improvements_level", "weapon_attack_power")
        return 1.0 if (kind == MIN or f in info_excluded) else 0.25

    for i in range(10 if big else 2):
        costly.append(h_memo.walk_scenario(sid("x"), rng, [MIN, BASE] if i % 2 == 0 else [BASE, MIN], "bishop", VARIANTS[i % 3],
                                           8 if big else 7, malt, weights=cheap_fields))
    if big:
        # a second Baseline base (other job, all fields, one variant each)
        j2 = rng.choice([j for j in h_memo.JOBS if j != "bishop"])
        balt2 = h_memo.alternatives(BASE, j2, rng)
        for k, (f, vs) in enumerate(balt2.items()):
            costly.append(h_memo.single_field_scenario(sid("c"), BASE, j2, f, vs[-1], VARIANTS[k % 3], "B", proc=True))
    return cheap, costly


def invalid_scenarios():
    """Requests the provider rejects (unknown skill name): the memoizer must fail the same way and keep its memo."""
    out = []
    for i, variant in enumerate(VARIANTS):
        good = h_memo.base_cfg(MIN, "bishop")
        bad = h_memo.with_field(good, "hexa_skill_levels", {"no such skill": 3})
        a, b = {"kind": MIN, "cfg": good}, {"kind": MIN, "cfg": bad}
        out.append({"id": "e%d" % i, "variant": variant, "ops": [a, b, a, b], "label": {"type": "invalid-request", "kind": MIN}})
    return out


# ------------------------------------------------------------------------------ running
def run_all(ctx: Ctx, scs, meta, deadline):
    workdir = str(ctx.work / "memo")
    os.makedirs(workdir, exist_ok=True)
    results, skipped = [], 0
    mpc = multiprocessing.get_context("fork")
    with ProcessPoolExecutor(max_workers=WORKERS, mp_context=mpc) as ex:
        futs = {ex.submit(h_memo.run_scenario, (sc, meta, workdir)): sc for sc in scs}
        try:
            for fu in as_completed(futs, timeout=max(1.0, deadline - time.time())):
                try:
                    results.append(fu.result())
                except Exception as e:
                    results.append({"id": futs[fu]["id"], "scenario": futs[fu], "violations": [], "case": None,
                                    "hypothesis_failures": [{"what": "worker failed: %r" % e}], "requests": 0, "hits": 0,
                                    "misses": 0, "errors": 0, "crash": repr(e)})
        except Exception:      # TimeoutError: budget used up
            for fu in futs:
                if not fu.done():
                    fu.cancel()
                    skipped += 1
            ex.shutdown(wait=False, cancel_futures=True)
    results.sort(key=lambda r: r["id"])
    return results, skipped


def model_compare(ctx: Ctx, results):
    """Runs the Coq model on every case; returns list of (result, reason) that differ."""
    cases = [r for r in results if r.get("case") and r["case"]["expected"]]
    shards, index = {}, {}
    for k in range(0, len(cases), 300):
        name = "c20_%03d" % (k // 300)
        part = cases[k:k + 300]
        shards[name] = h_memo.shard_text([r["case"] for r in part])
        index[name] = part
    diffs = []
    if not shards:
        return diffs, 0
    for name, (rc, out) in sorted(ctx.coq_eval(shards).items()):
        m = re.search(r"=\s*\[(.*?)\]\s*:\s*list N", out, re.S)
        if rc != 0 or not m:
            diffs.append((None, "shard %s did not evaluate: %s" % (name, out[-400:])))
            continue
        body = m.group(1).strip()
        for tok in [t for t in re.split(r"[;\s]+", body) if t]:
            i = int(tok.replace("%N", ""))
            diffs.append((index[name][i], "model and implementation disagree on answers / hit trace / number of entries"))
    return diffs, len(cases)


def summarise(sc, res=None):
    """A history written compactly: the first provider of each class in full, later ones as the fields that changed."""
    ops, last = [], {}
    for o in sc["ops"]:
        if isinstance(o, str):
            ops.append(o)
        elif o["kind"] not in last:
            ops.append({"kind": o["kind"], "cfg": o["cfg"]})
            last[o["kind"]] = o["cfg"]
        else:
            prev = last[o["kind"]]
            ops.append({"kind": o["kind"], "changed_fields": {f: v for f, v in o["cfg"].items() if prev.get(f) != v}})
            last[o["kind"]] = o["cfg"]
    d = {"id": sc["id"], "variant": sc["variant"], "label": sc["label"], "ops": ops}
    if res is not None and res.get("case"):
        d["implementation_trace"] = [("hit entry %s" % j if hit else "miss") for (_m, _i, j, hit) in res["case"]["expected"]]
    return d


# ------------------------------------------------------------------------------ main
def run(ctx: Ctx) -> int:
    import tr_memo
    t_budget = time.time() + (1050 if ctx.thorough else 130)
    # 1. regenerate the field model from the source
    meta = None
    try:
        files, meta = tr_memo.gen(REPO)
        for name, text in files.items():
            ctx.write_gen(name, text)
        ctx.cov["translators"] = {"tr_memo": {"files": meta["files"], "notes": meta["notes"],
                                              "key_components": dict(zip(meta["key_component_names"], meta["key_component_methods"])),
                                              "providers": {c: {k: len(v) for k, v in i.items()} for c, i in meta["providers"].items()}}}
    except Exception as e:
        ctx.broken.append("translator tools/tr_memo.py rejected the source: %s" % e)
        ctx.obligations += 1
    # 2. proofs
    model_ok = False
    if meta is not None:
        ok, log, failed = ctx.build([PROPS + "o", "theories/Model/MemoExec.vo", "theories/Lib/Corr.vo"])
        if ok:
            ctx.check_props(PROPS)
            model_ok = True
        else:
            ctx.obligations += 1
            msg = err_of(log)
            if failed and "MemoInst" in failed:
                msg = ("an obligation on the field lists generated from the provider classes no longer holds "
                       "(a field read by the memoizable computation is not part of the memo key, or the key lost the "
                       "class name / the key dump): " + msg)
            ctx.broken.append("Coq build failed at %s: %s" % (failed, msg))
            ok2, _log2, _f2 = ctx.build(["theories/Model/MemoExec.vo", "theories/Lib/Corr.vo"])
            model_ok = ok2
    if meta is None:
        # no field model: fall back to pydantic's own field list so that the implementation search still runs
        from simaple.container import environment_provider as ep
        meta = {"providers": {}, "fallback": True}
        for c in (MIN, BASE):
            fs = list(getattr(ep, c).model_fields)
            p = h_memo.make_provider(c, h_memo.base_cfg(c, "bishop"))
            kn = set(json.loads(p.get_memoization_key()))
            meta["providers"][c] = {"all_fields": fs, "excluded": [f for f in fs if f not in kn], "memo_reads": [], "indep_reads": fs}
    else:
        for b in h_memo.runtime_field_check(meta):
            ctx.broken.append("translator vs runtime: " + b)
    # 3 + 5. correspondence and implementation-side search share the runs
    cheap, costly = scenarios(ctx, extended=False)
    scs = costly + cheap + invalid_scenarios()
    ctx.log("running %d scenarios (%d with Baseline providers)" % (len(scs), len(costly)))
    results, skipped = run_all(ctx, scs, meta, t_budget)
    twin_found, twin_n = h_memo.twin_probe()
    diffs, compared = ([], 0)
    if model_ok and not meta.get("fallback"):
        diffs, compared = model_compare(ctx, results)
    hyp = [(r, h) for r in results for h in r["hypothesis_failures"]]
    if meta.get("fallback"):
        hyp = [(r, h) for (r, h) in hyp if "translator found" not in h["what"]]
    viol = [(r, v) for r in results for v in r["violations"]]
    # 6a. something broke and no counterexample yet: search harder (all jobs / fields / variants)
    if (ctx.broken or diffs or hyp) and not viol and not twin_found and not ctx.thorough:
        ctx.log("something broke: extended implementation-side search")
        c2, k2 = scenarios(ctx, extended=True)
        more, sk2 = run_all(ctx, k2[:60] + c2, meta, time.time() + 420)
        skipped += sk2
        viol += [(r, v) for r in more for v in r["violations"]]
        results_all = results + more
    else:
        results_all = results
    # ---- coverage
    reqs = sum(r["requests"] for r in results_all)
    nontriv = {h_memo.canon([r["scenario"]["variant"], r["scenario"]["ops"]]) for r in results_all if r.get("nontrivial")}
    hist = Counter()
    fields_cov = {MIN: set(), BASE: set()}
    for r in results_all:
        lab = r["scenario"]["label"]
        hist["%s/%s/%s" % (lab["type"], lab.get("kind") or "+".join(k[:3] for k in lab.get("kinds", [])), r["scenario"]["variant"])] += 1
        if lab["type"] == "single-field":
            fields_cov[lab["kind"]].add(lab["field"])
    sample_rs = [r for r in results if r["scenario"]["label"]["type"] == "single-field" and r.get("nontrivial")][:1] + \
                [r for r in results if r["scenario"]["label"]["type"] == "walk"][:1]
    ctx.cov.update({
        "evaluations": reqs,
        "distinct_nontrivial": len(nontriv),
        "rule": "histories of provider requests in which successive providers differ in ONE field (every field of both provider "
                "classes, excluded or not; patterns p0 p1 p0 p1 / p1 p0 p1 p0 and random walks over base+alternative values, also "
                "alternating between the two classes), run through InMemoryMemoizer, InMemoryMemoizer with export/JSON/import "
                "re-opens, and PersistentStorageMemoizer on a private file with new objects / forked processes re-opening it; "
                "evaluations = requests (each: real compute_environment vs real get_simulation_environment as canonical JSON); "
                "a history is non-trivial when it contains at least two different direct environments and at least one hit; "
                "distinct = distinct (variant, request list)",
        "samples": [summarise(r["scenario"], r) for r in sample_rs] or [summarise(scs[0])],
        "traces_validated_against_impl": compared,
        "correspondence": {
            "cases": compared, "differences": len(diffs), "scenarios_run": len(results_all), "scenarios_skipped_for_time": skipped,
            "requests": reqs, "hits": sum(r["hits"] for r in results_all), "misses": sum(r["misses"] for r in results_all),
            "rejected_requests": sum(r["errors"] for r in results_all),
            "histogram(type/class/variant)": dict(sorted(hist.items())),
            "fields_varied": {k: sorted(v) for k, v in fields_cov.items()},
            "hypothesis_tests_failed": len(hyp),
        },
        "impl_search": {"requests_compared_with_direct": reqs, "same-settings-other-class probes": twin_n,
                        "counterexamples": len(viol) + len(twin_found)},
        "trusted_extra": [
            "tools/tr_memo.py (Python-ast reader of the provider classes and of _compute_memo_key; cross-checked at run time against "
            "pydantic's model_fields and the names in the real key dump)",
            "tools/lib/h_memo.py (interning of values/environments; wrappers recording the two part-computing methods)",
            "sha256 + canonical JSON injective on (class name, key fields); pydantic/json serialisation round trip; helper "
            "functions called by the providers are functions of their arguments -- each tested on every run, not proved",
        ],
        "unmodelled": ["concurrent writers / partial writes / I/O errors on the memo file (PARTIAL: the file is modelled as one "
                       "value read and written atomically by one memoizer at a time)",
                       "exceptions raised by a provider (checked on the implementation only: same exception, memo unchanged)",
                       "provider classes other than the two registered ones (a same-settings subclass is probed on the "
                       "implementation only)"],
    })
    for r, why in diffs:
        ctx.broken.append("model and implementation disagree: %s %s" % (
            why, json.dumps(summarise(r["scenario"])["label"], ensure_ascii=False) if r else ""))
    for r, h in hyp[:10]:
        ctx.broken.append("hypothesis test failed: %s (scenario %s %s)" % (h["what"], r["id"], json.dumps(r["scenario"]["label"], ensure_ascii=False)))
    # 4. known findings
    known = open_known("C20")
    for e in known:
        ctx.broken.append("stale known finding %s: no replay implemented" % e["id"])
    # 6. verdict
    if viol or twin_found:
        seen = set()
        for r, v in viol:
            lab = r["scenario"]["label"]
            sig = (v["what"].split("(")[0], lab.get("kind"), lab.get("field"))
            if sig in seen or len(seen) >= 3:
                continue
            seen.add(sig)
            ctx.violation("impl-counterexample", v["what"], input={"scenario": r["scenario"], "at": v.get("at")},
                          expected="memoizer.compute_environment(p) == p.get_simulation_environment()", observed=v.get("difference") or v)
        for v in twin_found[:1]:
            ctx.violation("impl-counterexample", v["what"], input={"probe": "twin", **v},
                          expected="different provider classes never share an entry", observed=v)
    elif ctx.broken:
        first = next((r for r, _ in diffs if r), None) or next((r for r, _ in hyp), None)
        ctx.violation("correspondence" if (diffs or hyp) else "proof-obligation", "; ".join(ctx.broken)[:1500],
                      input={"scenario": first["scenario"]} if first else None, no_input=True)
    return ctx.finish("proof", ASSUME)


ASSUME = [
    "key injectivity: sha256 of the canonical JSON of {name, setting} is equal only for equal (class name, key fields) "
    "(hypothesis h_inj; every run tests 'same key <-> same (class, key fields)' on all requests of a history)",
    "serialisation: _deserialize_output(_serialize_output(m)) = m, json.load(json.dump(memos)) = memos, export/import through "
    "JSON is the identity (hypotheses de_ser, fde_fser, xde_xser; tested on every miss / re-open)",
    "the memoizable and the independent computation are functions of the provider fields they read: the read sets are extracted "
    "by tools/tr_memo.py (self.<field> reads reachable through self.<method>; self escaping = all fields); module-level helpers and "
    "data files are assumed to be functions of their arguments (tested: equal read fields -> equal part, on every history)",
    "PARTIAL: file-backed storage and restarts are the same map only absent concurrent writers and I/O failures",
    "hand-written model coq/theories/Model/Memo.v of memoize / compute_environment, tied to memoizer.py by the hit/miss, "
    "serving-entry, handed-out-parts and entry-count comparison of every history",
]


def replay(ctx, path):
    data = json.load(open(path))
    inp = data.get("input") or {}
    print("replay of", data.get("what", "")[:300])
    if inp.get("probe") == "twin":
        found, _n = h_memo.twin_probe()
        print("twin probe:", "still failing" if found else "passes", json.dumps(found[:1], ensure_ascii=False)[:600])
        return 1 if found else 0
    sc = inp.get("scenario")
    if not sc:
        print("no concrete input recorded (proof obligation / correspondence without failing input)")
        return 0
    import tr_memo
    try:
        _files, meta = tr_memo.gen(REPO)
    except Exception as e:
        print("translator rejects the source:", e)
        return 1
    workdir = str(ctx.work / "memo")
    os.makedirs(workdir, exist_ok=True)
    res = h_memo.run_scenario((sc, meta, workdir))
    print(json.dumps({"violations": res["violations"], "hypothesis_failures": res["hypothesis_failures"],
                      "hits": res["hits"], "misses": res["misses"]}, indent=1, ensure_ascii=False)[:3000])
    bad = bool(res["violations"])
    if res.get("case") and res["case"]["expected"]:
        for name, text in tr_memo.gen(REPO)[0].items():
            ctx.write_gen(name, text)
        ok, _log, _f = ctx.build(["theories/Model/MemoExec.vo", "theories/Lib/Corr.vo"])
        if ok:
            diffs, _n = model_compare(ctx, [res])
            print("model vs implementation:", "differs" if diffs else "agrees")
            bad = bad or bool(diffs)
    return 1 if bad else 0
