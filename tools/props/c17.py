"""C17 -- star force is incremental, monotone and capped; blueprints add up.

1. tools/tr_starforce.py regenerates gen/SfGen.v from the current source (tables, band bounds, cap table,
   max_star, increment selection, providers, the fold, the cutoff, the blueprint composition);
2. Props/C17.v (15 theorems about the generated definitions) is rebuilt;
3. correspondence: generated model, hand-written reference model (Model/SfRef.v) and the REAL
   Starforce.calculate_improvement / get_single_starforce_improvement / max_star / apply_star_cutoff
   on shipped gears (quick: seeded sample over gear type x level band x superior; thorough: all),
   synthetic metas at every band boundary -1/0/+1, and the (scrolled stat, star) pairs of random blueprints;
4. blueprint.build() vs an independent exact recomposition, with deep dumps of blueprint / base gear before and after;
5. the property as stated, run directly on the implementation for every case above."""
from __future__ import annotations

import collections
import json
import random
import time

from lib import h_starforce as H
from lib.vf import REPO, Ctx, open_known

import tr_starforce

PROPS = "theories/Props/C17.v"


def err_of(log: str) -> str:
    ls = [l for l in log.splitlines() if l.strip()]
    for i, l in enumerate(ls):
        if l.startswith("Error"):
            return " ".join(ls[max(0, i - 1):i + 3])[:400]
    return (ls[-1] if ls else "?")[:300]


def kind_of(meta) -> str:
    t = meta.type
    if t.is_improved_as_weapon():
        return "weapon"
    if t.name == "glove":
        return "glove"
    if t.is_armor() or t.name == "shoulder_pad":
        return "armor"
    if t.is_accessory():
        return "accessory"
    return "other"


def run(ctx: Ctx) -> int:
    t_start = time.time()
    # ---------------------------------------------------------------- 1. translate
    meta = None
    try:
        files, meta = tr_starforce.gen(str(REPO))
        for n, t in files.items():
            ctx.write_gen(n, t)
    except Exception as e:     # fail closed
        ctx.broken.append("translator tr_starforce rejected the source: %s" % str(e)[:400])
        ctx.cov.setdefault("translators", {})["tr_starforce"] = {"rejected": str(e)[:400]}
    # the Stat algebra instance (C17_build_decomposes_Stat) is about the CURRENT core/base.py as well
    from lib import corestage
    corestage.translate(ctx)
    # ---------------------------------------------------------------- 2. build + theorems
    have_gen = False
    if meta is not None:
        ctx.cov.setdefault("translators", {})["tr_starforce"] = {
            "files_read": meta["files"], "definitions": meta["defs"],
            "tables": {k: [len(v), len(v[0])] for k, v in meta["tables"].items()}, "rows": {k: len(v) for k, v in meta["rows"].items()}}
        ok, log, failed = ctx.build([PROPS + "o", "theories/Model/SfRef.vo", "theories/Lib/Corr.vo"])
        if ok:
            ctx.check_props(PROPS)
            have_gen = True
        else:
            ctx.obligations += 15
            ctx.broken.append("Coq build failed at %s: %s" % (failed, err_of(log)))
            ok2, _log2, _f2 = ctx.build(["gen/SfGen.vo", "theories/Model/SfRef.vo", "theories/Lib/Corr.vo"])
            have_gen = ok2 and (ctx.coq / "gen/SfGen.vo").exists()
    else:
        ctx.obligations += 15
        ctx.prepare_coq()
        for ext in (".v", ".vo", ".vos", ".vok", ".glob"):      # never fall back on a stale generated model
            (ctx.coq / "gen" / ("SfGen" + ext)).unlink(missing_ok=True)
        ctx.build(["theories/Model/SfRef.vo", "theories/Lib/Corr.vo"])
    ctx.log("theorems %d/%d, generated model %s" % (ctx.discharged, ctx.obligations, "built" if have_gen else "NOT available"))

    # ---------------------------------------------------------------- 3-5. implementation runs
    rng = random.Random(ctx.seed + 17)
    from simaple.gear.gear_type import GearType
    repo, metas, unloadable = H.load_repository()
    # "for every gear in the shipped database": a gear that cannot even be loaded has no star-force bonus at all
    findings_unloadable = [{"what": "a gear of the shipped database cannot be loaded, so no star-force bonus is defined for it",
                            "gear": gid, "error": err} for gid, err in unloadable[:5]]
    tables = meta["tables"] if meta else {}
    bounds = sorted({r[0] for t in tables.values() for r in t} | {0, 70, 71, 80, 95, 108, 110, 111, 118, 120, 128, 130, 138, 140, 148, 150, 158, 198})
    full_db = ctx.thorough or bool(ctx.broken)
    if full_db:
        gears, nclasses = list(metas), None
    else:
        gears, nclasses = H.sample_gears(metas, bounds, rng)
        if len(gears) > 700:
            keep = set(rng.sample(range(len(gears)), 700))
            # keep every class that can actually take stars, thin out the rest
            gears = [g for i, g in enumerate(gears) if i in keep or (H.impl_max_star(g) > 5)]
    synth = H.synthetic_metas(bounds, rng, 400 if ctx.thorough else 60, GearType, full=ctx.thorough)
    if not ctx.thorough:
        synth = synth[:2] + rng.sample(synth, min(len(synth), 420))
    hyp_bad = [m.id for m in metas if m.req_level < 0 or any(v < 0 for v in m.base_stat.model_dump().values())
               or any(v != int(v) for v in m.base_stat.model_dump().values())]

    findings = list(findings_unloadable)
    cases = {}            # dedupe key -> (gen term, ref term, description)
    hist = collections.Counter()
    evaluations = 0
    samples = []

    def add_calc(m, ref, label):
        nonlocal evaluations
        f, res, cap = H.property_on_gear(m, ref, label)
        findings.extend(f)
        evaluations += len(res)
        hist["kind:" + kind_of(m)] += 1
        hist["cap:%s" % cap] += 1
        hist["superior" if m.superior_eqp else "ordinary"] += 1
        hist["band:%d" % H.band_of(m.req_level, bounds)] += 1
        if any(isinstance(r, tuple) and r and r[0] == "unmodelled" for r in res):
            findings.append({"what": "a star-force bonus sets a Stat field outside the eight star-force fields", "gear": label,
                             "meta": json.loads(m.model_dump_json()), "observed": [r for r in res if isinstance(r, tuple) and r[0] == "unmodelled"][:1]})
            return
        if not isinstance(cap, int) or f and any(x["what"].startswith("max_star") for x in f):
            return
        key = (H.meta_key(m), H.stat8(ref))
        if key in cases:
            return
        cuts = [(s, H.impl_cutoff(m, s)) for s in (0, cap, cap + 1, 30)]
        g, r = H.calc_case(H.coq_meta(m), H.coq_stat8(H.stat8(ref)), res, cap, cuts)
        cases[key] = (g, r, {"gear": label, "meta": list(H.meta_key(m)), "ref_stat": [float(x) for x in H.stat8(ref)], "cap": cap,
                             "bonus_by_star": [None if x is None else [float(y) for y in x] for x in res]})
        if len(samples) < 2 and cap >= 15:
            samples.append({"gear": label, "name": m.name, "type": m.type.name, "req_level": m.req_level, "cap": cap,
                            "bonus_at_cap": dict(zip(H.FIELDS, [float(y) for y in res[cap]])) if len(res) > cap and res[cap] else None,
                            "star_cap_plus_1": "refused" if res[-1] is None else "ACCEPTED"})

    t0 = time.time()
    for m in gears:
        add_calc(m, m.base_stat, m.id)
    t_db = time.time() - t0
    n_db_cases = len(cases)
    for i, m in enumerate(synth):
        add_calc(m, m.base_stat, "synthetic-%d" % i)
    ctx.log("implementation: %d shipped gears (%s) + %d synthetic metas -> %d distinct model cases, %d findings, %.0fs"
            % (len(gears), "ALL" if full_db else "sample of %s classes" % nclasses, len(synth), len(cases), len(findings), time.time() - t0))

    # single increments with an arbitrary current improvement (not only the ones the fold reaches)
    from simaple.core import Stat
    single_cases = []
    for i in range(600 if ctx.thorough else 150):
        m = rng.choice(synth)
        cap = H.impl_max_star(m)
        star = rng.choice([1, 5, 15, 16, cap, cap + 1, rng.randint(1, 26)])
        cur = Stat(**{f: rng.choice([0, 0, 3, 17, 49, 50, 99, 100, 250]) for f in H.FIELDS})
        inc, _err = H.impl_single(m, m.base_stat, star, cur)
        exp = None if inc is None else H.stat8(inc)
        if inc is not None and H.other_fields_nonzero(inc):
            continue
        g, r = H.single_case(H.coq_meta(m), H.coq_stat8(H.stat8(m.base_stat)), star, H.coq_stat8(H.stat8(cur)), exp)
        single_cases.append((g, r, {"single": True, "meta": list(H.meta_key(m)), "star": star, "cur": [float(x) for x in H.stat8(cur)],
                                    "ref_stat": [float(x) for x in H.stat8(m.base_stat)],
                                    "expected": None if exp is None else [float(x) for x in exp]}))
        evaluations += 1
        if star <= cap and inc is None:
            findings.append({"what": "per-star increment undefined within the cap (arbitrary current improvement)",
                             "meta": json.loads(m.model_dump_json()), "star": star, "cap": cap, "current_improvement": cur.model_dump()})
        if inc is not None and any(v < 0 for v in inc.model_dump().values()):
            findings.append({"what": "per-star increment has a negative field (arbitrary current improvement)",
                             "meta": json.loads(m.model_dump_json()), "star": star, "cap": cap, "observed": inc.model_dump()})

    # ---------------------------------------------------------------- blueprints
    enhanceable = [m for m in metas if m.max_scroll_chance > 0]
    weapons = [m for m in enhanceable if m.type.is_improved_as_weapon() and H.impl_max_star(m) >= 15]
    high = [m for m in enhanceable if H.impl_max_star(m) >= 15]
    nbp = 6000 if ctx.thorough else (900 if ctx.broken else 320)
    bp_hist = collections.Counter()
    bp_distinct = set()
    bp_sample = None
    t0 = time.time()
    for i in range(nbp):
        m = rng.choice(weapons) if i % 4 == 0 else (rng.choice(high) if i % 4 == 1 else rng.choice(enhanceable))
        base_gear = repo.get_by_id(m.id)
        try:
            kind, bp = H.random_blueprint(rng, base_gear.meta)
        except Exception as e:      # the generator itself produced an invalid spec (pydantic validation): not a case
            bp_hist["generator-rejected:" + type(e).__name__] += 1
            continue
        f, sfcase, outcome = H.check_blueprint(bp, kind, base_gear)
        findings.extend(f)
        bp_hist[kind] += 1
        bp_hist["outcome:" + outcome] += 1
        bp_distinct.add(bp.model_dump_json())
        evaluations += 1
        if sfcase is not None and (i % 3 == 0 or ctx.thorough):
            scrolled, _star = sfcase
            if all(getattr(scrolled, k) == getattr(base_gear.meta.base_stat, k) for k in H.FIELDS):
                continue
            add_calc(base_gear.meta, scrolled, "blueprint-%d(gear %s, scrolled)" % (i, m.id))
        if bp_sample is None and outcome == "built" and kind == "practical-trace" and bp.star >= 17:
            bp_sample = {"kind": kind, "gear": m.id, "star_requested": bp.star, "cap": H.impl_max_star(m),
                         "trace": json.loads(bp.spell_trace.model_dump_json()), "bonuses": len(bp.bonuses),
                         "built_stat": {k: v for k, v in bp.build().stat.model_dump().items() if v}}
    ctx.log("blueprints: %d built/checked in %.0fs, %d findings so far" % (sum(v for k, v in bp_hist.items() if k.startswith("outcome:")),
                                                                      time.time() - t0, len(findings)))
    if bp_sample:
        samples.append(bp_sample)

    # ---------------------------------------------------------------- Coq side of the correspondence
    all_cases = list(cases.values()) + single_cases
    shards, index = {}, {}
    per = 180 if not ctx.thorough else 400
    for k in range(0, len(all_cases), per):
        name = "c17_%03d" % (k // per)
        chunk = all_cases[k:k + per]
        index[name] = chunk
        if have_gen:
            shards[name] = H.shard_text([(c[0], c[1]) for c in chunk])
        else:
            shards[name] = H.shard_text([("true", c[1]) for c in chunk]).replace("From G Require Import SfGen.\n", "")
    res = ctx.coq_eval(shards, timeout=1200)
    diffs_gen, diffs_ref, unevaluated = [], [], 0
    for name, (rc, out) in sorted(res.items()):
        lists = H.parse_two_lists(out) if rc == 0 else None
        if lists is None:
            unevaluated += 1
            ctx.broken.append("correspondence shard %s did not evaluate: %s" % (name, err_of(out)))
            continue
        for i in lists[0]:
            diffs_gen.append(index[name][i][2])
        for i in lists[1]:
            diffs_ref.append(index[name][i][2])
    if diffs_gen:
        ctx.broken.append("generated model (gen/SfGen.v) and implementation disagree on %d case(s), e.g. %s"
                          % (len(diffs_gen), json.dumps(diffs_gen[0])[:300]))
    if diffs_ref:
        ctx.broken.append("reference model (Model/SfRef.v) and implementation disagree on %d case(s), e.g. %s"
                          % (len(diffs_ref), json.dumps(diffs_ref[0])[:300]))
    ctx.log("correspondence: %d cases in %d shards, differences generated=%d reference=%d" % (len(all_cases), len(shards), len(diffs_gen), len(diffs_ref)))

    # ---------------------------------------------------------------- focus: a broken obligation / difference widens the search
    if (ctx.broken and not full_db) and not findings:
        ctx.log("something broke: sweeping ALL shipped gears on the implementation")
        for m in metas:
            f, _res, _cap = H.property_on_gear(m, m.base_stat, m.id)
            findings.extend(f)
            if len(findings) > 20:
                break
        full_db = True

    # ---------------------------------------------------------------- evidence
    nontrivial = sum(1 for c in cases.values() if c[2]["cap"] >= 1)
    ctx.cov.update({
        "evaluations": evaluations,
        "distinct_nontrivial": nontrivial + len(bp_distinct),
        "rule": "star force: every case is one (meta, reference stat) pair evaluated for ALL stars 0..cap+1 on the implementation "
                "(calculate_improvement, get_single_starforce_improvement, max_star, apply_star_cutoff) and inside coqc on the generated and "
                "the reference model; sources = shipped gears (quick: one seeded pick per gear type x level band x superior x has-scroll-chance "
                "x jobless class, thorough: all loadable gears), synthetic metas at every band boundary -1/0/+1 x gear kinds x job bits x superior, "
                "scrolled stats of random blueprints; distinct = distinct (type, level, job, superior, scroll chance, 8-field reference stat), "
                "non-trivial = cap >= 1; blueprints: random practical/generalized blueprints (trace kind/probability/order, scroll, stars 0..30, "
                "<=4 bonus specs by grade or rank, potentials, exceptional part) on shipped gears with scroll chance, distinct = distinct blueprint JSON; "
                "evaluations = (case, star) pairs + single-increment cases + blueprints",
        "samples": samples,
        "correspondence": {"cases": len(all_cases), "fold_cases": len(cases), "single_increment_cases": len(single_cases),
                           "shipped_gear_cases": n_db_cases, "differences_generated_model": len(diffs_gen),
                           "differences_reference_model": len(diffs_ref), "shards_unevaluated": unevaluated,
                           "first_differences": (diffs_gen + diffs_ref)[:3], "input_histogram": dict(sorted(hist.items()))},
        "impl_search": {"shipped_gears_run": len(metas) if full_db else len(gears), "shipped_gears_loadable": len(metas),
                        "shipped_ids_not_loadable": unloadable, "all_shipped_gears": full_db, "synthetic_metas": len(synth),
                        "blueprints": dict(sorted(bp_hist.items())), "counterexamples": len(findings),
                        "seconds_shipped_gears": round(t_db, 1)},
        "hypotheses_checked_on_shipped_db": {"req_level >= 0 and base stat non-negative and integer-valued": not hyp_bad,
                                             "violating_ids": hyp_bad[:10]},
        "implementation_under_test": H.impl_origin(),
        "model_files": ["gen/SfGen.v (generated)", "theories/Model/SfBase.v", "theories/Model/SfBlueprint.v", "theories/Model/SfRef.v (reference)",
                        "theories/Proofs/SfProofs.v", "theories/Proofs/SfBlueprintProofs.v", "theories/Props/C17.v"],
        "unmodelled": ["Python object mutation ('building never alters the blueprint or the base gear'): checked by deep dumps before/after "
                       "every build, not a theorem", "potential / additional_potential of the built gear (not part of the stat identity)",
                       "AmazingEnhancement (not used by blueprints)", "binary64 rounding (all star-force quantities are small integers, exact in binary64)"],
        "trusted_extra": ["translator tools/tr_starforce.py (validated on every run by evaluating the generated model against the implementation)",
                          "harness tools/lib/h_starforce.py, tools/props/c17.py"],
    })
    if hyp_bad:
        ctx.cov["unmodelled"].append("shipped gears outside the theorems' hypotheses: %s" % hyp_bad[:10])

    # ---------------------------------------------------------------- 4. known findings (none recorded for C17)
    for e in open_known("C17"):
        ctx.broken.append("open known finding %s has no replay procedure in this check" % e.get("id"))

    # ---------------------------------------------------------------- 6. verdict
    if findings:
        seen = set()
        for f in findings:
            if f["what"] in seen:
                continue
            seen.add(f["what"])
            ctx.violation("impl-counterexample", f["what"], input=f, expected=f.get("expected"), observed=f.get("observed"))
            if len(seen) >= 3:
                break
    elif diffs_ref and not unevaluated:
        # The reference model (Model/SfRef.v) is the documented rule written down independently of the code: "the increment of star n
        # is computed from the gear as enhanced by stars 1..n-1".  A gear on which the implementation's values differ from it is a
        # concrete input on which that clause of the property fails (the implementation agrees with ITSELF by construction: its
        # cumulative bonus is the fold of its own per-star function, so the clause cannot be judged without the rule).
        d0 = diffs_ref[0]
        ctx.violation("impl-counterexample",
                      "star force on this gear differs from the documented rule (per-star increment computed on the gear as enhanced so far; "
                      "reference model Model/SfRef.v); %d differing case(s) in this run; broken: %s" % (len(diffs_ref), "; ".join(ctx.broken)[:600]),
                      input=d0, expected="values of Model/SfRef.v for every star 0..cap+1 (evaluate with ./check C17 --replay <this file>)",
                      observed=d0.get("impl") if isinstance(d0, dict) else None)
    elif ctx.broken:
        kind = "correspondence" if (diffs_gen or diffs_ref) else "proof-obligation"
        ctx.violation(kind, "; ".join(ctx.broken)[:1500], input={"differences": (diffs_gen + diffs_ref)[:5]}, no_input=True)
    ctx.log("total %.0fs" % (time.time() - t_start))
    return ctx.finish("proof", ASSUME)


ASSUME = [
    "theorems quantify over metas with req_level >= 0 and reference stats whose eight star-force fields are non-negative rationals "
    "(checked on every shipped gear each run); exceptions are modelled as None",
    "exact arithmetic: star-force quantities are small integers (exact in binary64); float `//` is modelled as floor of the exact quotient",
    "the generated model is the translator's reading of the current source; it and the hand-written reference model are both compared with "
    "the implementation on every case of the run",
    "blueprint theorems are over abstract stat blocks forming a commutative monoid (instantiated with the generated Stat algebra of C11); "
    "each improvement object stands for the block its calculate_improvement(meta) returns",
    "'building never alters the blueprint or the base gear' is tested (deep dumps before/after, build twice), not proved",
]


def replay(ctx, path):
    from simaple.core import Stat
    from simaple.gear.gear import GearMeta
    d = json.load(open(path))
    inp = d.get("input") or {}
    print(json.dumps({k: d.get(k) for k in ("property", "kind", "what")}, indent=1))
    found = []
    if "blueprint" in inp:
        from simaple.gear.blueprint.gear_blueprint import GeneralizedGearBlueprint, PracticalGearBlueprint
        cls = PracticalGearBlueprint if inp["kind"].startswith("practical") else GeneralizedGearBlueprint
        bp = cls.model_validate(inp["blueprint"])
        from simaple.gear.gear import Gear
        found, _sf, outcome = H.check_blueprint(bp, inp["kind"], Gear.create_bare_gear(bp.meta))
        print("outcome:", outcome)
    elif "meta" in inp and isinstance(inp["meta"], dict):
        m = GearMeta.model_validate(inp["meta"])
        ref = Stat.model_validate(inp["ref_stat"]) if "ref_stat" in inp else m.base_stat
        found, res, cap = H.property_on_gear(m, ref, inp.get("gear"))
        print("cap", cap, "bonus by star", res)
    else:
        print(json.dumps(inp, indent=1)[:3000])
    for f in found[:5]:
        print("STILL FAILING:", f["what"], json.dumps(f.get("observed"), default=str)[:300])
    return 1 if found else 0
