"""C12 -- damage factor, cooldown and level-gap advantage are monotone / bounded / total."""
from __future__ import annotations

import json
import random

from lib import corestage, corecases
from lib.vf import Ctx
from props.c11 import err_of

SELECT = ("STRBased", "INTBased", "DEXBased", "LUKBased", "ActionStat_calculate", "LevelAdvantage_",
          "DamageCalculator_", "Stat_get_")
LOGICS = ["STRBasedDamageLogic", "INTBasedDamageLogic", "DEXBasedDamageLogic", "LUKBasedDamageLogic",
          "LUKBasedDualSubDamageLogic"]


def impl_search(ctx: Ctx, n: int):
    from simaple.core import base, damage
    from simaple.simulate.report import dpm
    from simaple.simulate.report.base import DamageLog
    rng = random.Random(ctx.seed + 12)
    found = []
    tried = 0
    tol = 1e-9
    # ---- damage factor: raise one field, all five logics
    for _ in range(n):
        s = corecases.rnd_stat(rng, "nonneg")
        if rng.random() < 0.7:
            s = s.model_copy(update={"ignored_defence": rng.uniform(60, 100)})
        armor = rng.choice([0, 100, 300, 380, rng.randint(0, 400)])
        cls = getattr(damage, rng.choice(LOGICS))
        lg = cls(attack_range_constant=rng.choice([1.0, 1.2, 1.34, 1.5]), mastery=rng.choice([0.0, 0.9, 0.95, 1.0]))
        if lg.get_armor_factor(s, armor) <= 0:
            continue
        f = rng.choice(list(base.Stat.model_fields))
        d = rng.choice([1.0, 7.0, 30.0, rng.uniform(0, 500)])
        if f == "ignored_defence":
            d = min(d, 100 - s.ignored_defence)
        s2 = s.model_copy(update={f: getattr(s, f) + d})
        tried += 1
        for m in ("get_damage_factor", "get_dot_factor"):
            a, b = getattr(lg, m)(s, armor), getattr(lg, m)(s2, armor)
            if b < a - tol * max(1.0, abs(a)) or a < -tol:
                found.append({"what": "%s.%s decreases (or is negative) when %s is raised by %r" % (cls.__name__, m, f, d),
                              "stat": s.model_dump(), "armor": armor, "logic": lg.model_dump(), "before": a, "after": b})
        # linear in damage% and hits
        calc = dpm.DamageCalculator(character_spec=s, damage_logic=lg, armor=armor,
                                    level_advantage=rng.choice([1.0, 1.2, 0.5]), force_advantage=rng.choice([1.0, 1.5]))
        for tag in ("global.damage", "global.dot"):
            dm, hit, c, h = rng.uniform(1, 900), float(rng.randint(1, 15)), float(rng.randint(1, 5)), float(rng.randint(1, 4))
            buff = corecases.rnd_stat(rng, "nonneg")
            l1 = DamageLog(name="x", damage=dm, hit=hit, buff=buff, tag=tag)
            l2 = DamageLog(name="x", damage=dm * c, hit=hit * h, buff=buff, tag=tag)
            a, b = calc.get_damage(l1), calc.get_damage(l2)
            if abs(b - c * h * a) > 1e-9 * max(1.0, abs(b)):
                found.append({"what": "get_damage is not linear in damage%/hit", "tag": tag, "damage": dm, "hit": hit,
                              "c": c, "h": h, "stat": s.model_dump(), "base": a, "scaled": b})
        # the damage of a log is a function of the log: a calculator that has already evaluated other logs (buffs differing in ONE
        # field, every field in turn) must give what a fresh calculator gives, and a dominating buff must not deal less
        if _ % 10 == 0:
            base_buff = corecases.rnd_stat(rng, "nonneg").model_copy(update={"ignored_defence": rng.uniform(60, 95)})
            for tag in ("global.damage", "global.dot"):
                for f in base.Stat.model_fields:
                    bump = 5.0 if f == "ignored_defence" else rng.choice([1.0, 20.0, 50.0])
                    hi = base_buff.model_copy(update={f: getattr(base_buff, f) + bump})
                    seq = [hi, base_buff, hi] if rng.random() < 0.5 else [base_buff, hi, base_buff]
                    vals = [calc.get_damage(DamageLog(name="x", damage=300.0, hit=3.0, buff=b, tag=tag)) for b in seq]
                    fresh = []
                    for b in seq:
                        c2 = dpm.DamageCalculator(character_spec=s, damage_logic=lg, armor=armor, level_advantage=calc.level_advantage,
                                                  force_advantage=calc.force_advantage)
                        fresh.append(c2.get_damage(DamageLog(name="x", damage=300.0, hit=3.0, buff=b, tag=tag)))
                    tried += 1
                    if any(abs(a - b) > tol * max(1.0, abs(b)) for a, b in zip(vals, fresh)):
                        found.append({"what": "DamageCalculator.get_damage depends on the logs evaluated before (a reused calculator differs "
                                              "from a fresh one)", "field": f, "tag": tag, "stat": s.model_dump(), "armor": armor,
                                      "buffs": [b.model_dump() for b in seq], "reused": vals, "fresh": fresh})
                        break
        if len(found) > 10:
            break
    # ---- cooldown
    cds = [0, 1, 500, 999, 1000, 1001, 4000, 5000, 5001, 9999, 10000, 10001, 12000, 15000, 30000, 60000, 120000, 180000, 600000]
    cds += [rng.uniform(0, 600000) for _ in range(n // 20)]
    rates = [0, 1, 5, 10, 25, 50, 80, 99, 100] + [rng.uniform(0, 100) for _ in range(6)]
    flats = [0, 1000, 2000, 3000, 5000, 7000, 9000] + [rng.uniform(0, 9000) for _ in range(6)]
    for x in cds:
        for r in rates:
            for c in flats:
                st = base.ActionStat(cooltime_reduce=c, cooltime_reduce_rate=r)
                v = st.calculate_cooldown(x)
                tried += 1
                bad = None
                if v > x + tol * max(1, x):
                    bad = "result above base cooldown"
                if v < min(min(x, 1000), 5000) - tol:
                    bad = "result below the floor min(x, 1 s, 5 s)"
                r2 = min(100.0, r + rng.choice([1, 5, 20]))
                c2 = c + rng.choice([500, 1000, 2000])
                if base.ActionStat(cooltime_reduce=c, cooltime_reduce_rate=r2).calculate_cooldown(x) > v + tol * max(1, v):
                    bad = "more percent reduction (%r -> %r) lengthens the cooldown" % (r, r2)
                if base.ActionStat(cooltime_reduce=c2, cooltime_reduce_rate=r).calculate_cooldown(x) > v + tol * max(1, v):
                    bad = "more flat reduction (%r -> %r) lengthens the cooldown" % (c, c2)
                if bad:
                    found.append({"what": "calculate_cooldown: " + bad, "base": x, "rate": r, "flat": c, "result": v})
        if len(found) > 10:
            break
    # ---- level advantage, all pairs 1..400 (exhaustive)
    la = dpm.LevelAdvantage()
    pairs = 0
    for c in range(1, 401):
        prev = None
        for m in range(1, 401):
            pairs += 1
            try:
                v = la.get_advantage(m, c)
            except Exception as e:
                found.append({"what": "get_advantage raises", "mob_level": m, "character_level": c, "error": repr(e)})
                break
            if not (0 <= v <= 1.2):
                found.append({"what": "get_advantage outside [0,1.2]", "mob_level": m, "character_level": c, "value": v})
            if prev is not None and v > prev:
                found.append({"what": "get_advantage increases with the mob level", "mob_level": m, "character_level": c,
                              "value": v, "previous": prev})
            prev = v
        if len(found) > 10:
            break
    ctx.cov["impl_search"] = {"candidates": tried, "level_pairs_exhaustive": pairs, "counterexamples": len(found)}
    return found


def run(ctx: Ctx) -> int:
    meta = corestage.translate(ctx)
    diffs = []
    if meta is not None:
        ok, log, failed = ctx.build(["theories/Props/C12.vo", "gen/CoreF.vo", "theories/Lib/Corr.vo"])
        if not ok:
            ctx.broken.append("Coq build failed at %s: %s" % (failed, err_of(log)))
            ctx.obligations += 1
        else:
            ctx.check_props("theories/Props/C12.v")
        try:
            diffs, qcases = corestage.correspondence(
                ctx, meta, lambda n: n.startswith(SELECT), 60 if ctx.thorough else 8, profile="nonneg", tag="c12")
            ctx.cov["samples"] = [{"def": n, "args": corestage.dump(a), "python_result": corestage.dump(e)}
                                  for (n, a, e) in qcases[:1]]
            ctx.cov["distinct_nontrivial"] = len({json.dumps(corestage.dump(a), sort_keys=True, default=str) for (_n, a, _e) in qcases})
        except Exception as e:
            ctx.broken.append("correspondence could not run: %r" % e)
    for d in diffs:
        ctx.broken.append("model/implementation difference on %s (%s instance)" % (d["def"], d["domain"]))
    found = impl_search(ctx, 6000 if (ctx.thorough or ctx.broken) else 600)
    ctx.cov["rule"] = ("every generated damage/cooldown/level definition is evaluated on random non-negative stat blocks, armours, "
                       "logics, cooldowns and levels in both Coq instances and compared with the Python method; distinct = "
                       "distinct argument tuples; implementation-side search raises one random field at a time, sweeps a "
                       "cooldown x rate x flat grid and enumerates all level pairs 1..400")
    if found:
        for f in found[:3]:
            ctx.violation("impl-counterexample", f["what"], input=f)
    elif ctx.broken:
        ctx.violation("proof-obligation" if not diffs else "correspondence", "; ".join(ctx.broken)[:1500],
                      input={"differences": diffs[:5]}, no_input=True)
    return ctx.finish("proof", ASSUME)


ASSUME = [
    "real-number reading: stats, armour, cooldowns are exact rationals; binary64 rounding is outside the theorems "
    "(the twin validates the translation bit-for-bit)",
    "damage monotonicity is stated on non-negative blocks, non-negative armour, 0 <= mastery <= 1, non-negative attack "
    "range constant and a non-negative armour term, as the property restricts it",
    "cooldown laws under 0 <= base, 0 <= flat reduction, 0 <= rate <= 100",
    "translator tools/lib/pynum.py + tools/tr_core.py",
]


def replay(ctx, path):
    print(open(path).read()[:3000])
    return 0
