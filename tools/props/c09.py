"""C09 -- letting time pass in one step or in several gives the same ticks and status."""
from __future__ import annotations

from lib import entitycheck as ec
from lib.vf import Ctx

RULE = ("correspondence: as C07 (every elapse step of the random walks is a case; the DOT tracker has its own cases); "
        "implementation-side search: for every installed component of all jobs, in store states reached by random plans, elapse(a) "
        "then elapse(b) vs elapse(a+b) on the same state: total hits per (name, tag, damage, modifier) and every view must agree; "
        "a case is distinct by (class, reducer, input state, payload)")


def known_match(entry, f):
    return False


def witness_replay(entry):
    return False, ""


def run(ctx: Ctx) -> int:
    return ec.run_prop(ctx, "theories/Props/C09.v", ec.ASSUME_COMMON + [
        "HitLimitedPeriodicDamageComponent: proved under the reachable-state invariant hl_inv (cap reached => schedule disabled), which "
        "every reducer preserves and an accepted use establishes",
        "status equality is stated on the state with the interval counter of an expired Periodic forgotten (no view or reducer reads it)"],
        known_match, witness_replay, RULE, extra_targets=["theories/Proofs/EDotP.vo", "theories/Proofs/CompChunkHL.vo"])


def replay(ctx, path):
    print(open(path).read()[:3000])
    return 0
