"""C05 -- every event is relayed exactly once before and once after the next action."""
from __future__ import annotations

import json

from lib import enginecheck as ec
from lib import h_engine, simenv
from lib.vf import Ctx

WHICH = "C05"
PROPS = ["theories/Props/C05.v"]


def gen_steps(ctx, job, variant):
    rng = ctx.rng
    n = rng.randint(6, 14)
    lines = simenv.random_plan(rng, job, variant, n)
    cmds = simenv.parse_commands(lines)
    steps = []
    for i, c in enumerate(cmds):
        steps.append(("exec", c))
        r = rng.random()
        if r < 0.15:
            steps.append(("reload",))          # checkpoint + restore between two actions
        elif r < 0.22 and i > 1:
            steps.append(("rollback", rng.randint(0, i)))
        elif r < 0.30 and i > 1:
            steps.append(("reload_same", rng.randint(0, i)))     # a prefix of its own logs reloaded into the same, used engine
    return lines, steps


def describe(steps):
    return [s[1].expr if s[0] == "exec" and hasattr(s[1], "expr") else (s[1].text if s[0] == "exec" else list(s)) for s in steps]


def several_simulations_in_one_process(ctx):
    """C06 on action-level runtimes: two SimulationRuntimes and, afterwards, an operation engine are built in THIS process from the
    same job with the public builder and driven in turns; after every action each runtime's clock must equal the sum of the elapse
    times dispatched TO THAT runtime (0 when created), every `elapsed` notification must carry the time of its elapse, and the
    engine built last must start at 0.  (The recorded operation engines always work on a restored checkpoint, so a clock object
    shared between stores is invisible to them.)"""
    import random
    from simaple.container.simulation import get_skill_components
    from simaple.simulate.kms import get_builder
    from lib import simenv
    rng = random.Random(ctx.seed + 606)
    findings, stats = [], {"runtimes": 0, "actions": 0, "engines": 0}
    jobs = list(simenv.JOBS)
    rng.shuffle(jobs)
    for job in jobs[:(4 if ctx.thorough else 2)]:
        variant = rng.choice([0, 2])
        env = simenv.get_env(job, variant)

        def new_runtime():
            return get_builder(get_skill_components(env), env.character.action_stat).build_simulation_runtime()
        names = simenv.skill_names(job, variant)
        script = []
        try:
            rts = [{"rt": new_runtime(), "sum": 0.0, "label": "first"}]
            stats["runtimes"] += 1
            for step in range(40 if ctx.thorough else 24):
                if step == 6:
                    rts.append({"rt": new_runtime(), "sum": 0.0, "label": "second (built after the first had elapsed)"})
                    stats["runtimes"] += 1
                    script.append("build second runtime")
                r = rng.choice(rts)
                if rng.random() < 0.55:
                    t = float(rng.choice([0, 0.25, 30, 100.5, 480, 1000, 12345.5]))
                    evs = r["rt"].play({"name": "*", "method": "elapse", "payload": t})
                    r["sum"] += t
                    script.append("%s: elapse %s" % (r["label"], t))
                    bad = [e for e in evs if e["tag"] == "global.elapsed" and e["payload"].get("time") != t]
                    if bad:
                        findings.append({"what": "C06: an elapsed notification does not carry the time of its elapse", "job": job, "variant": variant,
                                         "script": script[-12:], "expected": t, "observed": bad[0]["payload"]})
                        break
                else:
                    n = rng.choice(names)
                    r["rt"].play({"name": n, "method": "use", "payload": None})
                    script.append("%s: use %s" % (r["label"], n))
                stats["actions"] += 1
                for q in rts:
                    c = q["rt"].get_viewer()("clock")
                    if abs(c - q["sum"]) > 1e-6 * max(1.0, abs(q["sum"])):
                        findings.append({"what": "C06: the clock of a runtime differs from the sum of the elapse times dispatched to it "
                                                 "(several simulations in one process)", "job": job, "variant": variant, "runtime": q["label"],
                                         "script": script[-12:], "expected": q["sum"], "observed": c})
                        break
                if findings:
                    break
            if findings:
                break
            eng = get_builder(get_skill_components(env), env.character.action_stat).build_operation_engine()
            stats["engines"] += 1
            c0 = eng.get_current_viewer()("clock")
            if c0 != 0:
                findings.append({"what": "C06: an operation engine built after other simulations ran starts with a non-zero clock",
                                 "job": job, "variant": variant, "script": script[-12:], "expected": 0, "observed": c0})
                break
        except Exception as e:
            ctx.log("several_simulations_in_one_process(%s): %r" % (job, e))
    return findings, stats


def translate_play(ctx: Ctx) -> bool:
    """play() and _get_event_callbacks (simulate/base.py), regenerated from the tree under test (fail closed)"""
    import tr_play
    from lib.vf import REPO
    try:
        files, meta = tr_play.gen(str(REPO))
    except Exception as e:      # noqa: BLE001
        ctx.prepare_coq()
        for f in (ctx.coq / "gen").glob("PlaySrc.*"):
            f.unlink()
        ctx.broken.append("translator tools/tr_play.py rejects %s: %s" % (tr_play.SRC, str(e)[:300]))
        ctx.obligations += 1
        ctx.cov.setdefault("translators", {})["tr_play"] = {"files": [tr_play.SRC], "rejected": str(e)[:300]}
        return False
    for n, t in files.items():
        ctx.write_gen(n, t)
    ctx.cov.setdefault("translators", {})["tr_play"] = {"files": [tr_play.SRC], "rejected": None, "functions": meta["functions"]}
    return True


def run(ctx: Ctx, which=WHICH, props=PROPS, assume=None) -> int:
    if which == "C05":
        props = list(props) + (["theories/Props/C05_play_src.v"] if translate_play(ctx) else [])
    ec.build_and_check_props(ctx, props)
    budget = ec.Budget(600 if ctx.thorough else 100)
    shards, findings, infos, samples = {}, [], {}, []
    distinct = set()
    plays = dispatched = 0
    for si, (job, variant) in enumerate(ec.job_schedule(ctx, 80 if ctx.thorough else 24)):
        if not budget.ok():
            break
        lines, steps = gen_steps(ctx, job, variant)
        try:
            txt, f, info = h_engine.scenario_relay(job, variant, steps, via_json=bool(si % 2))
        except Exception as e:
            findings.append({"job": job, "variant": variant, "steps": describe(steps), "what": which + ": exception %r" % e})
            continue
        name = "%s_%03d" % (which.lower(), si)
        shards[name] = txt
        infos[name] = {"job": job, "variant": variant, "steps": describe(steps), **info}
        for x in f:
            if x["what"].startswith(which):
                findings.append(dict(x, job=job, variant=variant, steps=describe(steps)))
        plays += info["plays"]
        dispatched += info["dispatched"]
        distinct.add(json.dumps([job, variant, describe(steps)], ensure_ascii=False))
        if len(samples) < 2:
            samples.append({"job": job, "variant": variant, "steps": describe(steps)})
    res = ctx.coq_eval(shards)
    diffs = []
    for name, (rc, out) in sorted(res.items()):
        r = h_engine.parse_two_lists(out) if rc == 0 else None
        if r is None:
            diffs.append({"scenario": infos[name], "model_vs_implementation": "shard did not evaluate: " + out[-300:]})
            continue
        bad = r[0] if which == "C05" else r[1]
        if bad:
            diffs.append({"scenario": infos[name], "model_vs_implementation":
                          ("plays whose dispatch differs from the model's queue: %s" if which == "C05" else
                           "logs whose clock advance is not the documented one: %s") % bad})
    ctx.cov.update({
        "evaluations": plays, "distinct_nontrivial": len(distinct), "samples": samples,
        "traces_validated_against_impl": len(res),
        "rule": "random plans on rotating jobs x environments with a reload (checkpoint, JSON, restore) after 15% and a rollback "
                "after 7% of the commands; every play's router-level dispatch list and clock are recorded; evaluations = plays; "
                "distinct = distinct (job, env, step list)",
        "correspondence": {"scenarios": len(res), "plays": plays, "router_dispatches": dispatched, "differences": len(diffs)},
        "impl_search": {"plays_checked": plays, "counterexamples": len(findings)},
    })
    for d in diffs:
        ctx.broken.append("model and implementation disagree: %s" % json.dumps(d, ensure_ascii=False)[:300])
    if which == "C06":
        rt_findings, rt_stats = several_simulations_in_one_process(ctx)
        findings += rt_findings
        ctx.cov["impl_search"]["several_simulations_in_one_process"] = rt_stats
    from lib import h_dispatch                      # dispatch / store layer: Props/Cxx_dispatch.v + H-dispatch
    findings += h_dispatch.hook(ctx, which)
    if findings:
        for f in findings[:3]:
            ctx.violation("impl-counterexample", f["what"], input=f)
    elif ctx.broken:
        ctx.violation("correspondence" if diffs else "proof-obligation", "; ".join(ctx.broken)[:1500],
                      input={"differences": diffs[:3]}, no_input=True)
    return ctx.finish("proof", assume or ASSUME)


ASSUME = [
    "restore (save s) = s (hypothesis of C05_checkpoint_restore_transparent; exercised by the reload steps)",
    "which listeners react to an offered callback (wildcards, '$' patterns, addons): Props/C05_dispatch.v proves, over Model/Dispatch.v, that "
    "every listening component is invoked exactly once per callback, before / after the action; that model is tied to simulate/base.py and "
    "component/base.py by the H-dispatch correspondence (tools/lib/h_dispatch.py: _find_mapping_name, callbacks, whole-play invocation traces)",
    "hand-written model coq/theories/Model/Play.v tied to simulate/base.py play() by that comparison on every recorded play",
]


def replay(ctx, path):
    print(open(path).read()[:3000])
    return 0
