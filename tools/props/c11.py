"""C11 -- stat blocks form a commutative monoid and every field takes part."""
from __future__ import annotations

import itertools
import json
import math
import random

from lib import corestage, corecases
from lib.vf import Ctx, open_known

STAT_DEFS = ("Stat_", "ActionStat_add", "ActionStat_iadd", "LevelStat_", "ExtendedStat_")


def close(a, b, tol=1e-9):
    return abs(a - b) <= tol * max(1.0, abs(a), abs(b))


def same(a, b):
    if hasattr(a, "model_fields"):
        return all(same(getattr(a, f), getattr(b, f)) for f in type(a).model_fields)
    return close(a, b)


def first_diff(a, b, path=""):
    if hasattr(a, "model_fields"):
        for f in type(a).model_fields:
            r = first_diff(getattr(a, f), getattr(b, f), path + "." + f)
            if r:
                return r
        return None
    return None if close(a, b) else (path, a, b)


def impl_search(ctx: Ctx, n: int):
    """Search the implementation itself for a stat block on which a law of C11 fails.
    Returns a list of counterexamples (dicts)."""
    from simaple.core import base
    rng = random.Random(ctx.seed + 11)
    found = []
    tried = 0

    def bad(law, inputs, lhs, rhs):
        d = first_diff(lhs, rhs)
        found.append({"law": law, "inputs": corestage.dump(inputs), "field": d[0], "lhs": d[1], "rhs": d[2]})

    def iadd(a, b):
        a = a.model_copy(deep=True)
        a += b
        return a
    def routes(cname, cls, x):
        out = [("model_validate(model_dump())", cls.model_validate(x.model_dump())), ("deep copy", x.model_copy(deep=True))]
        try:
            y = cls()
            if cname == "ExtendedStat":
                for sub in cls.model_fields:
                    for f in type(getattr(x, sub)).model_fields:
                        setattr(getattr(y, sub), f, getattr(getattr(x, sub), f))
            else:
                for f in cls.model_fields:
                    setattr(y, f, getattr(x, f))
            if same(y, x):
                out.append(("default instance filled in place", y))
        except Exception:      # noqa: BLE001  (a frozen model: this route does not exist)
            pass
        return out

    classes = {
        "Stat": (base.Stat, lambda: corecases.rnd_stat(rng)),
        "ActionStat": (base.ActionStat, lambda: corecases.rnd_value(rng, ("rec", "ActionStat"))),
        "LevelStat": (base.LevelStat, lambda: corecases.rnd_value(rng, ("rec", "LevelStat"))),
        "ExtendedStat": (base.ExtendedStat, lambda: corecases.rnd_value(rng, ("rec", "ExtendedStat"))),
    }
    # (1) single-field probes: every declared field must survive every operation
    for cname, (cls, gen) in classes.items():
        if cname == "ExtendedStat":
            continue
        for f in cls.model_fields:
            for v in (7.0, 13.5):
                a = cls(**{f: v})
                z = cls()
                other = cls(**{g: 3.0 for g in cls.model_fields})
                tried += 1
                checks = [("%s: a + 0 = a" % cname, [a], a + z, a), ("%s: 0 + a = a" % cname, [a], z + a, a),
                          ("%s: a + b = b + a" % cname, [a, other], a + other, other + a)]
                if hasattr(cls, "__iadd__"):
                    checks.append(("%s: a += b equals a + b" % cname, [a, other], iadd(a, other), a + other))
                    checks.append(("%s: b += a equals b + a" % cname, [other, a], iadd(other, a), other + a))
                if cname == "Stat":
                    checks.append(("Stat: sum([a]) = a", [a], cls.sum([a]), a))
                    checks.append(("Stat: sum([a, b]) = a + b", [a, other], cls.sum([a, other]), a + other))
                    st = a.stack(3)
                    checks.append(("Stat: stack scales field %s by n" % f, [a], cls(**{f: getattr(st, f)}), cls(**{f: 3 * v})))
                    checks.append(("Stat: short_dict round trip", [a], cls(**a.short_dict()), a))
                    if f not in ("final_damage_multiplier", "ignored_defence"):
                        checks.append(("Stat: field %s adds" % f, [a, other],
                                       cls(**{f: getattr(a + other, f)}), cls(**{f: v + 3.0})))
                for law, ins, l, r in checks:
                    if not same(l, r):
                        bad(law, ins, l, r)
    # (2) random blocks
    for _ in range(n):
        for cname, (cls, gen) in classes.items():
            a, b, c = gen(), gen(), gen()
            z = cls()
            tried += 1
            checks = [("%s: a + b = b + a" % cname, [a, b], a + b, b + a),
                      ("%s: (a + b) + c = a + (b + c)" % cname, [a, b, c], (a + b) + c, a + (b + c)),
                      ("%s: a + 0 = a" % cname, [a], a + z, a), ("%s: 0 + a = a" % cname, [a], z + a, a)]
            # a block is its field values, however it was built: the same values reached by validation of a dump, by a deep copy or by
            # filling a default instance in place (through the nested blocks for ExtendedStat) must add the same way on either side
            for rname, b2 in routes(cname, cls, b):
                checks.append(("%s: a + b does not depend on how b was built (%s)" % (cname, rname), [a, b], a + b2, a + b))
                checks.append(("%s: b + a does not depend on how b was built (%s)" % (cname, rname), [a, b], b2 + a, b + a))
            if hasattr(cls, "__iadd__"):
                checks.append(("%s: a += b equals a + b" % cname, [a, b], iadd(a, b), a + b))
                # the operand may be the accumulator itself (s += s; a list that contains its own accumulator)
                t = a.model_copy(deep=True)
                t += t
                checks.append(("%s: a += a equals a + a (operand aliases the accumulator)" % cname, [a], t, a + a))
                # in-place accumulation that starts from a SUM (a + 0, 0 + a, a + b) agrees with repeated + of the same operands taken
                # afterwards: a sum that is one of its operands would let the accumulation rewrite that operand
                for sname, mk in (("a + 0", lambda: a + cls()), ("0 + a", lambda: cls() + a)):
                    a_before = a.model_copy(deep=True)
                    acc3 = mk()
                    acc3 += b
                    acc3 += c
                    checks.append(("%s: in-place accumulation onto (%s) = repeated +, operands read afterwards" % (cname, sname),
                                   [a_before, b, c], acc3, (a + b) + c))
                    for f in type(a).model_fields:        # put the operand back so that the later checks see the generated block
                        setattr(a, f, getattr(a_before, f))
                t2 = b.model_copy(deep=True)
                for x in [a, t2, c]:
                    t2 += x
                checks.append(("%s: accumulating a list that contains the accumulator" % cname, [b, a, c], t2, ((b + a) + (b + a)) + c))
            if cname == "Stat":
                l = [a, b, c] + [gen() for _ in range(rng.randint(0, 3))]
                p = l[:]
                rng.shuffle(p)
                acc = cls()
                for x in l:
                    acc = acc + x
                acc2 = cls()
                for x in l:
                    acc2 += x
                checks += [("Stat: sum(l) = repeated +", l, cls.sum(l), acc),
                           ("Stat: sum(l) = sum(permutation of l)", l, cls.sum(l), cls.sum(p)),
                           ("Stat: in-place accumulation = repeated +", l, acc2, acc)]
                n_ = rng.randint(0, 6)
                st = a.stack(n_)
                checks.append(("Stat: stack n scales every field by n", [a, n_], st,
                               cls(**{f: getattr(a, f) * n_ for f in cls.model_fields})))
                fd = 1 + 0.01 * (a + b).final_damage_multiplier
                checks.append(("Stat: final damage combines multiplicatively", [a, b],
                               base.Stat(STR=fd), base.Stat(STR=(1 + 0.01 * a.final_damage_multiplier) * (1 + 0.01 * b.final_damage_multiplier))))
                checks.append(("Stat: ignored defence combines multiplicatively", [a, b],
                               base.Stat(STR=100 - (a + b).ignored_defence),
                               base.Stat(STR=0.01 * (100 - a.ignored_defence) * (100 - b.ignored_defence))))
            for law, ins, lhs, rhs in checks:
                if not same(lhs, rhs):
                    bad(law, ins, lhs, rhs)
        if len(found) > 20:
            break
    ctx.cov["impl_search"] = {"blocks_tried": tried, "counterexamples": len(found)}
    return found


def run(ctx: Ctx) -> int:
    meta = corestage.translate(ctx)
    diffs = []
    if meta is not None:
        ok, log, failed = ctx.build(["theories/Props/C11.vo", "gen/CoreF.vo", "theories/Lib/Corr.vo"])
        if not ok:
            ctx.broken.append("Coq build failed at %s: %s" % (failed, err_of(log)))
            ctx.obligations += 1
        else:
            ctx.check_props("theories/Props/C11.v")
        if not any("Coq build failed" in b and "gen/" in (failed or "") for b in ctx.broken):
            try:
                diffs, qcases = corestage.correspondence(
                    ctx, meta, lambda n: n.startswith(STAT_DEFS), 120 if ctx.thorough else 12, tag="c11")
                ctx.cov["samples"] = [{"def": n, "args": corestage.dump(a), "python_result": corestage.dump(e)}
                                      for (n, a, e) in qcases[:2]]
                ctx.cov["distinct_nontrivial"] = len({json.dumps(corestage.dump(a), sort_keys=True, default=str) for (_n, a, _e) in qcases})
            except Exception as e:
                ctx.broken.append("correspondence could not run: %r" % e)
    for d in diffs:
        ctx.broken.append("model/implementation difference on %s (%s instance)" % (d["def"], d["domain"]))
    found = impl_search(ctx, 4000 if (ctx.thorough or ctx.broken) else 400)
    ctx.cov["rule"] = ("random stat blocks (fields dropped with p=.25; zeros, small ints, dyadics, doubles, negative final "
                       "damage, 0..100 defence ignore) fed to every generated definition and to the Python methods; "
                       "distinct = distinct argument tuples; single-field probes for every declared field of every class")
    if found:
        for f in found[:3]:
            ctx.violation("impl-counterexample", f["law"], input=f["inputs"], expected=f["rhs"], observed=f["lhs"])
    elif ctx.broken:
        ctx.violation("proof-obligation" if not diffs else "correspondence", "; ".join(ctx.broken)[:1500],
                      input={"differences": diffs[:5]}, no_input=True)
    return ctx.finish("proof", ASSUME)


def err_of(log):
    i = log.find("Error")
    return " ".join(log[max(0, i - 300):i + 500].split()) if i >= 0 else log[-500:]


ASSUME = [
    "numbers are modelled as exact rationals (the laws are false in binary64; the property text itself notes the "
    "three summation paths associate floats differently); the binary64 twin only validates the translator",
    "pydantic construction/validation, model_dump and model_copy are not modelled (short_dict is only tested)",
    "translator tools/lib/pynum.py + tools/tr_core.py",
]


def replay(ctx, path):
    from simaple.core import base
    r = json.load(open(path))
    print(json.dumps(r, indent=1)[:3000])
    return 0
