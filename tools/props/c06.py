"""C06 -- the clock equals the time asked for; commands advance it as documented."""
from __future__ import annotations

from lib.vf import Ctx
from props import c05

ASSUME = [
    "component dispatchers never write the clock (hypothesis Hframe): Props/C06_dispatch.v derives it from the binds (no component binds "
    "global.time: generated obligation gen/DispatchData.v, vm_compute on the components extracted from real engines) over Model/Dispatch.v, "
    "tied to the code by H-dispatch (run through c05.run); still monitored: every play's clock difference vs its own direct *.elapse payload",
    "time is modelled in exact ticks; the correspondence compares the documented advance with the recorded clocks up to 1e-9 "
    "relative (binary64 addition of the elapse payload)",
    "'by nothing if rejected': the model advances a CAST by the first positive DELAY among the events of its use-play whatever "
    "their name (as the code does); a rejected cast produces no DELAY for the modelled components (C07)",
    "hand-written models Model/Play.v, Model/Engine.v (handlers) tied to simulate/timer.py, policy/handlers.py by the correspondence",
]


def translate(ctx: Ctx) -> bool:
    """the operation handlers (policy/handlers.py), regenerated from the tree under test (fail closed)"""
    import tr_handlers
    from lib.vf import REPO
    try:
        files, meta = tr_handlers.gen(str(REPO))
    except Exception as e:
        ctx.prepare_coq()
        for f in (ctx.coq / "gen").glob("HandlersSrc.*"):
            f.unlink()
        ctx.broken.append("translator tools/tr_handlers.py rejects %s: %s" % (tr_handlers.SRC, str(e)[:300]))
        ctx.obligations += 1
        ctx.cov["translators"] = {"tr_handlers": {"files": [tr_handlers.SRC], "rejected": str(e)[:300]}}
        return False
    for n, t in files.items():
        ctx.write_gen(n, t)
    ctx.cov["translators"] = {"tr_handlers": {"files": [tr_handlers.SRC], "rejected": None, "functions": meta["functions"],
                                              "table": meta["table"]}}
    return True


def run(ctx: Ctx) -> int:
    props = ["theories/Props/C06.v"] + (["theories/Props/C06_handlers.v"] if translate(ctx) else [])
    return c05.run(ctx, which="C06", props=props, assume=ASSUME)


def replay(ctx, path):
    print(open(path).read()[:3000])
    return 0
