"""C02 -- same plan, same environment, same result: always and everywhere.

1. T-isolation (tools/tr_isolation.py): regenerate gen/Isolation.v from simaple's source -- imports, uses of dual-use
   modules / watched builtins, process-wide state, shapes of the spec repository hand-out.
2. Build and check Props/C02.v: the route-cache theorems about Model/Router.v (every dispatcher list, every sequence
   of dispatches, every client, re-entrant dispatch, failures), C01's "engine is a function of its logs", and the
   generated obligations (no entropy import, process-wide state = reviewed list, repository hands out copies).
3. Correspondence for Model/Router.v: the real RouterDispatcher -- in real engines (also wired with component addons,
   i.e. re-entrant dispatch) and in synthetic routers (real TandemDispatcher / ContextDispatcher, late installs,
   raising dispatchers, unbounded re-entrance) -- against Model/RouterExec.v in coqc: cache hits, primitive calls in
   order, returned events, final `_route_cache`.
4. Known findings: none open.
5. Implementation-side search H-iso (tools/lib/h_iso.py): the same batch of (job, environment, plan) triples alone
   in fresh processes (reference), then in one process in shuffled orders with other runs before and between, under
   8 threads, under other PYTHONHASHSEED values, with engines built first and stepped round-robin, after mutating in
   place everything the API handed out, and on engines that were asked something else before; canonical JSON of
   component lists / operation logs / views / API responses compared; every reviewed process-wide object digested
   before and after.
6. Verdict.
"""
from __future__ import annotations

import json
import os
import random
import re
import subprocess
import time
from collections import Counter
from concurrent.futures import ThreadPoolExecutor

from lib import h_iso
from lib.vf import PY, REPO, VERIF, Ctx, open_known

PROPS = "theories/Props/C02.v"
DISPATCH_PROPS = "theories/Props/C02_dispatch_src.v"
TARGETS = [PROPS + "o", "theories/Model/RouterExec.vo", "theories/Lib/Corr.vo"]
MODEL_TARGETS = ["theories/Model/RouterExec.vo", "theories/Lib/Corr.vo"]
FUEL = 400          # > nesting depth CPython reaches before RecursionError (about 4 frames per re-entrance)
WORKERS = 14
# the process-wide objects named in the property's anchors, watched even when the translator fails
FALLBACK_STATE = [
    ("simaple.data.jobs.builtin", "get_kms_jobs_repository", "global:_BUILTIN_KMS_SKILL_REPOSITORY"),
    ("simaple.gear.blueprint.potential_blueprint", "_global_load_kms_potential_table", "global:__potential_db_table"),
    ("simaple.simulate.policy.parser", "__PARSER", "call:Lark"),
    ("simaple.simulate.policy.parser", "__OperationTreeTransformer", "call:TreeToOperation"),
    ("simaple.spec._math", "__arithmetic_parser", "call:Lark"),
    ("simaple.spec.loadable", "_LAYER_NAMESPACE", "call:NamespaceRepository"),
]


def err_of(log: str) -> str:
    m = re.search(r'File "\./([^"]+)", line (\d+).*?\n(Error:.*?)(?:\n\n|\Z)', log, re.S)
    if m:
        return "%s:%s %s" % (m.group(1), m.group(2), " ".join(m.group(3).split())[:300])
    return " ".join(log.strip().splitlines()[-3:])[:300]


def worker(job: dict, hashseed="0", timeout=900):
    """one h_iso job in a fresh interpreter against REPO's tree"""
    env = dict(os.environ)
    env["PYTHONPATH"] = "%s:%s" % (REPO, VERIF / "tools")
    env["PYTHONDONTWRITEBYTECODE"] = "1"
    env["PYTHONHASHSEED"] = str(hashseed)
    t0 = time.time()
    try:
        p = subprocess.run([PY, str(VERIF / "tools" / "lib" / "h_iso.py")], input=json.dumps(job), text=True,
                           capture_output=True, env=env, timeout=timeout, cwd=str(VERIF))
    except subprocess.TimeoutExpired:
        return None, "timeout after %ss" % timeout
    if "@@RESULT@@" not in p.stdout:
        return None, (p.stderr or p.stdout)[-1500:]
    r = json.loads(p.stdout.split("@@RESULT@@", 1)[1])
    r["_wall"] = round(time.time() - t0, 2)
    return r, None


def parallel(items):
    """items: list of (job, hashseed); returns list of (result, err) in order"""
    with ThreadPoolExecutor(WORKERS) as ex:
        return list(ex.map(lambda it: worker(it[0], it[1]), items))


# ------------------------------------------------------------------------------------------ step 1
def translate(ctx: Ctx):
    import tr_isolation
    try:
        files, meta = tr_isolation.gen(str(REPO))
    except Exception as e:      # noqa
        ctx.broken.append("translator tools/tr_isolation.py rejected the source: %s" % e)
        ctx.prepare_coq()                 # fail closed: no stale list from setup may stand in for the source
        for f in (ctx.coq / "gen").glob("Isolation.*"):
            f.unlink()
        return None
    for n, t in files.items():
        ctx.write_gen(n, t)
    # the dispatcher / router / timer plumbing must still be the reviewed text the router model (Model/Router.v) describes
    import tr_router
    try:
        rfiles, rmeta = tr_router.gen(str(REPO))
        for n, t in rfiles.items():
            ctx.write_gen(n, t)
        ctx.obligations += 1
        ctx.discharged += 1
        guard = {"kind": "shape guard", "functions": rmeta["functions"], "rejected": None}
    except Exception as e:      # noqa
        ctx.broken.append("shape guard tools/tr_router.py: %s" % str(e)[:500])
        ctx.obligations += 1
        guard = {"kind": "shape guard", "rejected": str(e)[:500]}
    # the three dispatcher __call__ methods, regenerated; Props/C02_dispatch_src.v proves them equal to the router model's definitions
    import tr_dispatch
    try:
        dfiles, dmeta = tr_dispatch.gen(str(REPO))
        for n, t in dfiles.items():
            ctx.write_gen(n, t)
        disp_tr = {"rejected": None, "functions": dmeta["functions"]}
    except Exception as e:      # noqa
        for f in (ctx.coq / "gen").glob("DispatchSrc.*"):
            f.unlink()
        ctx.broken.append("translator tools/tr_dispatch.py rejects the source: %s" % str(e)[:400])
        ctx.obligations += 1
        disp_tr = {"rejected": str(e)[:400]}
    ctx.cov["translators"] = {"tr_dispatch": disp_tr, "tr_router": guard, "tr_isolation": {
        "files_read": len(meta["files"]), "import_statements": meta["imports"],
        "distinct_non_simaple_imports": meta["distinct_imported"], "uses": ["%s: %s" % tuple(u) for u in meta["uses"]],
        "state_entries": len(meta["state"]),
        "state_entries_by_kind": dict(Counter(k.split(":")[0] for _m, _q, k in meta["state"])),
        "shapes": {k: [" ".join(x for x in t if x) for t in v] for k, v in meta["shapes"].items() if k != "iso_helpers"}}}
    return meta


# ------------------------------------------------------------------------------------------ step 2
DIAG = r"""From Coq Require Import List String Bool.
From V.Model Require Import IsolationSpec.
From G Require Import Isolation.
Import ListNotations.
Open Scope string_scope.
Definition new_state := filter (fun e => negb (existsb (state_eqb e) reviewed_state)) (nonbenign iso_state).
Definition gone_state := filter (fun e => negb (existsb (state_eqb e) (nonbenign iso_state))) reviewed_state.
Definition bad_imports := filter (fun mi => entropy_import (snd mi)) iso_imports.
Definition bad_uses := filter (fun mu => negb (use_ok mu)) iso_uses.
Definition bad_get := filter (fun i => negb (get_item_ok i)) iso_repo_get.
Definition bad_get_all := filter (fun i => negb (get_all_item_ok i)) iso_repo_get_all.
Definition bad_interpret := filter (fun i => negb (interpret_item_ok i)) iso_interpret.
Definition bad_helpers := filter (fun i => negb (no_write i)) iso_helpers.
Definition missing_modules := filter (fun m => negb (mem m iso_modules)) required_modules.
Eval vm_compute in ("@new_state", new_state).
Eval vm_compute in ("@gone_state", gone_state).
Eval vm_compute in ("@bad_imports", bad_imports).
Eval vm_compute in ("@bad_uses", bad_uses).
Eval vm_compute in ("@bad_get", bad_get).
Eval vm_compute in ("@bad_get_all", bad_get_all).
Eval vm_compute in ("@bad_interpret", bad_interpret, interpret_copies_self_data iso_interpret).
Eval vm_compute in ("@bad_helpers", bad_helpers).
Eval vm_compute in ("@missing_modules", missing_modules).
"""


def diagnose(ctx: Ctx):
    """which generated obligation failed and on which entries (evaluated in Coq on the generated lists)"""
    ok, log, _f = ctx.build(["theories/Model/IsolationSpec.vo", "gen/Isolation.vo"])
    if not ok:
        return {"error": err_of(log)}
    rc, out = ctx.coq_eval({"c02_diag": DIAG})["c02_diag"]
    if rc != 0:
        return {"error": out[-500:]}
    res = {}
    for m in re.finditer(r'=\s*\("@(\w+)",\s*(.*?)\)\s*:\s', out, re.S):
        body = " ".join(m.group(2).split())
        entries = re.findall(r'\(("(?:[^"]|"")*"(?:,\s*"(?:[^"]|"")*")*)\)', body)
        res[m.group(1)] = [e.replace('"', "") for e in entries] if entries else ([] if body.startswith("[]") or body.startswith("nil") else [body])
    return res


def build_props(ctx: Ctx, meta):
    """returns (model_ok, focus) -- focus: module names the broken obligations point at"""
    focus = []
    if meta is None:
        ctx.obligations += 1
        ok2, log2, _f2 = ctx.build(MODEL_TARGETS)
        if not ok2:
            ctx.broken.append("Coq build of the router model failed: " + err_of(log2))
        return ok2, focus
    ok, log, failed = ctx.build(TARGETS)
    if ok:
        ctx.check_props(PROPS)
        # the dispatcher methods regenerated from the source equal the router model's definitions (when the translator accepted them)
        if (ctx.coq / "gen" / "DispatchSrc.v").exists():
            ok3, log3, failed3 = ctx.build([DISPATCH_PROPS + "o"])
            if ok3:
                ctx.check_props(DISPATCH_PROPS)
            else:
                ctx.obligations += 1
                ctx.broken.append("the dispatcher methods generated from the source are no longer the router model's definitions "
                                  "(Proofs/DispatchTie.v): %s: %s" % (failed3, err_of(log3)))
        return True, focus
    ctx.obligations += 1
    msg = err_of(log)
    if failed and ("IsolationP" in failed or "Isolation" in failed):
        d = diagnose(ctx)
        ctx.cov["broken_obligation_detail"] = d
        parts = []
        for k, label in (("new_state", "process-wide state that is not on the reviewed list"),
                         ("gone_state", "reviewed state that no longer exists"),
                         ("bad_imports", "imports of an entropy source"), ("bad_uses", "uses that were not reviewed"),
                         ("bad_get", "DirectorySpecRepository.get hands out / writes"),
                         ("bad_get_all", "DirectorySpecRepository.get_all hands out / writes"),
                         ("bad_interpret", "Spec.interpret binds / returns / writes"),
                         ("bad_helpers", "helper methods of the repository / Spec write"),
                         ("missing_modules", "anchored modules no longer scanned")):
            v = d.get(k)
            if v and v != ["[]"] and not (k == "bad_interpret" and v == ["[], true"]):
                parts.append("%s: %s" % (label, "; ".join(v)[:600]))
                focus += [e.split(",")[0].strip() for e in v if e.startswith("simaple")]
        msg = ("a generated isolation obligation no longer holds (Proofs/IsolationP.v) -- " + (" | ".join(parts) or msg))
    ctx.broken.append("Coq build failed at %s: %s" % (failed, msg))
    ok2, log2, _f2 = ctx.build(MODEL_TARGETS)
    if not ok2:
        ctx.broken.append("Coq build of the router model failed: " + err_of(log2))
    return ok2, focus


# ------------------------------------------------------------------------------------------ batches
def env_json(variant: int) -> dict:
    from lib import simenv
    kw = dict(simenv.env_variants()[variant])
    kw["action_stat"] = {k: v for k, v in kw["action_stat"].model_dump().items() if v}
    kw["stat"] = {k: v for k, v in kw["stat"].model_dump().items() if v}
    return kw


def shipped_plan_lines(job):
    p = REPO / "plans" / "30s" / ("%s.simaple" % job)
    if not p.exists():
        return None, None
    text = p.read_text(encoding="utf8")
    body = text.split("\n---", 2)[-1]
    lines = []
    for l in body.splitlines():
        l = l.split("#", 1)[0].strip()
        if l:
            lines.append(l)
    return lines, text


def make_triples(ctx: Ctx, big: bool, focus_jobs=(), extended=False):
    """quick: 1 random plan of 45 commands per (job, environment); extended (something broke in a quick run): 2 of 70;
    thorough: 3 of 110"""
    from lib import simenv
    rng = random.Random(ctx.seed + 2)
    n_cmds = 110 if big else (70 if extended else 45)
    plans_per = 3 if big else (2 if extended else 1)
    triples = []
    k = 0
    for job in simenv.JOBS:
        for variant in range(3):
            for p in range(plans_per + (1 if job in focus_jobs else 0)):
                lines = simenv.random_plan(rng, job, variant, n_cmds)
                triples.append({"id": "%s/env%d/random%d" % (job, variant, p), "job": job, "env": env_json(variant),
                                "plan": lines, "api": (k % 4 == 0)})
                k += 1
        # every skill once from the initial state (zero stacks, nothing running: the branches a long random plan rarely revisits), twice
        names = list(simenv.skill_names(job, 0))
        each = ['USE "%s"' % n for n in names] + ["ELAPSE 1000"] + ['USE "%s"' % n for n in names] + ["ELAPSE 30000"] + \
               ['CAST "%s"' % n for n in names[: 12]]
        triples.append({"id": "%s/env0/each-skill" % job, "job": job, "env": env_json(0), "plan": each, "api": False})
        lines, text = shipped_plan_lines(job)
        if lines:
            for variant in ((0, 1, 2) if big else (2,)):
                triples.append({"id": "%s/env%d/shipped" % (job, variant), "job": job, "env": env_json(variant),
                                "plan": lines[: (200 if big else 70)], "api": False})
    heavy = []
    for job in (("archmagetc", "bishop", "adele") if big else ("archmagetc",)):
        lines, text = shipped_plan_lines(job)
        if text:
            # the HTTP API path: provider header -> environment -> run_plan (a BaselineEnvironmentProvider costs seconds)
            header, body = text.split("\n---", 1)
            body_lines = body.splitlines()[: (60 if big else 25)]
            while body_lines and (not body_lines[-1].strip() or "#" in body_lines[-1]):
                body_lines.pop()          # (a plan must not end in a comment: open finding of C14)
            heavy.append({"id": "%s/baseline-provider/api" % job, "job": job, "env": {}, "plan": [],
                          "baseline_plan": header + "\n---\n" + "\n".join(body_lines).strip() + "\n", "heavy": True})
    noise = []
    for i in range(8 if big else 4):
        job = simenv.JOBS[rng.randrange(len(simenv.JOBS))]
        variant = rng.randrange(3)
        e = env_json(variant)
        e["level"] = rng.choice([200, 230, 260, 275])
        e.setdefault("stat", {})["INT"] = rng.choice([1, 5000, 12345])
        noise.append({"id": "noise%d" % i, "job": job, "env": e, "plan": simenv.random_plan(rng, job, variant, 25), "noise": True})
    return triples, heavy, noise


def make_schedules(ctx: Ctx, triples, heavy, noise, big: bool):
    rng = random.Random(ctx.seed + 3)
    seeds_other = ["1", "4242", "987654321"] + (["7", "31337", str(rng.randrange(1, 2 ** 32 - 1))] if big else [])

    def shuffled(ts, with_noise):
        ts = list(ts)
        rng.shuffle(ts)
        if with_noise:
            out = list(noise[: len(noise) // 2])
            for i, t in enumerate(ts):
                out.append(t)
                if i % 5 == 4:
                    out.append(noise[(i // 5) % len(noise)])
            ts = out
        return ts

    S = []
    light = triples
    S.append({"name": "shuffled-A", "mode": "sequential", "seed": "0", "triples": shuffled(light + heavy, True)})
    S.append({"name": "shuffled-B", "mode": "sequential", "seed": "0", "triples": shuffled(light, True)})
    S.append({"name": "reversed", "mode": "sequential", "seed": "0", "triples": list(reversed(light))})
    S.append({"name": "threads-8", "mode": "threads", "threads": 8, "seed": "0", "triples": shuffled(light + heavy, True)})
    S.append({"name": "interleaved", "mode": "interleaved", "seed": "0", "triples": shuffled(light, False)})
    S.append({"name": "interleaved-rev", "mode": "interleaved", "seed": "0", "triples": list(reversed(light))})
    S.append({"name": "mutate", "mode": "mutate", "seed": "0", "triples": shuffled(light + heavy, False)})
    S.append({"name": "preasked", "mode": "preasked", "seed": "0", "triples": shuffled(light, False)})
    for hs in seeds_other:
        S.append({"name": "hashseed-%s" % hs, "mode": "sequential", "seed": hs, "triples": shuffled(light, False)})
        S.append({"name": "hashseed-%s-threads" % hs, "mode": "threads", "threads": 8, "seed": hs, "triples": shuffled(light, True)})
    if big:
        for i in range(4):
            S.append({"name": "shuffled-%d" % i, "mode": "sequential", "seed": "0", "triples": shuffled(light, True)})
        S.append({"name": "threads-3", "mode": "threads", "threads": 3, "seed": "0", "triples": shuffled(light, True)})
        S.append({"name": "threads-16", "mode": "threads", "threads": 16, "seed": "0", "triples": shuffled(light + heavy, True)})
        S.append({"name": "mutate-threads", "mode": "mutate", "seed": "4242", "triples": shuffled(light, False)})
        S.append({"name": "preasked-B", "mode": "preasked", "seed": "1", "triples": shuffled(light, False)})
    return S


FIELDS = ("comps", "logs", "final", "error", "api")


def first_diff(ref, got):
    """(field, index) of the first difference between two observations, or None"""
    if got is None:
        return ("missing", None)
    for f in FIELDS:
        a, b = ref.get(f), got.get(f)
        if a == b:
            continue
        if isinstance(a, list) and isinstance(b, list):
            for i, (x, y) in enumerate(zip(a, b)):
                if x != y:
                    return (f, i)
            return (f, min(len(a), len(b)))
        return (f, None)
    return None


def run_iso(ctx: Ctx, triples, heavy, noise, schedules, state):
    """reference + all schedules; returns dict with comparisons, mismatches, singleton changes"""
    by_id = {t["id"]: t for t in triples + heavy}
    items = []
    for t in triples + heavy:
        items.append(({"kind": "alone", "triple": t, "state": state, "dump_singletons": t is triples[0]}, "0"))
    n_ref = len(items)
    for t in triples:            # the reference itself, repeated in another fresh process
        items.append(({"kind": "alone", "triple": t, "state": state}, "0"))
    for s in schedules:
        items.append(({"kind": "batch", "mode": s["mode"], "threads": s.get("threads", 8), "triples": s["triples"], "state": state},
                      s["seed"]))
    ctx.log("H-iso: %d fresh-process references (+%d repeats), %d schedules over %d triples (+%d heavy, %d noise)" % (
        n_ref, len(triples), len(schedules), len(triples), len(heavy), len(noise)))
    res = parallel(items)
    out = {"ref": {}, "mismatches": [], "singleton_changes": [], "worker_failures": [], "comparisons": 0, "nontrivial": set(),
           "schedule_walls": {}, "notes": {}, "ref_trivial": []}
    ref_single = None
    for (job, _hs), (r, err) in zip(items[:n_ref], res[:n_ref]):
        tid = job["triple"]["id"]
        if r is None:
            out["worker_failures"].append("reference %s: %s" % (tid, err))
            continue
        out["ref"][tid] = r["obs"][tid]
        if "singletons_after" in r:
            ref_single = r["singletons_after"]
    # repeated references
    for (job, _hs), (r, err) in zip(items[n_ref:n_ref + len(triples)], res[n_ref:n_ref + len(triples)]):
        tid = job["triple"]["id"]
        if r is None:
            out["worker_failures"].append("repeated reference %s: %s" % (tid, err))
            continue
        if tid in out["ref"]:
            out["comparisons"] += 1
            d = first_diff(out["ref"][tid], r["obs"][tid])
            if d:
                out["mismatches"].append({"schedule": {"name": "alone-again", "mode": "alone", "seed": "0"}, "triple": tid, "diff": d,
                                          "expected": out["ref"][tid], "observed": r["obs"][tid]})
    for tid, o in out["ref"].items():
        if o.get("error") or not o.get("logs") or (o.get("playlogs", 99) < 10):
            out["ref_trivial"].append(tid)
    for s, (r, err) in zip(schedules, res[n_ref + len(triples):]):
        if r is None:
            out["worker_failures"].append("schedule %s: %s" % (s["name"], err))
            continue
        out["schedule_walls"][s["name"]] = r["_wall"]
        out["notes"][s["name"]] = r.get("notes", {})
        for e in r.get("notes", {}).get("thread_errors", []):
            out["mismatches"].append({"schedule": s, "triple": None, "diff": ("thread raised", None), "expected": "no exception",
                                      "observed": e})
        order = [t["id"] for t in s["triples"]]
        for t in s["triples"]:
            if t.get("noise") or t["id"] not in out["ref"]:
                continue
            out["comparisons"] += 1
            d = first_diff(out["ref"][t["id"]], r["obs"].get(t["id"]))
            if d:
                out["mismatches"].append({"schedule": s, "triple": t["id"], "diff": d, "expected": out["ref"][t["id"]],
                                          "observed": r["obs"].get(t["id"])})
            elif t["id"] not in out["ref_trivial"] and len(order) > 1:
                out["nontrivial"].add((t["id"], s["name"]))
        sb, sa = r.get("singletons_before", {}), r.get("singletons_after", {})
        for k in sb:
            if sa.get(k) != sb[k]:
                out["singleton_changes"].append({"schedule": s, "object": k, "kind": "changed while the batch ran"})
        if ref_single:
            for k in sa:
                if k in ref_single and sa[k] != ref_single[k] and s["seed"] == "0":
                    out["singleton_changes"].append({"schedule": s, "object": k, "kind": "differs from the fresh-process content"})
        out["singletons_watched"] = len(sa)
    out["by_id"] = by_id
    return out


def detail_of(ctx: Ctx, mm, state):
    """second pass for one mismatch: fetch the full JSON of the first differing item in both worlds and diff it"""
    s, tid, (field, idx) = mm["schedule"], mm["triple"], mm["diff"]
    if tid is None or field not in ("comps", "logs") or idx is None or s.get("mode") == "alone":
        return None
    want = {tid: {field: [idx]}}
    t = next((x for x in s["triples"] if x["id"] == tid), None)
    if t is None:
        return None
    (a, _e1), (b, _e2) = parallel([({"kind": "alone", "triple": t, "state": [], "want": want}, "0"),
                                   ({"kind": "batch", "mode": s["mode"], "threads": s.get("threads", 8), "triples": s["triples"],
                                     "state": [], "want": want}, s["seed"])])
    key = "%s:%d" % (field, idx)
    x = ((a or {}).get("detail", {}).get(tid) or {}).get(key)
    y = ((b or {}).get("detail", {}).get(tid) or {}).get(key)
    if x is None or y is None:
        return ["%s[%d] exists alone: %s, under the schedule: %s (a run that stopped early has fewer items; see the error fields)"
                % (field, idx, x is not None, y is not None)]
    d = h_iso.json_diff(x, y, path="%s[%d]" % (field, idx))
    return d or ["the second run of this schedule did not reproduce the difference (non-deterministic: threads / timing)"]


# ------------------------------------------------------------------------------------------ router correspondence
def router_cases(ctx: Ctx, triples, big: bool):
    rng = random.Random(ctx.seed + 4)
    plain = [t for t in triples if "/random0" in t["id"] and "/env2" in t["id"]]
    if not big:
        plain = plain[:3]
    engines = []
    for t in plain:
        engines.append(dict(t))
    for t in (plain if big else plain[:2]):
        a = dict(t)
        a["id"] = t["id"] + "+addons"
        chain = sorted(rng.sample(range(40), 7))
        a["addons"] = [[chain[i], chain[i + 1]] for i in range(len(chain) - 1)]
        for _ in range(8):
            x, y = sorted(rng.sample(range(40), 2))
            a["addons"].append([x, y])
        # make sure the wired components are used: cast them first
        engines.append(a)
    syn = [h_iso.gen_synthetic(rng, i) for i in range(1200 if big else 240)]
    jobs = []
    for i in range(0, len(engines), 2):
        jobs.append(({"kind": "router", "engines": engines[i:i + 2], "synthetic": [], "cap": 600 if big else 300}, "0"))
    for i in range(0, len(syn), 120):
        jobs.append(({"kind": "router", "engines": [], "synthetic": syn[i:i + 120]}, "0"))
    return jobs


def router_correspondence(ctx: Ctx, jobs, model_ok):
    cases, errors = [], []
    for r, err in parallel(jobs):
        if r is None:
            errors.append("router worker failed: %s" % err)
            continue
        cases += r["cases"]
        errors += r["errors"]
    # a configuration on which CPython gave up with RecursionError WHILE rejections were being recorded is not comparable: the depth at
    # which the interpreter stops is an artefact (frames per re-entrance), not the model's fuel, and the rejections recorded up to that
    # point (which drive the model's TandemDispatcher) end where CPython stopped, so the model would leave the recorded path.  (Cycles that end by a rejection, by a raising primitive or by a cached route are still compared.)
    def not_comparable(c):
        dops = [o for o in c.get("ops", []) if o[0] == "D"]
        return any(e.get("raised") == "RecursionError" and len(o) > 2 and o[2] for o, e in zip(dops, c.get("expected", [])))
    skipped = [c for c in cases if not_comparable(c)]
    if skipped:
        cases = [c for c in cases if c not in skipped]
        ctx.cov.setdefault("router_cases_not_comparable", {"reason": "CPython RecursionError (unbounded re-entrance)", "count": 0})["count"] += len(skipped)
    diffs = []
    if model_ok and cases:
        shards, index = {}, {}
        for k in range(0, len(cases), 60):
            name = "c02_%03d" % (k // 60)
            shards[name] = h_iso.shard_text(cases[k:k + 60], FUEL)
            index[name] = cases[k:k + 60]
        for name, (rc, out) in sorted(ctx.coq_eval(shards).items()):
            m = re.search(r"=\s*\[(.*?)\]\s*:\s*list N", out, re.S)
            if rc != 0 or not m:
                diffs.append((None, "shard %s did not evaluate: %s" % (name, out[-400:])))
                continue
            for tok in [t for t in re.split(r"[;\s]+", m.group(1).strip()) if t]:
                diffs.append((index[name][int(tok.replace("%N", ""))], "model and implementation disagree"))
    return cases, errors, diffs


def case_summary(c):
    d = {"id": c["id"], "kind": c["kind"], "late_install": c["late"]}
    if c["kind"] == "synthetic":
        d["signatures"] = c["sigs"]
        d["ops"] = c["ops"]
        d["implementation"] = c["expected"]
        d["route_cache_afterwards"] = c["cache"]
    else:
        d["facts"] = c["facts"]
        d["first_dispatches"] = c["expected"][:6]
    return d


# ------------------------------------------------------------------------------------------ main
def run(ctx: Ctx) -> int:
    meta = translate(ctx)
    model_ok, focus_modules = build_props(ctx, meta)
    state = [list(s) for s in meta["state"]] if meta else [list(s) for s in FALLBACK_STATE]
    focus_jobs = sorted({m.split(".")[-1] for m in focus_modules if ".specific." in m})
    big = ctx.thorough

    # 3. correspondence of the router model (more cases when a proof obligation broke)
    triples, heavy, noise = make_triples(ctx, big, focus_jobs)
    cases, rerrors, rdiffs = router_correspondence(ctx, router_cases(ctx, triples, big or bool(ctx.broken)), model_ok)
    for e in rerrors:
        ctx.broken.append("router recording: " + e)
    for c, why in rdiffs:
        ctx.broken.append("Model/Router.v vs RouterDispatcher: %s %s" % (why, c["id"] if c else ""))
    concat_bad = [c["id"] for c in cases if c["kind"] != "synthetic" and not c["facts"]["events_concatenated_in_call_order"]]
    for cid in concat_bad:
        ctx.broken.append("router hypothesis failed: events returned are not the primitive dispatchers' events in call order (%s)" % cid)
    ctx.log("router correspondence: %d cases, %d differences" % (len(cases), len(rdiffs)))

    # 5. isolation search (extended budget when a proof obligation or the correspondence broke)
    extended = bool(ctx.broken) and not ctx.thorough
    if extended:
        ctx.log("something broke: isolation search with the extended budget" + (" (focus: %s)" % focus_jobs if focus_jobs else ""))
        triples, heavy, noise = make_triples(ctx, big, focus_jobs, extended)
    schedules = make_schedules(ctx, triples, heavy, noise, big)
    iso = run_iso(ctx, triples, heavy, noise, schedules, state)
    (alias, _aerr), = parallel([({"kind": "aliasing"}, "0")])
    for f in iso["worker_failures"]:
        ctx.broken.append("H-iso worker failed: " + f[:400])
    ctx.log("H-iso: %d comparisons, %d mismatches, %d singleton changes" % (
        iso["comparisons"], len(iso["mismatches"]), len(iso["singleton_changes"])))

    # 4. known findings
    for e in open_known("C02"):
        ctx.broken.append("stale known finding %s: no replay implemented" % e["id"])

    # coverage
    syn = [c for c in cases if c["kind"] == "synthetic"]
    eng = [c for c in cases if c["kind"] != "synthetic"]
    hist = Counter()
    for c in syn:
        raised = any(e["trace"] is None for e in c["expected"])
        hist["synthetic/%s/%s" % ("late-install" if c["late"] else "install-first", "some-dispatch-raises" if raised else "no-raise")] += 1
    for c in eng:
        hist[c["kind"]] += 1
    ref_ok = [tid for tid in iso["ref"] if tid not in iso["ref_trivial"]]
    sample_t = next((t for t in triples if t["id"] in ref_ok), triples[0])
    sample_s = schedules[0]
    ctx.cov.update({
        "evaluations": iso["comparisons"] + len(cases),
        "distinct_nontrivial": len(iso["nontrivial"]) + len({json.dumps(c["ops"], sort_keys=True) for c in syn
                                                              if any(e["hit"] for e in c["expected"])}) + len(eng),
        "rule": "H-iso: a case is one (triple, schedule) comparison -- the observation (sha1 per built component, per operation log "
                "incl. every checkpoint, of the final views, of the API response; error text) of a (job, environment, plan) triple "
                "under a schedule against the same triple alone in a fresh process; triples = 8 jobs x 3 environments x random "
                "plans from simenv.random_plan (+ the shipped 30 s plans, + shipped plans through the Baseline provider / run_plan "
                "API path); schedules = shuffled orders with other runs before and between, reversed, 8 threads, other "
                "PYTHONHASHSEED values (sequential and threaded), engines built first and stepped round-robin, after in-place "
                "mutation of everything handed out, same engine asked another plan before; non-trivial = the reference ran >= 10 "
                "plays without error AND other runs shared the process; distinct = distinct (triple id, schedule). Router "
                "correspondence: a case is one recorded router history (real engine, real engine with addons, or synthetic "
                "dispatcher list + operation list); non-trivial = at least one cache hit; distinct = distinct operation list.",
        "samples": [
            {"triple": {k: (v if k != "plan" else v[:12] + ["... %d lines" % len(v)]) for k, v in sample_t.items()},
             "reference_observation": {k: (v[:3] + ["... %d digests" % len(v)] if isinstance(v, list) else v)
                                       for k, v in iso["ref"].get(sample_t["id"], {}).items()},
             "schedule": {"name": sample_s["name"], "mode": sample_s["mode"], "hashseed": sample_s["seed"],
                          "order": [t["id"] for t in sample_s["triples"]][:14] + ["..."]}},
        ] + ([case_summary(syn[0])] if syn else []) + ([case_summary(eng[-1])] if eng else []),
        "traces_validated_against_impl": len(cases) if model_ok else 0,
        "correspondence": {
            "cases": len(cases), "differences": len(rdiffs), "histogram": dict(sorted(hist.items())),
            "dispatches": sum(len(c["expected"]) for c in cases),
            "cache_hits": sum(1 for c in cases for e in c["expected"] if e["hit"]),
            "dispatches_that_raised": sum(1 for c in cases for e in c["expected"] if e["trace"] is None),
            "re_entrant_dispatches_in_real_engines": sum(c["facts"]["nested_dispatches"] for c in eng),
            "primitive_calls_in_real_engines": sum(c["facts"]["primitive_calls"] for c in eng),
            "events_concatenated_in_call_order": not concat_bad,
        },
        "impl_search": {
            "triples": len(triples) + len(heavy), "noise_runs": len(noise), "schedules": {s["name"]: len(s["triples"]) for s in schedules},
            "comparisons": iso["comparisons"], "mismatches": len(iso["mismatches"]),
            "process_wide_objects_digested_before_and_after_each_schedule": iso.get("singletons_watched", 0),
            "process_wide_changes": len(iso["singleton_changes"]),
            "in_place_mutations_applied": {k: v.get("mutations") for k, v in iso["notes"].items() if v.get("mutations")},
            "references_not_counted_as_nontrivial": iso["ref_trivial"],
            "schedule_wall_s": iso["schedule_walls"], "extended_budget": extended,
        },
        "observations": {
            "spec_hand_out_aliasing": alias,
            "note": "DirectorySpecRepository.get/get_all return spec.model_copy() (shallow): the returned Spec's .data and .metadata ARE "
                    "the stored objects, so a caller that writes INTO them changes every later build. No code path of simaple "
                    "does (Spec.interpret copies self.data first, the first two patches of every patched spec rebuild the "
                    "dict); the property quantifies over runs, not over callers that edit handed-out specs, so this is "
                    "recorded as an observation, not as a violation.",
        },
        "trusted_extra": ctx.cov.get("trusted_extra", []) + [
            "tools/tr_isolation.py (Python-ast reader: imports at any depth, attribute uses of dual-use modules, watched builtins, "
            "module/class-level assignments, global/nonlocal, memo decorators, mutable default arguments, import-time statements; "
            "shapes of DirectorySpecRepository.get/get_all and Spec.interpret) -- purely syntactic: dynamic imports, getattr-based "
            "access and state hidden in closures or C extensions are invisible to it",
            "tools/lib/h_iso.py (canonicalisation by value, recording router, structural dump of process-wide objects)",
            "reviewed lists of coq/theories/Model/IsolationSpec.v (entropy blacklist, benign constructors, the 40 state entries)",
        ],
        "unmodelled": [
            "PARTIAL: CPython thread interleavings over the process-wide objects (spec repository, Lark parsers, potential table, "
            "class registry) -- explored by the 8-thread schedules, not proved",
            "PARTIAL: hash-seed dependence of set/dict iteration (Component.__reducers__/__views__ are frozensets) -- explored "
            "under the listed PYTHONHASHSEED values, not proved",
            "PARTIAL: Lark, PyYAML, pydantic internals (shared parser objects, validation caches) -- digested before/after, not modelled",
            "Patch.apply / modify effect skeletons (Lib/Effects.v of C08 was not available): 'interpreting never alters the "
            "stored spec' is carried by the before/after digests of the repository in every schedule, not by a theorem",
            "a RouterDispatcher installed inside another router (RouterDispatcher.includes depends on the cache): no code path builds one",
            "EngineBuilder.add_component after build_operation_engine shares the router: the late dispatcher is skipped for "
            "signatures dispatched before (C02_late_install_is_stale); no shipped path does this",
        ],
    })

    # 6. verdict
    reported = 0
    seen = set()
    chosen = []
    for mm in iso["mismatches"]:
        key = (mm["schedule"]["name"], mm["diff"][0])
        if key in seen or len(chosen) >= 4:
            continue
        seen.add(key)
        chosen.append(mm)
    with ThreadPoolExecutor(4) as ex:
        details = list(ex.map(lambda m: detail_of(ctx, m, state), chosen[:2])) + [None] * len(chosen)
    for mm, detail in zip(chosen, details):
        s = mm["schedule"]
        reported += 1
        t = iso["by_id"].get(mm["triple"]) if mm["triple"] else None
        ctx.violation(
            "impl-counterexample",
            "C02: %s of %s under schedule %s (PYTHONHASHSEED=%s) differs from the same triple alone in a fresh process" % (
                mm["diff"][0] + ("[%s]" % mm["diff"][1] if mm["diff"][1] is not None else ""), mm["triple"], s["name"], s["seed"]),
            input={"triple": t, "schedule": {"name": s["name"], "mode": s.get("mode"), "hashseed": s["seed"], "threads": s.get("threads"),
                                             "triples": s.get("triples")}},
            expected={k: (v if not isinstance(v, list) else "sha1 list of %d" % len(v)) for k, v in (mm["expected"] or {}).items()}
            if isinstance(mm["expected"], dict) else mm["expected"],
            observed={"first_difference": mm["diff"], "json_diff": detail,
                      "observation": {k: (v if not isinstance(v, list) else "sha1 list of %d" % len(v))
                                      for k, v in (mm["observed"] or {}).items()} if isinstance(mm["observed"], dict) else mm["observed"]})
    seen = set()
    for ch in iso["singleton_changes"]:
        key = ch["object"]
        if key in seen or reported >= 6:
            continue
        seen.add(key)
        reported += 1
        s = ch["schedule"]
        ctx.violation("impl-counterexample",
                      "C02: process-wide object %s %s (schedule %s)" % (ch["object"], ch["kind"], s["name"]),
                      input={"schedule": {"name": s["name"], "mode": s["mode"], "hashseed": s["seed"], "threads": s.get("threads"),
                                          "triples": s["triples"]}, "object": ch["object"]},
                      expected="digest of the object before the batch == after the batch == in a fresh process",
                      observed=ch["kind"])
    if not reported and ctx.broken:
        first = next((c for c, _w in rdiffs if c), None)
        ctx.violation("correspondence" if rdiffs else "proof-obligation", "; ".join(ctx.broken)[:1800],
                      input={"router_case": case_summary(first)} if first else None, no_input=True)
    return ctx.finish("proof", ASSUME)


ASSUME = [
    "C02_route_cache*: hypothesis `sig_eqb a b = true -> a = b` -- the keys of `_route_cache` are the full signature strings and "
    "Python's str equality is equality (tied by the correspondence: cache hits, calls, events and final cache content of the real "
    "RouterDispatcher agree with Model/RouterExec.v on every recorded history)",
    "dispatchers are modelled as values: `includes` is a pure function of the signature and a primitive dispatcher a (partial) "
    "function of (action, store); tested: includes-tables recorded after the run reproduce every routing decision made during it",
    "C02_deterministic_engine is C01_state_in_log: it assumes `play` is a function of (store, action) -- for the caching router that "
    "is C02_route_cache_any_client; for the components it is C08 (reducers are pure), not repeated here",
    "generated obligations are syntactic (tools/tr_isolation.py): entropy reached through getattr/importlib/C extensions or state "
    "kept in closures is not seen by them; H-iso explores the behaviour",
    "PARTIAL: thread interleavings of CPython, Lark/yaml/pydantic internals and hash-seed dependence of set/dict iteration are "
    "explored by H-iso (8 threads, the listed PYTHONHASHSEED values), not proved",
    "'interpreting a spec never alters the stored spec' is carried by H-iso's before/after digests of _BUILTIN_KMS_SKILL_REPOSITORY "
    "(Lib/Effects.v was not available when this check was built)",
]


def replay(ctx: Ctx, path) -> int:
    rp = json.loads(open(path).read())
    inp = rp.get("input") or {}
    print("replaying %s (%s)" % (path, rp.get("what", "")[:200]))
    if inp.get("schedule") and inp["schedule"].get("triples"):
        s = inp["schedule"]
        t = inp.get("triple")
        targets = [t] if t else [x for x in s["triples"] if not x.get("noise")]
        items = [({"kind": "alone", "triple": x, "state": []}, "0") for x in targets]
        items.append(({"kind": "batch", "mode": s["mode"], "threads": s.get("threads") or 8, "triples": s["triples"],
                       "state": [list(x) for x in FALLBACK_STATE]}, s.get("hashseed", "0")))
        res = parallel(items)
        (b, berr) = res[-1]
        if b is None:
            print("worker failed:", berr)
            return 2
        bad = 0
        for x, (r, err) in zip(targets, res[:-1]):
            if r is None:
                print("worker failed:", err)
                return 2
            d = first_diff(r["obs"][x["id"]], b["obs"].get(x["id"]))
            print(x["id"], "differs at %s" % (d,) if d else "equal")
            bad += 1 if d else 0
        changed = [k for k, v in b["singletons_before"].items() if b["singletons_after"].get(k) != v]
        print("process-wide objects changed:", changed)
        return 1 if bad or changed else 0
    if inp.get("router_case") and inp["router_case"].get("kind") == "synthetic":
        c = inp["router_case"]
        sc = {"id": c["id"], "kind": "synthetic", "sigs": c["signatures"], "ops": c["ops"], "late": c["late_install"]}
        (r, err), = parallel([({"kind": "router", "engines": [], "synthetic": [sc]}, "0")])
        if r is None or not r["cases"]:
            print("worker failed:", err or r)
            return 2
        ok, _log, _f = ctx.build(MODEL_TARGETS)
        rc, out = ctx.coq_eval({"c02_replay": h_iso.shard_text(r["cases"], FUEL)})["c02_replay"]
        m = re.search(r"=\s*\[(.*?)\]\s*:\s*list N", out, re.S)
        agree = bool(ok and rc == 0 and m and not m.group(1).strip())
        print("implementation:", json.dumps(r["cases"][0]["expected"]))
        print("model agrees with implementation:", agree)
        return 0 if agree else 1
    print(json.dumps(rp, indent=1, ensure_ascii=False)[:3000])
    return 0
