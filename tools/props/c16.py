"""C16 -- every level configuration builds, runs, and upgrading never weakens a skill.

1. tools/tr_yaml.py regenerates gen/Formulas.v + gen/Profiles.v from the YAML specifications and from the level-dependent
   code of the patch chain (fail closed); tools/tr_core.py regenerates gen/CoreQ.v (Stat addition);
2. Props/C16.v (20 theorems about the generated tables) is rebuilt;
3. correspondence (tools/lib/h_levels.py): layer A = every formula x every level of its range through the REAL
   SkillLevelPatch + ArithmeticPatch vs Coq (bind-then-eval AND substitute-tokens-then-parse); layer B = real
   get_skill_components on provider-made environments vs the model of the built fields, modifier blocks, names, level map;
4. the property as stated, directly on the implementation: boundary grid of the seven level axes x 8 jobs (every
   configuration builds, names unique, replacement rule, the engine builds), single-axis sweeps (no damage figure of a
   built component decreases), random well-formed plans run to completion.
"Builds and runs without raising" is totality of the Python stack: explored here, not proved."""
from __future__ import annotations

import collections
import itertools
import json
import random
import re
import time

from lib import h_levels as H
from lib import vf
from lib.vf import REPO, Ctx, open_known

import tr_yaml

PROPS = "theories/Props/C16.v"
N_THEOREMS = 20
TARGETS = [PROPS + "o", "theories/Model/LevelsBuilt.vo", "theories/Lib/Corr.vo"]
GEN_FILES = ("Formulas", "Profiles")


def err_of(log: str) -> str:
    ls = [l for l in log.splitlines() if l.strip()]
    for i, l in enumerate(ls):
        if l.startswith("Error"):
            return " ".join(ls[max(0, i - 1):i + 3])[:500]
    return (ls[-1] if ls else "?")[:300]


# =========================================================================================== 1-2. translate, build
def regenerate_and_build(ctx: Ctx):
    meta = None
    try:
        files, meta = tr_yaml.gen(str(REPO))
        for n, t in files.items():
            ctx.write_gen(n, t)
    except Exception as e:      # noqa: BLE001 -- fail closed: no stale table may stand in for the rejected source
        ctx.broken.append("translator tr_yaml rejected the source: %s" % str(e)[:400])
        ctx.cov.setdefault("translators", {})["tr_yaml"] = {"rejected": str(e)[:400]}
        ctx.prepare_coq()
        for g in GEN_FILES:
            for stale in (ctx.coq / "gen").glob(g + ".*"):
                stale.unlink()
    from lib import corestage
    corestage.translate(ctx)
    have_model = False
    if meta is not None:
        fs = meta["formulas"]
        ctx.cov.setdefault("translators", {})["tr_yaml"] = {
            "files_read": len(meta["files"]) + 3, "documents": meta["documents"], "formulas": len(fs),
            "damage_formulas": sum(1 for f in fs if f["damage"]),
            "level_formulas": sum(1 for f in fs if meta["skill_level"]["representation"] in f["vars"]),
            "figures": len(meta["figures"]), "stat_blocks": len(meta["sblocks"]), "profiles": [p["job"] for p in meta["profiles"]],
            "get_skill_level": {k: meta["skill_level"][k] for k in ("conds", "then", "else", "offsets")},
            "hexa_table_rows": meta["hexa_rows"], "v_improvement": meta["v_improvement"], "exclude": meta["exclude"],
            "patch_chain": meta["chains"]["Component"], "constructs_rejected": 0}
        ok, log, failed = ctx.build(TARGETS)
        if ok:
            ctx.check_props(PROPS)
            have_model = True
        else:
            ctx.obligations += N_THEOREMS
            ctx.broken.append("Coq build failed at %s: %s" % (failed, err_of(log)))
            ctx.cov.setdefault("coq_errors", []).append(log[-1500:])
            ok2, _l, _f = ctx.build(TARGETS[1:])
            have_model = ok2 and (ctx.coq / "theories/Model/LevelsBuilt.vo").exists()
            if have_model:
                d = diagnose(ctx, meta)
                if d:
                    ctx.cov["failing_obligations"] = d
                    ctx.broken.append("table checks that fail in the regenerated model: %s" % json.dumps(d, ensure_ascii=False)[:700])
    else:
        ctx.obligations += N_THEOREMS
    if have_model and ctx.discharged and ctx.thorough:
        cmd = "coqchk -silent -o -Q theories V -Q gen G V.Props.C16"
        rc, out = vf.sh("timeout 900 " + cmd, cwd=ctx.coq, timeout=930)
        ctx.checker_cmds.append(cmd)
        clean = rc == 0 and "Axioms: <none>" in " ".join(out.split())
        ctx.cov["coqchk"] = {"cmd": cmd, "rc": rc, "axioms_none": clean}
        if not clean:
            ctx.broken.append("coqchk does not re-check the closure of Props/C16.vo cleanly: %s" % out[-300:])
    ctx.cov["model_files"] = ["Model/Levels.v", "Model/LevelsBuilt.v", "Model/Expr.v", "Model/ExprParse.v", "gen/Formulas.v",
                              "gen/Profiles.v", "gen/CoreQ.v"]
    ctx.log("theorems %d/%d, model %s" % (ctx.discharged, ctx.obligations, "built" if have_model else "NOT available"))
    return meta, have_model


DIAG = """
Definition bad_steps (f : formula) : list Z :=
  if only_var level_var (f_expr f) then filter (fun l => negb (step_ok no_env level_var (f_expr f) l)) (zspan (f_lo f) (f_hi f)) else [].
Eval vm_compute in (map (fun f => (f_id f, bad_steps f)) (filter (fun f => negb (damage_ok f)) formulas)).
Eval vm_compute in (map (fun f => (f_id f, @nil Z)) (filter (fun f => negb (parses_to f)) formulas)).
Eval vm_compute in (map (fun g => (g_id g, @nil Z)) (filter (fun g => negb (figure_ok g && figure_scoped g)) figures)).
Eval vm_compute in (map (fun b => (b_id b, @nil Z)) (filter (fun b => negb (block_ok b && block_scoped b)) sblocks)).
Eval vm_compute in (map (fun l => (0%nat, [l])) (filter (fun l => match gen_hexa_fdm l, gen_hexa_fdm (l + 1) with Some a, Some b => negb (Qle_bool a b) | _, _ => true end) (zspan 0 max_hexa_improvement))).
Eval vm_compute in (map (fun p => (List.length (p_components p), @nil Z)) (filter (fun p => negb (nodupb (p_components p) && nodupb (map fst (p_mastery p)) && replacement_names_ok p && forallb (hull_ok p) formulas)) profiles)).
"""


def diagnose(ctx: Ctx, meta):
    """The theorems do not build but the model does: name the table entries that fail their checks (model-side witness)."""
    res = ctx.coq_eval({"c16diag": H.HEADER + DIAG})
    rc, out = res["c16diag"]
    if rc != 0:
        return None
    blocks = re.findall(r"=\s*(\[.*?\])\s*:\s*list", out, re.S)
    if len(blocks) != 6:
        return None
    rows = [[(int(a), [int(x) for x in re.findall(r"-?\d+", b)]) for a, b in re.findall(r"\((\d+)%nat,\s*\[([^\]]*)\]\)", " ".join(b.split()))] for b in blocks]
    fd = {f["id"]: f for f in meta["formulas"]}
    gd = {g["id"]: g for g in meta["figures"]}
    bd = {b["id"]: b for b in meta["sblocks"]}
    d = {"damage_formulas_not_monotone": [{"file": fd[i]["file"], "skill": fd[i]["skill"], "field": ".".join(fd[i]["path"]),
                                           "formula": fd[i]["text"].strip(), "decreases_after_level": lv, "range": [fd[i]["lo"], fd[i]["hi"]]}
                                          for i, lv in rows[0]],
         "formulas_not_parsed_to_their_expression": [fd[i]["text"] for i, _ in rows[1]],
         "figures_failing": [{"job": gd[i]["job"], "skill": gd[i]["skill"], "field": ".".join(gd[i]["path"])} for i, _ in rows[2]],
         "stat_blocks_failing": [{"job": bd[i]["job"], "skill": bd[i]["skill"], "field": bd[i]["key"]} for i, _ in rows[3]],
         "hexa_table_decreases_after_level": [lv[0] for _i, lv in rows[4]],
         "profiles_failing (by number of components)": [i for i, _ in rows[5]]}
    return {k: v for k, v in d.items() if v}


# =========================================================================================== 3a. layer A
def layer_a(ctx: Ctx, meta, hist):
    tasks = []
    svs = [0, 1, 2] if ctx.thorough else [0, 1]
    for s in meta["specs"]:
        if any(f["spec"] == s["sid"] for f in meta["formulas"]):
            for sv in svs:
                tasks.append((s["sid"], sv, ctx.thorough))
    t0 = time.time()
    results = H.pool_map(H.layer_a_task, tasks)
    t_obs = time.time() - t0
    rows, vars_defs, var_ids, info = [], {}, {}, {}
    problems = []
    distinct = set()
    level_rep = meta["skill_level"]["representation"]
    fdict = {f["id"]: f for f in meta["formulas"]}
    for res in results:
        for r in res:
            sid, key, sv, vals = r[0], r[1], r[2], r[3]
            spec = meta["specs"][sid]
            if isinstance(vals, str):
                problems.append({"what": "the real SkillLevelPatch + ArithmeticPatch raise on a shipped specification inside its documented range",
                                 "spec": spec["where"], "skill": spec["name"], "config": key, "error": vals})
                continue
            variables, shape = r[4], r[5]
            if shape:
                problems.append({"what": "a patch changed a leaf that is not a formula", "spec": spec["where"], "detail": shape, "config": key})
            vk = json.dumps(variables, sort_keys=True)
            if vk not in var_ids:
                var_ids[vk] = "vars_%d" % len(var_ids)
                vars_defs[var_ids[vk]] = H.coq_vars(variables)
            use_map, base, p, c = key
            cfg = "(mkCfg %s %s %s 0 0 %s)" % (H.coq_levels({spec["name"]: base} if use_map else {}), vf.zlit(p), vf.zlit(c), var_ids[vk])
            good = []
            for fid, v in vals.items():
                if isinstance(v, str):
                    problems.append({"what": "a formula leaf is not a number after the real patches", "spec": spec["where"],
                                     "path": ".".join(fdict[fid]["path"]), "value": v, "config": key})
                else:
                    good.append((fid, v))
                    eff = (base if use_map else (spec["default"] or 0)) + (p if spec["passive_on"] else 0) + (c if spec["co_on"] else 0)
                    if level_rep in fdict[fid]["vars"]:
                        distinct.add((fid, eff, sv))
                    hist["A:kind:" + spec["kind"]] += 1
                    hist["A:level:%s" % ("0" if eff == 0 else "1-29" if eff < 30 else "30" if eff == 30 else "31-34")] += 1
            idx = len(rows)
            info[idx] = {"spec": spec["where"], "skill": spec["name"], "kind": spec["kind"], "use_map": use_map, "base": base, "passive": p,
                         "combat_orders": c, "stat_variant": sv, "values": {fid: v for fid, v in good}}
            rows.append((idx, cfg, good))
    shards = {}
    per = 700
    for k in range(0, len(rows), per):
        shards["c16a_%d" % (k // per)] = H.shard_a(rows[k:k + per], vars_defs)
    res = ctx.coq_eval(shards)
    diffs = []
    for n, (rc, out) in sorted(res.items()):
        bad = H.parse_out(out, "a") if rc == 0 else None
        if bad is None:
            ctx.broken.append("layer A shard %s did not evaluate: %s" % (n, out[-300:].replace("\n", " ")))
            continue
        for idx, fids in bad:
            for fid in fids:
                f = fdict[fid]
                d = dict(info[idx])
                d.update(formula=f["text"].strip(), path=".".join(f["path"]), fid=fid, python_value=d["values"].get(fid))
                d.pop("values")
                diffs.append(d)
    n_eval = sum(len(g) for _i, _c, g in rows)
    ctx.log("layer A: %d formula evaluations (%d distinct formula x level x stat), %d differences, %d problems, %.1fs (python %.1fs)"
            % (n_eval, len(distinct), len(diffs), len(problems), time.time() - t0, t_obs))
    sample = None
    for idx, _cfg, good in rows:
        if good and info[idx]["use_map"] and info[idx]["base"] == 17:
            fid, v = good[0]
            sample = {"layer": "A", "spec": info[idx]["spec"], "skill": info[idx]["skill"], "formula": fdict[fid]["text"].strip(),
                      "explicit_level": 17, "python_value_through_real_patches": v, "coq": "fval = fval_text = same value"}
            break
    return n_eval, distinct, diffs, problems, sample


# =========================================================================================== 3b. layer B
def layer_b_configs(ctx: Ctx, rng):
    cfgs = []
    combos = list(itertools.product([0, 1, 2], [0, 1, 2]))
    for j, job in enumerate(H.JOBS):
        for L in range(0, 31):
            pcs = combos if ctx.thorough else [combos[(L + j) % 9], (0, 0) if L % 2 else (2, 2)]
            for (p, c) in dict.fromkeys(pcs):
                svs = [0, 1, 2] if ctx.thorough and (p, c) in ((0, 0), (2, 2), (1, 2)) else [(L + p + c) % 3]
                for sv in svs:
                    cfgs.append((H.make_cfg(job, sv, v=L, h=L, m=L, hi=L, vi=2 * L, p=p, c=c), p == c or ctx.thorough))
        vis = range(0, 61) if ctx.thorough else sorted(set(H.BOUNDARY["vi"]) | set(range(0, 61, 7)) | {39, 42})
        for vi in vis:
            cfgs.append((H.make_cfg(job, vi % 3, vi=vi, hi=rng.choice(H.BOUNDARY["hi"])), True))
        for hi in (range(0, 31) if ctx.thorough else H.BOUNDARY["hi"]):
            cfgs.append((H.make_cfg(job, hi % 3, hi=hi, h=30, m=rng.choice([0, 30])), True))
        # independent levels per axis (not on the diagonal)
        for _ in range(60 if ctx.thorough else 10):
            lv = {a: rng.randint(*H.AXIS_RANGE[a]) if rng.random() < 0.6 else rng.choice(H.BOUNDARY[a]) for a in H.AXES}
            cfgs.append((H.make_cfg(job, rng.randrange(3), **lv), True))
    return cfgs


def layer_b(ctx: Ctx, meta, hist, rng):
    t0 = time.time()
    cfgs = layer_b_configs(ctx, rng)
    obs = H.pool_map(H.observe_task, [(c, False, True, None) for c, _b in cfgs])
    t_obs = time.time() - t0
    rows, vars_defs, var_ids, info = [], {}, {}, {}
    problems, unobservable = [], collections.Counter()
    distinct = set()
    n_eval = 0
    for (cfg, with_blocks), o in zip(cfgs, obs):
        if o["error"]:
            problems.append({"what": "building the skill set raises", "config": cfg, "error": o["error"], "trace": o.get("trace")})
            continue
        for u in o["unobservable"]:
            unobservable[(cfg["job"], u[0], u[1])] += 1
        vk = json.dumps(o["vars"], sort_keys=True)
        if vk not in var_ids:
            var_ids[vk] = "vars_%d" % len(var_ids)
            vars_defs[var_ids[vk]] = H.coq_vars(o["vars"])
        idx = len(rows)
        figs = sorted(o["figures"].items())
        blks = sorted(o["blocks"].items()) if with_blocks else []
        info[idx] = (cfg, o)
        rows.append((idx, cfg["job"], H.coq_cfg(o, var_ids[vk]), "profile_" + re.sub(r"[^a-zA-Z0-9_]", "_", cfg["job"]),
                     (cfg["v"], cfg["h"], cfg["m"]), o["names"], o["skill_levels"], figs, blks))
        n_eval += len(figs) + len(blks) + 2
        distinct.add(H.cfg_key(cfg))
        for a in H.AXES:
            lo, hi = H.AXIS_RANGE[a]
            hist["B:%s:%s" % (a, "lo" if cfg[a] == lo else "hi" if cfg[a] == hi else "mid")] += 1
        hist["B:job:" + cfg["job"]] += 1
    shards = {}
    per = 60
    for k in range(0, len(rows), per):
        shards["c16b_%d" % (k // per)] = H.shard_b(rows[k:k + per], vars_defs)
    res = ctx.coq_eval(shards)
    diffs = []
    figd = {g["id"]: g for g in meta["figures"]}
    blkd = {b["id"]: b for b in meta["sblocks"]}
    for n, (rc, out) in sorted(res.items()):
        bad = H.parse_out(out, "b") if rc == 0 else None
        if bad is None:
            ctx.broken.append("layer B shard %s did not evaluate: %s" % (n, out[-300:].replace("\n", " ")))
            continue
        for idx, bf, bb, names_ok, levels_ok in bad:
            cfg, o = info[idx]
            for g in bf:
                diffs.append({"what": "built field differs from the model", "config": cfg, "skill": figd[g]["skill"],
                              "field": ".".join(figd[g]["path"]), "built_value": o["figures"][g]})
            for b in bb:
                diffs.append({"what": "built stat block differs from the model", "config": cfg, "skill": blkd[b]["skill"],
                              "field": blkd[b]["key"], "built_value": dict((k, v) for k, v in zip(meta["stat_fields"], o["blocks"][b]) if v)})
            if not names_ok:
                diffs.append({"what": "built component names differ from built_names", "config": cfg, "built_names": o["names"],
                              "skill_levels": o["skill_levels"]})
            if not levels_ok:
                diffs.append({"what": "the provider's skill_levels differ from skill_levels_of", "config": cfg, "skill_levels": o["skill_levels"]})
    ctx.log("layer B: %d configurations, %d field/block/name comparisons, %d differences, %d build problems, %.1fs (builds %.1fs)"
            % (len(rows), n_eval, len(diffs), len(problems), time.time() - t0, t_obs))
    sample = None
    for idx, (cfg, o) in info.items():
        if cfg["job"] == "adele" and cfg["v"] == 0 and o["figures"]:
            g = next((g for g in o["figures"] if figd[g]["skill"] == "루인"), None)
            if g is not None:
                sample = {"layer": "B", "config": cfg, "skill": "루인", "field": ".".join(figd[g]["path"]), "built_value": o["figures"][g],
                          "built_names": len(o["names"]), "coq": "figure_value agrees; built_names and skill_levels_of agree"}
                break
    return len(rows), n_eval, distinct, diffs, problems, unobservable, sample


# =========================================================================================== 4. the property on the implementation
def real_profiles():
    from simaple.core import JobType
    from simaple.data.jobs.builtin import get_skill_profile
    out = {}
    for job in H.JOBS:
        p = get_skill_profile(JobType(job))
        out[job] = {"mastery": list(p.get_skill_replacements().items())}
    return out


def impl_search(ctx: Ctx, rng, hist, focus):
    """-> (findings, stats).  findings: dicts with `what`, `config`, ..."""
    t0 = time.time()
    findings = []
    profs = real_profiles()
    big = ctx.thorough or bool(ctx.broken)
    # ---- (b) single-axis sweeps: no damage figure of a built component may decrease
    t1 = time.time()
    # m = 0 builds the lower tiers, m > 0 their replacements: both kinds of base point are needed
    bases = [dict(v=30, h=30, m=30, vi=60, hi=30, c=2, p=2), dict(v=0, h=0, m=0, vi=0, hi=0, c=0, p=0)]
    if big:
        bases.append(dict(H.DEFAULT_LEVELS))
        for _ in range(5):
            bases.append({a: rng.randint(*H.AXIS_RANGE[a]) for a in H.AXES})
    for f in focus:                  # configurations on which the model and the implementation disagreed
        bases.append({a: f[a] for a in H.AXES})
    sweeps = []
    for job in H.JOBS:
        for bi, base in enumerate(bases):
            for a in H.AXES:
                lo, hi = H.AXIS_RANGE[a]
                for val in range(lo, hi + 1):
                    lv = dict(base)
                    lv[a] = val
                    sweeps.append(((job, bi, a), H.make_cfg(job, bi % 3, **lv)))
    obs = H.pool_map(H.observe_task, [(c, False, False, None) for _k, c in sweeps], chunksize=16)
    n_pairs = 0
    prev = {}
    compared = set()
    for (key, cfg), o in zip(sweeps, obs):
        if o["error"]:
            findings.append({"what": "a level configuration in the documented ranges does not build", "config": cfg, "error": o["error"],
                             "trace": o.get("trace")})
            prev.pop(key, None)
            continue
        if key in prev:
            pcfg, po = prev[key]
            n_pairs += 1
            compared.update(po["damage_fields"].keys() & o["damage_fields"].keys())
            for field, a, b in H.decreases(po, o):
                skill, path = field.split("\t")
                findings.append({"what": "raising one level lowers a damage figure of a built skill", "axis": key[2],
                                 "from": pcfg[key[2]], "to": cfg[key[2]], "skill": skill, "field": path, "before": a, "after": b,
                                 "config": cfg, "config_before": pcfg})
        if len(set(o["names"])) != len(o["names"]):
            findings.append({"what": "built skills are not uniquely named", "config": cfg,
                             "duplicates": [n for n, k in collections.Counter(o["names"]).items() if k > 1]})
        for bad in H.replacement_violations(o, profs[cfg["job"]]):
            findings.append({"what": "replacement rule: a lower-tier skill must be built exactly when its 6th-job replacement has level 0",
                             "config": cfg, "detail": bad, "skill_levels": o["skill_levels"]})
        prev[key] = (cfg, o)
        hist["sweep:" + key[2]] += 1
    ctx.log("sweeps: %d adjacent pairs over %d base points, %d distinct (skill, field) compared, %.1fs"
            % (n_pairs, len(bases), len(compared), time.time() - t1))
    # ---- (a) boundary grid: build, names, replacement rule, engine
    big_grid = ctx.thorough or (bool(ctx.broken) and not findings)     # escalate only while nothing concrete was found
    t0g = time.time()
    grid = []
    for job in H.JOBS:
        corners = [dict(zip(H.AXES, vals)) for vals in itertools.product(*[[H.AXIS_RANGE[a][0], H.AXIS_RANGE[a][1]] for a in H.AXES])]
        full = [dict(zip(H.AXES, vals)) for vals in itertools.product(*[H.GRID[a] for a in H.AXES])]
        pts = full if big_grid else corners + rng.sample(full, 20)
        for lv in pts:
            grid.append(H.make_cfg(job, rng.randrange(3), **lv))
    obs = H.pool_map(H.observe_task, [(c, True, False, None) for c in grid], chunksize=8)
    n_grid = 0
    for cfg, o in zip(grid, obs):
        n_grid += 1
        if o["error"]:
            findings.append({"what": "a level configuration in the documented ranges does not build", "config": cfg, "error": o["error"],
                             "trace": o.get("trace")})
            continue
        names = o["names"]
        if len(set(names)) != len(names):
            dup = [n for n, k in collections.Counter(names).items() if k > 1]
            findings.append({"what": "built skills are not uniquely named", "config": cfg, "duplicates": dup})
        for bad in H.replacement_violations(o, profs[cfg["job"]]):
            findings.append({"what": "replacement rule: a lower-tier skill must be built exactly when its 6th-job replacement has level 0",
                             "config": cfg, "detail": bad, "skill_levels": o["skill_levels"]})
    ctx.log("grid: %d configurations built (+engine), %d findings, %.1fs" % (n_grid, len(findings), time.time() - t0g))
    # ---- (a') per-skill level maps: replacements learned / not learned independently of each other
    t0m = time.time()
    mixed = []
    for job in H.JOBS:
        pairs = list(profs[job]["mastery"])
        if not pairs:
            continue
        highs = [h for _l, h in pairs]
        pats = [{highs[-1]: 7, **{h: 0 for h in highs[:-1]}}, {highs[0]: 3, **{h: 0 for h in highs[1:]}},
                {highs[-1]: 0, **{h: 30 for h in highs[:-1]}}]
        for _ in range(6 if ctx.thorough else 2):
            pats.append({h: rng.choice([0, 0, 1, 15, 30]) for h in highs})
        for pat in pats:
            lv = {a: rng.choice(H.BOUNDARY[a]) for a in H.AXES}
            cfg = H.make_cfg(job, rng.randrange(3), **lv)
            cfg["skill_levels_override"] = pat
            mixed.append(cfg)
    obs = H.pool_map(H.observe_task, [(c, False, False, None) for c in mixed], chunksize=4)
    for cfg, o in zip(mixed, obs):
        if o["error"]:
            findings.append({"what": "a per-skill level configuration in the documented ranges does not build", "config": cfg, "error": o["error"],
                             "trace": o.get("trace")})
            continue
        if len(set(o["names"])) != len(o["names"]):
            findings.append({"what": "built skills are not uniquely named", "config": cfg,
                             "duplicates": [n for n, k in collections.Counter(o["names"]).items() if k > 1]})
        for bad in H.replacement_violations(o, profs[cfg["job"]]):
            findings.append({"what": "replacement rule: a lower-tier skill must be built exactly when its 6th-job replacement has level 0 "
                                     "(per-skill levels)", "config": cfg, "detail": bad, "skill_levels": o["skill_levels"]})
    hist["mixed_per_skill_level_maps"] = len(mixed)
    ctx.log("per-skill level maps: %d configurations, %d findings so far, %.1fs" % (len(mixed), len(findings), time.time() - t0m))
    # ---- (c) random well-formed plans
    t2 = time.time()
    plans = []
    nplan, length = (20, 150) if (ctx.thorough or (bool(ctx.broken) and not findings)) else (3, 70)
    for job in H.JOBS:
        for k in range(nplan):
            lv = {a: rng.choice(H.BOUNDARY[a]) if rng.random() < 0.7 else rng.randint(*H.AXIS_RANGE[a]) for a in H.AXES}
            plans.append((H.make_cfg(job, rng.randrange(3), **lv), ("seed", rng.randrange(10 ** 9), length)))
    # lib/simenv.random_plan on its own three environments
    from lib import simenv
    sim_cases = []
    for job in H.JOBS:
        for variant in ([0, 1, 2] if nplan > 3 else [rng.randrange(3)]):
            lines = simenv.random_plan(random.Random(rng.randrange(10 ** 9)), job, variant, length)
            sim_cases.append((job, variant, lines))
    obs = H.pool_map(H.observe_task, [(c, True, False, pl) for c, pl in plans], chunksize=1)
    n_cmd = 0
    for (cfg, pl), o in zip(plans, obs):
        if o["error"]:
            findings.append({"what": "a level configuration in the documented ranges does not build", "config": cfg, "error": o["error"]})
        elif not o["plan"]["ok"]:
            findings.append({"what": "a plan of well-formed commands raises", "config": cfg, "plan": o["plan"]["lines"],
                             "error": o["plan"]["error"], "trace": o["plan"].get("trace")})
        else:
            n_cmd += o["plan"]["n"]
    for job, variant, lines in sim_cases:
        r = H.run_plan(simenv.make_engine(job, variant), ("lines", lines))
        if not r["ok"]:
            findings.append({"what": "a plan of well-formed commands raises", "config": {"job": job, "simenv_variant": variant},
                             "plan": r["lines"], "error": r["error"], "trace": r.get("trace")})
        else:
            n_cmd += r["n"]
    ctx.log("plans: %d plans, %d commands run, %.1fs" % (len(plans) + len(sim_cases), n_cmd, time.time() - t2))
    stats = {"grid_configurations": n_grid, "grid": "exhaustive product %s per job" % {a: H.GRID[a] for a in H.AXES} if big
             else "all 2^7 corners + 20 sampled grid points per job", "sweep_pairs": n_pairs, "sweep_base_points": len(bases),
             "damage_fields_compared": len(compared), "plans": len(plans) + len(sim_cases), "commands": n_cmd, "counterexamples": len(findings)}
    return findings, stats


# =========================================================================================== known findings
def matches(entry, f) -> bool:
    m = entry.get("match") or {}
    return all(str(f.get(k)) == str(v) for k, v in m.items())


# =========================================================================================== run
def run(ctx: Ctx) -> int:
    rng = random.Random(ctx.seed + 16)
    origin = H.simaple_origin()
    if not origin.startswith(str(REPO)):
        ctx.broken.append("simaple imported from %s, not from %s" % (origin, REPO))
    meta, have_model = regenerate_and_build(ctx)
    hist = collections.Counter()
    diffs, problems, samples = [], [], []
    evaluations = 0
    distinct = 0
    focus = []
    if meta is not None:
        H.prepare_meta(meta)
    else:
        from simaple.core import Stat
        H.prepare_meta({"figures": [], "sblocks": [], "stat_fields": list(Stat.model_fields), "formulas": [], "specs": []})
    if meta is not None and have_model:
        try:
            n, dist_a, da, pa, sa = layer_a(ctx, meta, hist)
            evaluations += n
            distinct += len(dist_a)
            diffs += [dict(d, layer="A") for d in da]
            problems += pa
            if sa:
                samples.append(sa)
            ncfg, n, dist_b, db, pb, unobs, sb = layer_b(ctx, meta, hist, rng)
            evaluations += n
            distinct += len(dist_b)
            diffs += [dict(d, layer="B") for d in db]
            problems += pb
            if sb:
                samples.append(sb)
            focus = [d["config"] for d in db if isinstance(d.get("config"), dict)][:3]
            ctx.cov["correspondence"] = {
                "cases": evaluations, "differences": len(diffs), "layer_A_distinct_formula_level_stat": len(dist_a),
                "layer_B_configurations": ncfg, "histogram": dict(sorted(hist.items())),
                "unobservable_fields": [{"job": j, "skill": s, "field": f, "times": k} for (j, s, f), k in sorted(unobs.items())][:40],
                "first_differences": diffs[:5]}
            if unobs:
                ctx.cov["unmodelled"] = ["%d extracted fields are not numeric attributes of the built component (listed under "
                                         "correspondence.unobservable_fields)" % len(unobs)]
        except Exception as e:      # noqa: BLE001
            import traceback
            ctx.broken.append("correspondence could not run: %r %s" % (e, traceback.format_exc()[-600:]))
    for d in diffs[:20]:
        ctx.broken.append("model/implementation difference (layer %s): %s" % (d.get("layer"), json.dumps({k: v for k, v in d.items() if k != "layer"}, ensure_ascii=False, default=str)[:300]))
    findings = list(problems)
    try:
        found, stats = impl_search(ctx, rng, hist, focus)
        findings += found
        ctx.cov["impl_search"] = stats
        evaluations += stats["grid_configurations"] + stats["sweep_pairs"] + stats["plans"]
    except Exception as e:      # noqa: BLE001
        import traceback
        ctx.broken.append("implementation-side search could not run: %r %s" % (e, traceback.format_exc()[-600:]))
    ctx.cov["evaluations"] = evaluations
    ctx.cov["distinct_nontrivial"] = distinct
    ctx.cov["samples"] = samples or [{"note": "no correspondence ran on this run"}]
    ctx.cov["rule"] = (
        "layer A: every specification with formulas x every (explicit level 0..30 | specification default) x passive/combat-orders offsets "
        "x 2-3 stat variants through the real SkillLevelPatch+ArithmeticPatch, compared in Coq with fval and fval_text; distinct = distinct "
        "(formula, effective level, stat variant) with the level variable occurring (constants are trivial).  layer B: per job the diagonal "
        "v=h=m=hi=L, vi=2L for L=0..30 x passive/combat-orders combinations, v-enhancement and hexa-enhancement sweeps, random independent "
        "levels; distinct = distinct (job, stat variant, 7 levels).  implementation: grid of axis boundary values (thorough: full product, "
        "quick: all 128 corners + 20 sampled per job) built with engine; full-range single-axis sweeps from several base points comparing "
        "every damage-classified numeric field of every built component; random plans over the built skills")
    ctx.cov["refuted"] = {}
    ctx.cov["trusted_extra"] = [
        "translators tools/tr_yaml.py (YAML formulas, profiles, get_skill_level, hexa table, v improvement, _exclude_hexa_skill) and "
        "tools/tr_core.py (Stat.__add__); the formula lexer of tr_yaml.py stands in for Lark's lexer",
        "harness tools/lib/h_levels.py (encoding of environments, observation of built components through model_dump)",
        "not modelled: PyYAML, Lark, pydantic validation, the component classes' own behaviour when plans run"]
    # ---- known findings
    known = open_known("C16")
    unmatched = []
    for f in findings:
        e = next((e for e in known if matches(e, f)), None)
        if e is None:
            unmatched.append(f)
    for e in known:
        hit = [f for f in findings if matches(e, f)]
        if hit:
            ctx.known(e, "%d matching observations, e.g. %s" % (len(hit), json.dumps(hit[0], ensure_ascii=False, default=str)[:200]))
        else:
            ctx.broken.append("known finding %s no longer reproduces" % e["id"])
    # ---- verdict
    if unmatched:
        seen = set()
        for f in unmatched:
            k = (f["what"], f.get("skill"), f.get("field"), f.get("axis"), (f.get("config") or {}).get("job"))
            if k in seen:
                continue
            seen.add(k)
            if len(seen) > 3:
                break
            ctx.violation("impl-counterexample", f["what"], input={k2: v for k2, v in f.items() if k2 not in ("what", "trace")},
                          expected="builds, unique names, replacement rule, plans run, no damage figure decreases",
                          observed={k2: f.get(k2) for k2 in ("error", "before", "after", "duplicates", "detail", "trace") if f.get(k2) is not None})
        ctx.cov["impl_search"] = dict(ctx.cov.get("impl_search", {}), unmatched=len(unmatched))
    elif ctx.broken:
        kind = "correspondence" if diffs else "proof-obligation"
        ctx.violation(kind, "; ".join(ctx.broken)[:1500], input={"differences": diffs[:5]}, no_input=True)
    return ctx.finish("proof", ASSUME)


ASSUME = [
    "real-number reading: formulas are evaluated over exact rationals (number literals = their decimal text); binary64 results are "
    "compared within 1e-9 relative",
    "level axes range over the documented intervals (v / hexa / mastery 0..30, passive and combat orders 0..2, v-enhancement 0..60, "
    "hexa-enhancement 0..30); other variables (character level, weapon attack, character stats) are non-negative",
    "the model of what a built component holds (figure_value, block_value, built_names, skill_levels_of) is tied to "
    "get_skill_components by the layer B comparison, not by proof; pydantic validation, PyYAML and Lark are not modelled",
    "'building succeeds and any plan of well-formed commands runs without raising' is totality of the Python stack: explored "
    "(boundary grid, sweeps, random plans), not proved",
    "translators tools/tr_yaml.py and tools/tr_core.py",
]


def replay(ctx: Ctx, path) -> int:
    payload = json.loads(open(path).read())
    inp = payload.get("input") or {}
    print(json.dumps({k: payload.get(k) for k in ("property", "kind", "what")}, ensure_ascii=False))
    cfg = inp.get("config")
    if not isinstance(cfg, dict) or "job" not in cfg or "v" not in cfg:
        print("replay carries no single configuration:", json.dumps(inp, ensure_ascii=False, default=str)[:1500])
        return 0
    from simaple.core import Stat
    H.prepare_meta({"figures": [], "sblocks": [], "stat_fields": list(Stat.model_fields), "formulas": [], "specs": []})
    plan = ("lines", inp["plan"]) if inp.get("plan") else None
    o = H.observe(cfg, True, False, plan)
    bad = bool(o["error"]) or (plan is not None and not o.get("plan", {}).get("ok", True))
    print("build:", o["error"] or "ok", "| names unique:", (len(set(o.get("names", []))) == len(o.get("names", []))))
    if plan is not None and "plan" in o:
        print("plan:", o["plan"])
    if not o["error"]:
        bad |= len(set(o["names"])) != len(o["names"])
        v = H.replacement_violations(o, real_profiles()[cfg["job"]])
        print("replacement rule violations:", v)
        bad |= bool(v)
        if inp.get("config_before"):
            po = H.observe(inp["config_before"], False, False, None)
            if not po["error"]:
                dec = H.decreases(po, o)
                print("decreases:", dec[:5])
                bad |= bool(dec)
    print("REPRODUCED" if bad else "not reproduced")
    return 1 if bad else 0
