"""C14 -- plan text round-trips: printed operations re-parse to themselves; `xN op` = N copies;
comments, blank lines and spacing do not change the parsed commands; header + commands
render -> parse gives both back; the re-parsed plan executes to the same result."""
from __future__ import annotations

import json
import random
import sys
import time

from lib import h_dsl as H
from lib import vf
from lib.vf import Ctx

PROPS = "theories/Props/C14.v"
TARGETS = ["theories/Props/C14.vo", "theories/Model/DslEq.vo", "theories/Model/DslSpec.vo", "theories/Lib/Corr.vo"]


def err_of(log):
    i = log.find("Error")
    return " ".join(log[max(0, i - 300):i + 500].split()) if i >= 0 else log[-500:]


# ------------------------------------------------------------------ 1. translator
def translate(ctx: Ctx):
    sys.path.insert(0, "/verif/tools")
    import tr_grammar
    try:
        files, meta = tr_grammar.gen(str(vf.REPO))
    except tr_grammar.Reject as e:
        ctx.prepare_coq()
        for p in (ctx.coq / "gen").glob("DslGrammar.*"):      # never prove the tie against a stale extraction
            p.unlink()
        ctx.broken.append("T-grammar rejects the source: %s" % e)
        ctx.cov["translators"] = {"tr_grammar": {"rejected": str(e)}}
        return None
    for n, t in files.items():
        ctx.write_gen(n, t)
    ctx.cov["translators"] = {"tr_grammar": meta}
    return meta


# ------------------------------------------------------------------ 3. correspondence
def gen_cases(ctx: Ctx, n_body, n_sim):
    rng = random.Random(ctx.seed + 14)
    body, ops, sim, prt, info = [], [], [], [], {"b": [], "o": [], "s": []}
    hist = {"profile": {}, "accepted": 0, "rejected": 0, "items": {}, "tokens": {}}
    selfcheck = []
    import yaml
    for i in range(n_body):
        prof = rng.choice(["clean", "mixed", "mixed", "mixed", "noisy"])
        toks = H.gen_plan(rng, prof)
        text = H.render(toks)
        if [H.key(t) for t in H.lex(text)] != [H.key(t) for t in toks]:
            selfcheck.append(text)
            continue
        hist["profile"][prof] = hist["profile"].get(prof, 0) + 1
        for t in toks:
            hist["tokens"][t[0]] = hist["tokens"].get(t[0], 0) + 1
        ks, cs, _, err = H.impl_parse("body", text)
        hist["accepted" if ks is not None else "rejected"] += 1
        body.append((toks, ks))
        info["b"].append((text, ks, err))
        for c in cs or []:
            k = H.cmd_key(c)
            hist["items"][k[0]] = hist["items"].get(k[0], 0) + 1
            if hasattr(c, "expr"):
                prt.append((k, H.lex(c.expr)))
        if i % 3 == 0:
            ks2, _, _, err2 = H.impl_parse("ops", text)
            ops.append((toks, ks2))
            info["o"].append((text, ks2, err2))
    for i in range(n_sim):
        toks, meta = H.gen_runtime(rng)
        text = H.render(toks)
        ks, cs, m, err = H.impl_parse("sim", text)
        hdr = [t for t in toks if t[0] == "H"]
        if ks is None:
            e = None
        elif hdr:
            try:
                ok = yaml.safe_load(hdr[0][2]) == m and m == meta
            except Exception:
                ok = False
            e = (hdr[0][2] if ok else "header metadata differs", ks)
        else:
            e = (None if m == {} else "metadata without header", ks)
        sim.append((toks, e))
        info["s"].append((text, e, err))
    return body, ops, sim, prt, info, hist, selfcheck


def correspondence(ctx: Ctx, scale):
    body, ops, sim, prt, info, hist, selfcheck = gen_cases(ctx, 700 * scale, 300 * scale)
    rngl = random.Random(ctx.seed + 141)
    lexcases = H.gen_lex_cases(rngl, 400 * scale)
    shards, index = {}, {}
    CH = 400

    def chunks(x):
        return [x[i:i + CH] for i in range(0, len(x), CH)] or [[]]
    nb, no, ns, np_ = chunks(body), chunks(ops), chunks(sim), chunks(prt)
    for i in range(max(len(nb), len(no), len(ns), len(np_))):
        g = lambda l: l[i] if i < len(l) else []
        shards["c14_%03d" % i] = H.shard(g(nb), g(no), g(ns), g(np_))
        index["c14_%03d" % i] = i * CH
    nl = [chunks(list(x)) for x in lexcases]
    for i in range(len(nl[0])):
        shards["c14lex_%03d" % i] = H.lex_shard(*[x[i] for x in nl])
    res = ctx.coq_eval(shards)
    diffs = []
    for name, (rc, out) in sorted(res.items()):
        ls = H.parse_lists(out) if rc == 0 else None
        want = 5 if name.startswith("c14lex") else 4
        if ls is None or len(ls) != want:
            diffs.append({"shard": name, "what": "shard did not evaluate", "output": out[-400:]})
            continue
        if name.startswith("c14lex"):
            i = int(name[-3:])
            for tag, l, src in zip(["lex_num", "lex_string", "lex_word", "name_ok", "header_split"], ls, [x[i] for x in nl]):
                for j in l:
                    diffs.append({"what": "character-level model %s differs from Python's re" % tag, "input": repr(src[j])})
            continue
        base = index[name]
        for tag, l in zip("bosp", ls):
            for j in l:
                if tag == "p":
                    k, lx = prt[base + j]
                    diffs.append({"what": "expr of a parsed operation is not what the model prints", "operation": list(k),
                                  "expr_tokens": [list(H.key(t)) for t in lx]})
                else:
                    text, exp, err = info[tag][base + j]
                    diffs.append({"what": "model parse differs from Lark (%s)" % {"b": "parse_dsl_to_command", "o": "parse_dsl_to_operations",
                                                                                 "s": "parse_simaple_runtime"}[tag],
                                  "text": text, "implementation": exp if exp is None else json.loads(json.dumps(exp, default=list)), "error": err})
    for t in selfcheck[:3]:
        diffs.append({"what": "harness self-check: lex(render(tokens)) != tokens", "text": t})
    ncases = len(body) + len(ops) + len(sim) + len(prt) + sum(len(x) for x in lexcases)
    ctx.cov["correspondence"] = {
        "cases": ncases, "body": len(body), "operations_only": len(ops), "runtime_with_header": len(sim), "printed_exprs": len(prt),
        "character_level": {k: len(v) for k, v in zip(["lex_num", "lex_string", "lex_word", "name_ok", "header_split"], lexcases)},
        "differences": len(diffs), "input_histogram": hist, "lexer_selfcheck_failures": len(selfcheck)}
    distinct = {H.render(t) for t, _ in body} | {H.render(t) for t, _ in sim}
    nontrivial = {H.render(t) for t, k in body if k and len(t) > 3} | {H.render(t) for t, e in sim if e and len(t) > 3}
    samples = []
    for text, ks, err in info["b"]:
        if ks and len(ks) >= 2 and ("#" in text or "x" in text) and len(samples) < 2:
            samples.append({"text": text, "parsed": json.loads(json.dumps(ks[:6], default=list)), "commands": len(ks)})
    for text, ks, err in info["b"]:
        if ks is None and len(samples) < 3:
            samples.append({"text": text, "rejected": err})
    return diffs, ncases, len(distinct), len(nontrivial), samples


# ------------------------------------------------------------------ 5. the property as stated, on the implementation
def op_eq(a, b):
    """same operation, comparing the time bit for bit (nan-safe)"""
    return H.cmd_key(a) == H.cmd_key(b) and getattr(a, "expr", None) == getattr(b, "expr", None)


def canon_items(rng, n):
    """a valid plan as a list of items: (tokens, is_plain)"""
    items = []
    while len(items) < n:
        it, console = H.gen_item(rng, clean=True)
        if any(t[0] == "BAD" for t in it):
            continue
        items.append((it, not console and it[0][0] == "W"))
    return items


def random_filler(rng, where):
    r = rng.random()
    if where == "between":
        g = H.g_sep(rng) if r < 0.7 else [H.NL] + H.g_any(rng, 5)
        if not any(t[0] == "NL" for t in g):
            g = g + [H.NL]
    elif where == "leading":
        g = H.g_edge(rng, False) if r < 0.6 else H.g_any(rng, 5)
    else:
        g = H.g_edge(rng, True) if r < 0.6 else H.g_any(rng, 5) + ([H.t_com(rng)] if rng.random() < 0.4 else [])
    out = []
    for t in g:                      # a comment always runs to the end of its line
        if out and out[-1][0] == "COM" and t[0] != "NL":
            out.append(H.NL)
        if t[0] == "TAB" and t[1] == "\r":
            t = ("TAB", "\t")
        out.append(t)
    if where != "trailing" and out and out[-1][0] == "COM":
        out.append(H.NL)
    return out


def impl_search(ctx: Ctx, budget_s, scale, open_ids):
    p = H.impl()
    rng = random.Random(ctx.seed + 1400)
    t0 = time.time()
    found, known = [], {}
    stats = {"print_parse": 0, "multiplier": 0, "layout": 0, "layout_by_family": {"proved-harmless": 0, "other": 0},
             "header_render": 0, "strategy_texts": 0, "execution": 0, "float_repr": 0}

    def note_known(fid, detail):
        known.setdefault(fid, []).append(detail)

    def report(what, **kw):
        found.append(dict(what=what, **kw))

    # ---- (a) print-then-parse for every operation the parser produces
    seen = set()
    texts = []
    for _ in range(500 * scale):
        w = H.t_w(rng, 0.7)[1]
        s, n = H.t_s(rng), H.t_n(rng)
        k = rng.random()
        texts.append('%s %s' % (w, s[1]) if k < 0.35 else ('%s %s' % (w, n[1]) if k < 0.7 else '%s %s %s' % (w, s[1], n[1])))
    for name in H.NAMES:
        texts.append('USE "%s"' % name)
    for nm in H.NUMS:
        texts += ["ELAPSE " + nm, 'CAST "a b" ' + nm]
    for text in texts:
        if text in seen or time.time() - t0 > budget_s * 0.4:
            continue
        seen.add(text)
        try:
            ops = p.parse_dsl_to_operations(text)
        except Exception:
            continue
        for op in ops:
            stats["print_parse"] += 1
            for fn in ("parse_dsl_to_command", "parse_dsl_to_operations", "parse_simaple_runtime"):
                try:
                    back = getattr(p, fn)(op.expr)
                    back = back[1] if fn == "parse_simaple_runtime" else back
                    bad = None if (len(back) == 1 and op_eq(back[0], op)) else "re-parses to %r" % [getattr(b, "expr", b) for b in back]
                except Exception as e:
                    bad = "does not re-parse: %s" % str(e).split("\n")[0][:100]
                if bad:
                    nonfinite = op.time is not None and (op.time != op.time or op.time in (float("inf"), float("-inf")))
                    if nonfinite and "C14-inf-time-unprintable" in open_ids:
                        note_known("C14-inf-time-unprintable", {"text": text, "expr": op.expr})
                    else:
                        report("printed operation does not re-parse to itself", text=text, expr=op.expr, entry=fn, observed=bad,
                               operation=op.model_dump())
                    break
            # (b) multiplier
            if op.time is None or op.time == op.time and abs(op.time) != float("inf"):
                for m in (rng.choice([0, 1, 2, 3, 7, 38]), rng.choice([-2, 5, 12])):
                    stats["multiplier"] += 1
                    try:
                        got = p.parse_dsl_to_command("x%d %s" % (m, op.expr))
                    except Exception as e:
                        report("xN <op> does not parse", text="x%d %s" % (m, op.expr), observed=str(e)[:120])
                        continue
                    if len(got) != max(m, 0) or not all(op_eq(g, op) for g in got):
                        report("xN <op> is not N copies of the operation", text="x%d %s" % (m, op.expr), expected_copies=max(m, 0), observed_copies=len(got))
    # float repr hypothesis of the number theorems
    for _ in range(2000 * scale):
        f = rng.choice([rng.uniform(-1e6, 1e6), rng.random() * 10.0 ** rng.randint(-320, 308), float(rng.randint(0, 2 ** 62)),
                        H.unbits(rng.getrandbits(64))])
        if f != f or abs(f) == float("inf"):
            continue
        stats["float_repr"] += 1
        if not H.repr_ok(f):
            report("f'{time}' of a finite float is not a SIGNED_NUMBER that float() maps back", value=repr(f))

    # ---- (c) comments / blank lines / spacing: exactly one non-canonical filler per text
    entries = [("body", p.parse_dsl_to_command), ("ops", p.parse_dsl_to_operations), ("sim", lambda t: p.parse_simaple_runtime(t)[1])]
    n_layout = 0
    while time.time() - t0 < budget_s * 0.8 and n_layout < 900 * scale:
        n_layout += 1
        items = canon_items(rng, rng.choice([1, 2, 2, 3, 4]))
        where = rng.choice(["between", "between", "between", "leading", "trailing"]) if len(items) > 1 else rng.choice(["leading", "trailing"])
        pos = rng.randrange(1, len(items)) if where == "between" else (0 if where == "leading" else len(items))
        filler = random_filler(rng, where)
        toks = []
        for i, (it, _pl) in enumerate(items):
            if i:
                toks += filler if (where == "between" and i == pos) else [H.NL]
            elif where == "leading":
                toks += filler
            toks += it
        if where == "trailing":
            toks += filler
        canon_text = "\n".join(H.render(it) for it, _ in items)
        text = H.render(toks)
        shape = H.filler_shape(filler)
        next_plain = items[pos][1] if pos < len(items) else True
        for ename, fn in entries:
            if ename == "ops" and any(it[0][0] == "D" for it, _ in items):
                continue
            stats["layout"] += 1
            try:
                ref = fn(canon_text)
            except Exception:
                continue             # the canonical text itself is not accepted: not a layout question
            adj = shape
            if ename == "sim":
                adj = shape.lstrip("snt") if where == "leading" else (shape.rstrip("snt") if where == "trailing" else shape)
            good = H.filler_good(where, adj, next_plain)
            stats["layout_by_family"]["proved-harmless" if good else "other"] += 1
            try:
                got = fn(text)
                bad = None if len(got) == len(ref) and all((op_eq(a, b) if hasattr(a, "command") else a == b) for a, b in zip(got, ref)) \
                    else "parses to different commands: %r" % [getattr(g, "expr", getattr(g, "text", None)) for g in got]
                changed = bad is not None
            except Exception as e:
                bad = "rejected: %s" % str(e).split("\n")[0][:100]
                changed = False
            if not bad:
                continue
            fid = None if (good or changed) else H.classify_layout(where, shape, ename)
            if fid and fid in open_ids:
                note_known(fid, {"text": text, "entry": ename, "where": where, "filler": shape})
            else:
                report("comments / blank lines / spacing change the parsed commands", text=text, canonical=canon_text, entry=ename,
                       where=where, filler=shape, filler_in_proved_family=good, observed=bad)

    # ---- (d) header + commands: render -> parse; the API's own renderer; strategy-layer texts
    import yaml
    from simaple.core import ActionStat, Stat
    for i in range(12 * scale):
        if time.time() - t0 > budget_s:
            break
        items = canon_items(rng, rng.randint(1, 6))
        try:
            cmds = p.parse_dsl_to_command("\n".join(H.render(it) for it, _ in items))
        except Exception:
            continue
        # operations with a non-finite time do not print (open finding C14-inf-time-unprintable, searched in (a))
        cmds = [c for c in cmds if not (getattr(c, "time", None) is not None and (c.time != c.time or abs(c.time) == float("inf")))]
        lines = [c.expr if hasattr(c, "expr") else '!debug "%s"' % c.text for c in cmds]
        if not lines:
            continue
        _h, meta = H.gen_header(rng)
        stats["header_render"] += 1
        plan = "---\n%s\n---\n%s" % (yaml.safe_dump(meta, indent=2, allow_unicode=True), "\n".join(lines))
        try:
            m2, c2 = p.parse_simaple_runtime(plan)
            if m2 != meta or len(c2) != len(cmds) or not all((op_eq(a, b) if hasattr(a, "command") else a == b) for a, b in zip(c2, cmds)):
                report("header + commands do not come back from the rendered plan", plan=plan, metadata=meta, observed_metadata=m2,
                       observed=[getattr(c, "expr", getattr(c, "text", None)) for c in c2])
            else:
                # the holder of a parse result may edit it (the API does: get_initial_plan_from_baseline writes into the metadata):
                # parsing the SAME text again must still give what the text says, not the edited object
                import copy as _copy
                want = _copy.deepcopy(meta)
                if isinstance(m2, dict):
                    m2["__edited_by_the_holder__"] = {"x": 1}
                    for k in list(m2):
                        if isinstance(m2[k], dict):
                            m2[k]["__edited__"] = True
                for c in c2:
                    if hasattr(c, "name") and hasattr(c, "command"):
                        try:
                            c.name = "edited"
                        except Exception:
                            pass
                m3, c3 = p.parse_simaple_runtime(plan)
                if m3 != want or len(c3) != len(cmds) or not all((op_eq(a, b) if hasattr(a, "command") else a == b) for a, b in zip(c3, cmds)):
                    report("parsing the same plan text again, after the holder of the first result edited it, does not give back the header "
                           "and commands of the text", plan=plan, metadata=want, observed_metadata=m3,
                           observed=[getattr(c, "expr", getattr(c, "text", None)) for c in c3])
        except Exception as e:
            report("rendered header + commands do not parse", plan=plan, observed=str(e)[:200])
    try:
        from simaple.api.base import provide_environment_augmented_plan, run_plan
        data = dict(level=270, action_stat=ActionStat().model_dump(), jobtype="bishop",
                    stat=Stat(INT=1000, STR=1000, LUK=1000, DEX=1000, magic_attack=100, attack_power=100).model_dump())
        meta = {"author": "verif # --- x", "provider": {"name": "MinimalEnvironmentProvider", "data": data}}
        body = 'CAST "디바인 퍼니시먼트"\nx3 RESOLVE "디바인 퍼니시먼트"  # c\n\nELAPSE 1e3\n!debug "viewer(\'clock\')"\nKEYDOWNSTOP "디바인 퍼니시먼트"'
        plan = "---\n" + yaml.safe_dump(meta, allow_unicode=True) + "\n---\n" + body
        aug = provide_environment_augmented_plan(plan)
        m1, c1 = p.parse_simaple_runtime(plan)
        m2, c2 = p.parse_simaple_runtime(aug)
        stats["header_render"] += 1
        if c1 != c2 or m2.get("author") != m1["author"] or m2.get("provider") != m1["provider"] or not m2.get("environment"):
            report("provide_environment_augmented_plan: re-parsed plan has other commands / metadata", plan=plan)
        # the renderer must keep the operations part as the grammar reads it: only "\n" ends a line for the grammar, while str.splitlines
        # also cuts at \r \x0b \x0c \x1c-\x1e \x85 \u2028 \u2029 - inside a comment or a quoted name those are ordinary characters
        exotic = ["\r", "\x0b", "\x0c", "\x1c", "\x1d", "\x1e", "\x85", "\u2028", "\u2029"]
        rng.shuffle(exotic)
        for ch in exotic[:(9 if scale > 1 else 4)]:
            for body2 in ('x2 ELAPSE 10.0   # opener%sELAPSE 30000.0\nELAPSE 100.0' % ch, 'CAST "a%sb"\nELAPSE 5.0' % ch,
                          'ELAPSE 1.0\n!debug "viewer(\'clock\')%s"\nELAPSE 2.0' % ch):
                plan2 = "---\n" + yaml.safe_dump(meta, allow_unicode=True) + "\n---\n" + body2
                try:
                    _ma, ca = p.parse_simaple_runtime(plan2)
                except Exception:
                    continue        # the grammar does not accept this text: nothing to round-trip
                stats["header_render"] += 1
                for rname, rfn in (("provide_environment_augmented_plan", provide_environment_augmented_plan),):
                    try:
                        _mb, cb = p.parse_simaple_runtime(rfn(plan2))
                        bad = None if cb == ca else "re-parsed plan has other commands: %r" % [getattr(c, "expr", getattr(c, "text", None)) for c in cb]
                    except Exception as e:
                        bad = "rendered plan does not parse: %s" % str(e).split("\n")[0][:120]
                    if bad:
                        report("%s: header + commands do not come back from the plan it renders" % rname, plan=plan2, observed=bad,
                               expected=[getattr(c, "expr", getattr(c, "text", None)) for c in ca])
        # executing the re-parsed, re-rendered plan gives the same result
        rer = "---\n" + yaml.safe_dump(json.loads(json.dumps(m2)), allow_unicode=True) + "\n---\n" + \
              "\n".join(c.expr if hasattr(c, "expr") else '!debug "%s"' % c.text for c in c2)
        r1, r2 = run_plan(aug), run_plan(rer)
        stats["execution"] += 1
        if [x.hash for x in r1] != [x.hash for x in r2]:
            report("executing the re-rendered plan gives another history", plan=aug[-300:])
    except Exception as e:
        report("API render/parse/run raised", observed=repr(e)[:300])

    # ---- (e) execution: original commands vs commands re-parsed from their printed text
    from lib import simenv
    nexec = 0
    jobs = list(simenv.JOBS)
    rng.shuffle(jobs)
    for job in jobs[:(8 if scale > 1 else 3)]:
        if time.time() - t0 > budget_s * 1.5:
            break
        lines = simenv.random_plan(rng, job, 0, 14)
        try:
            c1 = p.parse_dsl_to_command("\n".join(lines))
            text2 = "\n".join(c.expr if hasattr(c, "expr") else '!debug "%s"' % c.text.replace('"', '\\"') for c in c1)
            c2 = p.parse_dsl_to_command(text2)
            e1, e2 = simenv.make_engine(job, 0), simenv.make_engine(job, 0)
            for c in c1:
                e1.exec(c)
            for c in c2:
                e2.exec(c)
            h1 = [l.hash for l in e1.operation_logs()]
            h2 = [l.hash for l in e2.operation_logs()]
            nexec += 1
            if h1 != h2 or e1.get_current_viewer()("clock") != e2.get_current_viewer()("clock"):
                report("executing the re-parsed plan gives another result", job=job, plan=lines, reprinted=text2)
        except Exception as e:
            report("execution of a re-parsed plan raised", job=job, plan=lines, observed=repr(e)[:300])
    stats["execution"] += nexec
    # ---- (f) the strategy layer formats DSL text (floats from event payloads) and parses it
    try:
        from simaple.core import JobType
        from simaple.data.jobs.builtin import get_builtin_strategy
        for job in jobs[:(4 if scale > 1 else 2)]:
            eng = simenv.make_engine(job, 1)
            policy = get_builtin_strategy(JobType(job)).get_priority_based_policy()
            for _ in range(60 if scale > 1 else 30):
                ops = policy((eng.get_current_viewer(), eng.get_buffered_events()))
                for op in ops:
                    stats["strategy_texts"] += 1
                    back = p.parse_dsl_to_operations(op.expr)
                    if not (len(back) == 1 and op_eq(back[0], op)):
                        report("DSL text formatted by the strategy layer does not re-parse to the operation it was parsed to",
                               job=job, expr=op.expr, operation=op.model_dump())
                    eng.exec(op)
    except Exception as e:
        report("strategy-layer DSL text raised", observed=repr(e)[:300])
    stats["seconds"] = round(time.time() - t0, 1)
    stats["counterexamples"] = len(found)
    stats["known_finding_hits"] = {k: len(v) for k, v in known.items()}
    ctx.cov["impl_search"] = stats
    return found, known


# ------------------------------------------------------------------ 4. witnesses of the open findings
def replay_witness(entry):
    """True when the recorded input still violates the property on the implementation"""
    p = H.impl()
    w = entry["witness"]
    if entry["match"]["kind"] == "api_render":
        # a plan the parser accepts, re-rendered by the API (environment written into the header), must parse to the same commands
        from simaple.api.base import provide_environment_augmented_plan
        _m, ref = p.parse_simaple_runtime(w["text"])
        try:
            _m2, got = p.parse_simaple_runtime(provide_environment_augmented_plan(w["text"]))
        except Exception:
            return True
        return len(got) != len(ref) or not all((op_eq(a, b) if hasattr(a, "command") else a == b) for a, b in zip(got, ref))
    fn = getattr(p, w.get("entry", "parse_dsl_to_command"))
    if entry["match"]["kind"] == "print_parse":
        try:
            ops = fn(w["text"])
        except Exception:
            return False          # the parser no longer produces the operation at all
        try:
            back = fn(ops[0].expr)
            return not (len(back) == 1 and op_eq(back[0], ops[0]))
        except Exception:
            return True
    ref = fn(w["canonical"])
    try:
        got = fn(w["text"])
        got = got[1] if isinstance(got, tuple) else got
        ref = ref[1] if isinstance(ref, tuple) else ref
        return got != ref
    except Exception:
        return True


def run(ctx: Ctx) -> int:
    H.impl()
    scale = 20 if ctx.thorough else 1
    translate(ctx)
    ok, log, failed = ctx.build(TARGETS)
    if not ok:
        ctx.broken.append("Coq build failed at %s: %s" % (failed, err_of(log)))
        ctx.obligations += 1
    props_ok = False
    if ok or (ctx.coq / PROPS.replace(".v", ".vo")).exists():
        props_ok = ctx.check_props(PROPS)
    if props_ok and ctx.thorough:
        cmd = "coqchk -silent -o -Q theories V -Q gen G V.Props.C14"
        rc, out = vf.sh("timeout 900 " + cmd, cwd=ctx.coq, timeout=930)
        ctx.checker_cmds.append(cmd)
        clean = rc == 0 and "Axioms: <none>" in " ".join(out.split())
        ctx.cov["coqchk"] = {"cmd": cmd, "rc": rc, "axioms_none": clean}
        if not clean:
            ctx.broken.append("coqchk does not re-check the closure of Props/C14.vo cleanly: %s" % out[-400:])
    diffs, ncases, distinct, nontrivial, samples = [], 0, 0, 0, []
    try:
        diffs, ncases, distinct, nontrivial, samples = correspondence(ctx, scale)
    except Exception as e:
        ctx.broken.append("correspondence could not run: %r" % e)
    for d in diffs[:20]:
        ctx.broken.append("model and implementation disagree: %s" % json.dumps(d, ensure_ascii=False, default=str)[:300])

    opens = {e["id"]: e for e in vf.open_known("C14")}
    stale = []
    for fid, e in opens.items():
        try:
            still = replay_witness(e)
        except Exception as ex:
            still = True
            ctx.log("witness of %s raised %r" % (fid, ex))
        if still:
            ctx.known(e, "witness %r still fails" % e["witness"].get("text"))
        else:
            stale.append(fid)
            ctx.broken.append("known finding %s no longer reproduces on the implementation, but the model (which is proved to have "
                              "the defect: see the _refuted theorems) was tied to it" % fid)

    found, known = impl_search(ctx, (240 if ctx.thorough else 45) * (3 if ctx.broken else 1), scale, set(opens) - set(stale))
    ctx.cov.update({
        "evaluations": ncases + sum(v for k, v in ctx.cov["impl_search"].items() if isinstance(v, int) and k not in ("counterexamples",)),
        "distinct_nontrivial": nontrivial,
        "distinct_texts": distinct,
        "rule": "plans are generated from the grammar as token lists (1-6 items; full/time/skill operations with the five handled and "
                "odd command words, console lines, multipliers incl. 0, negative, non-integer; names with spaces, unicode, '#', escaped "
                "quotes, backslashes; numbers in every SIGNED_NUMBER form incl. exponents, negatives, 1e400, 5e-324) with every gap drawn "
                "from layout distributions (canonical, spaces/tabs, trailing comments, blank lines, comment lines, white-space-only "
                "lines, no newline, random); 1 in 5 gets a token-level mutation; runtime cases add a YAML header and outer white "
                "space. Each text is parsed by Lark and each token list by the model inside coqc; distinct_nontrivial = distinct "
                "texts with more than 3 tokens that the implementation accepts. The implementation-side search re-parses every "
                "printed operation, checks xN, inserts exactly one random filler into a canonical plan, renders header+commands, "
                "and executes re-parsed plans.",
        "samples": samples or [{"text": 'USE "a"', "parsed": [["skill", "USE", "a"]]}],
        "traces_validated_against_impl": ncases,
        "model_files": ["Model/Dsl.v", "Model/DslLex.v", "Model/DslEq.v", "Model/DslSpec.v", "gen/DslGrammar.v"],
        "refuted": {"C14_parse_print_refuted": "ELAPSE with time +inf (from `ELAPSE 1e400`) prints as `ELAPSE inf`",
                    "C14_ignorable_invariance_refuted": "two comment lines between two commands; a trailing newline",
                    "C14_trailing_line_rejected": "every plan followed by a line break"},
        "unmodelled": ["Lark's Earley parser and dynamic lexer themselves (compared on every generated plan)",
                       "`x 7` + line break + operation is ambiguous in the grammar (multiplier vs. operation with command word `x`); "
                       "Lark resolves it to the latter; such texts are not generated",
                       "value of a SIGNED_NUMBER (float()) and f'{time}' (repr): CPython, tested as float(repr(t)) == t on generated floats",
                       "yaml.safe_load / safe_dump of the header", "a header whose metadata contains a line starting with '---'"],
        "trusted_extra": ["tools/tr_grammar.py (Python ast), tools/lib/h_dsl.py (generator, renderer, regex lexer cross-checked on every case)",
                          "lark 1.x common.lark terminals WORD, ESCAPED_STRING, SIGNED_NUMBER, WS, NEWLINE as compiled regexes"],
    })
    for fid, hits in known.items():
        ctx.cov.setdefault("known_finding_examples", {})[fid] = hits[:3]
    if found:
        for f in found[:3]:
            ctx.violation("impl-counterexample", f["what"], input=f, observed=f.get("observed"))
    elif ctx.broken:
        ctx.violation("correspondence" if diffs else "proof-obligation", "; ".join(ctx.broken)[:1500],
                      input={"differences": diffs[:5]}, no_input=True)
    return ctx.finish("proof", ASSUME)


ASSUME = [
    "token level: a plan text is the token list it lexes to; Lark (Earley, dynamic lexer, greedy regex per terminal, ' ' and COMMENT "
    "ignored) accepts exactly what Model/Dsl.v's gap grammar accepts -- tested on every generated plan, not proved",
    "float(f'{t}') == t for every finite float t and f'{t}' has one of the two shapes of C14_number_*_lex (CPython repr) -- tested",
    "skill names / console texts are those the lexer can produce (C14_string_lex_closed); an Operation built by hand with an unescaped "
    "quote or a newline in its name is outside the property ('every operation the plan parser produces')",
    "the header is an opaque token at plan level; its YAML content is compared on the Python side; C14_header_split_lines assumes no "
    "metadata/body line starts with '---'",
    "translator tools/tr_grammar.py: grammar text, Lark options, TreeToOperation methods, parse_* entry points, handlers, "
    "strategy/default.py texts, api/base.py separator and render template are read with Python's ast; anything unrecognised is rejected",
]


def replay(ctx: Ctx, path) -> int:
    d = json.load(open(path))
    inp = d.get("input") or {}
    p = H.impl()
    ctx.build(TARGETS[1:])
    print("replay of", d.get("what"))
    for k in ("text", "canonical", "plan", "expr"):
        if isinstance(inp.get(k), str):
            for fn in ("parse_dsl_to_command", "parse_dsl_to_operations", "parse_simaple_runtime"):
                try:
                    r = getattr(p, fn)(inp[k])
                    r = r[1] if isinstance(r, tuple) else r
                    print(" %s(%s=%r) -> %r" % (fn, k, inp[k][:200], [getattr(c, "expr", getattr(c, "text", None)) for c in r]))
                except Exception as e:
                    print(" %s(%s=%r) raises %s" % (fn, k, inp[k][:200], str(e).split("\n")[0][:120]))
            toks = H.lex(inp[k])
            res = ctx.coq_eval({"replay": H.shard([(toks, None)], [], [], []).replace(
                "Eval vm_compute in (bad (map (fun c => ocmds_eqb (parse_body (fst c)) (snd c)) cb)).",
                "Eval vm_compute in (map (fun c => parse_body (fst c)) cb).")})
            print(" model parse_body on its tokens:", res["replay"][1][:600])
    return 0
