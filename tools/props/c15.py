"""C15 -- spec expressions mean ordinary arithmetic; interpretation is side-effect free."""
from __future__ import annotations

import collections
import copy
import json
import random
import re
import time
from fractions import Fraction

from lib import vf
from lib import h_spec as H
from lib.vf import Ctx

PROPS = "theories/Props/C15.v"
TARGETS = ["theories/Props/C15.vo", "theories/Proofs/ExprMono.vo", "theories/Model/Doc.vo", "theories/Lib/Corr.vo"]
SHARD = 400
DOC_SHARD = 120


def err_of(log: str) -> str:
    m = re.search(r"(File \"[^\"]+\", line \d+.*?\n(?:.*\n){0,6})", log)
    return (m.group(1) if m else log[-400:]).strip().replace("\n", " ")[:500]


def frac_json(v):
    if isinstance(v, Fraction):
        return str(v)
    return v


# ------------------------------------------------------------------------------------------- stage 1+2
def regenerate_and_build(ctx: Ctx):
    import tr_mathgrammar
    meta = None
    try:
        files, meta = tr_mathgrammar.gen(str(vf.REPO))
        for n, t in files.items():
            ctx.write_gen(n, t)
    except Exception as e:      # fail closed: no table of an earlier run may stand in for the rejected source
        ctx.broken.append("translator tr_mathgrammar rejected simaple/spec/_math.py: %s" % str(e)[:300])
        ctx.prepare_coq()
        for stale in (ctx.coq / "gen").glob("MathGrammar.*"):
            stale.unlink()
    ctx.cov["translators"] = {"tr_mathgrammar": meta or "rejected"}
    ok, log, failed = ctx.build(TARGETS)
    src = (ctx.coq / PROPS).read_text()
    n_thm = len(re.findall(r"^\s*Theorem\s", src, re.M))
    if not ok:
        ctx.broken.append("Coq build failed at %s: %s" % (failed, err_of(log)))
    props_ok = False
    if (ctx.coq / "theories/Props/C15.vo").exists():
        props_ok = ctx.check_props(PROPS)
    else:
        ctx.obligations += n_thm
    if props_ok and ctx.thorough:
        cmd = "coqchk -silent -o -Q theories V -Q gen G V.Props.C15"
        rc, out = vf.sh("timeout 900 " + cmd, cwd=ctx.coq, timeout=930)
        ctx.checker_cmds.append(cmd)
        clean = rc == 0 and "Axioms: <none>" in " ".join(out.split())
        ctx.cov["coqchk"] = {"cmd": cmd, "rc": rc, "axioms_none": clean}
        if not clean:
            ctx.broken.append("coqchk does not re-check the closure of Props/C15.vo cleanly: %s" % out[-400:])
    ctx.cov["model_files"] = ["Model/Expr.v", "Model/ExprParse.v", "Model/Doc.v", "gen/MathGrammar.v"]
    ctx.cov["refuted"] = {}
    return (ctx.coq / "theories/Model/Doc.vo").exists()


# ------------------------------------------------------------------------------------------- stage 3a: expressions
def ref_outcome(text, env):
    try:
        return ("val", H.ref_eval(text, env))
    except ZeroDivisionError:
        return ("err", "zerodiv")
    except KeyError:
        return ("err", "undefined")
    except OverflowError:
        return ("err", "overflow")


def shrink_expression(tree, env, text, ref, real):
    """smallest subtree on which implementation and reference still differ"""
    best = (len(H.tokens(tree)), text, ref, real)
    def subtrees(t):
        yield t
        for c in t[1:]:
            if isinstance(c, tuple):
                yield from subtrees(c)
    for sub in subtrees(tree):
        toks = H.tokens(sub)
        if len(toks) >= best[0]:
            continue
        tx = H.render(toks, None, "always")
        a, b = ref_outcome(tx, env), H.real_eval(tx, env)
        if a != b and not (a[0] == "val" and b[0] == "val" and a[1] == b[1]):
            best = (len(toks), tx, a, b)
    return best[1], best[2], best[3]


def expression_stage(ctx: Ctx, n_cases: int, n_negative: int, coq_ok: bool):
    rng = random.Random(ctx.seed + 15)
    stats = {}
    rows, infos = [], []
    findings = []
    hist = collections.Counter()
    distinct = set()
    samples = []
    ref_checked = 0
    t0 = time.time()
    for _ in range(n_cases):
        c = H.make_expr_case(rng, stats=stats)
        env = H.ENVS[c["env"]]
        for style, toks, text in H.expr_views(rng, c):
            real = H.real_eval(text, env)
            dual = c["dual"]
            exact = real[0] == "val" and dual[0] == "val" and H.to_fraction(real[1]) == dual[2]
            want = H.to_fraction(real[1]) if real[0] == "val" else None
            rows.append((c["env"], toks, want, exact))
            infos.append({"expression": text, "variables": env, "style": style, "implementation": real,
                          "tokens": [t[1] for t in toks]})
            hist["style:" + style] += 1
            hist["depth:%d" % H.depth_of(c["tree"])] += 1
            hist["result:" + ("exact" if exact else "rounding-noise" if real[0] == "val" else "error:" + str(real[1]))] += 1
            for t in toks:
                if t[0] in ("op", "f1", "f2", "sep"):
                    hist["token:" + (t[1] if t[0] != "sep" else "SEPERATED_NUMBER")] += 1
            if H.n_ops(c["tree"]) >= 1:
                distinct.add((c["env"], tuple(toks)))
            if len(samples) < 3 and H.n_ops(c["tree"]) >= 3:
                samples.append({"expression": text, "variables": env, "evaluate_expression": repr(real[1]),
                                "exact": exact, "style": style})
            # ---- implementation-side search: the independent reference on (a Python-compatible rendering of) the same tree
            if H.python_compatible(c["tree"]):
                t2 = H.pyify(H.decorate(rng, c["tree"], 0.1) if style.startswith("redundant") else c["tree"])
                text2 = H.render(H.tokens(t2), rng, "random" if "random" in style or style == "redundant" else "always")
                real2 = real if text2 == text else H.real_eval(text2, env)
                try:
                    ref = ("val", H.ref_eval(text2, env))
                except ZeroDivisionError:
                    ref = ("err", "zerodiv")
                except KeyError:
                    ref = ("err", "undefined")
                except OverflowError:
                    ref = ("err", "overflow")
                ref_checked += 1
                same = ref[0] == real2[0] and (ref[1] == real2[1])
                if not same:
                    if len(findings) < 5:
                        text2, ref, real2 = shrink_expression(t2, env, text2, ref, real2)
                    findings.append({"what": "evaluate_expression differs from Python's own arithmetic on the same text",
                                     "expression": text2, "variables": env, "expected": repr(ref[1]), "observed": repr(real2[1])})
    # ---- ungrammatical neighbours: the model's parser must reject what Lark rejects (and vice versa)
    neg_used = 0
    for _ in range(n_negative):
        c = H.make_expr_case(rng, max_depth=3, leaves="exact", stats=stats, want_exact=True, allow_err=False)
        toks = H.mutate_tokens(rng, H.tokens(c["tree"]))
        if not toks:
            continue
        text = H.render(toks, rng, "always")
        env = H.ENVS[c["env"]]
        real = H.real_eval(text, env)
        if real[0] == "val":
            plain = all(t[0] != "op" or t[1] in "+-*" for t in toks) and all(t[0] not in ("f1", "f2") for t in toks)
            if not plain:
                hist["negative:skipped-still-grammatical"] += 1
                continue
            rows.append((c["env"], toks, H.to_fraction(real[1]), True))
            hist["negative:still-grammatical"] += 1
        else:
            rows.append((c["env"], toks, None, False))
            hist["negative:" + str(real[1])] += 1
        infos.append({"expression": text, "variables": env, "style": "mutated-tokens", "implementation": real,
                      "tokens": [t[1] for t in toks]})
        neg_used += 1
    ctx.log("expressions: %d cases (+%d mutated) generated and evaluated in %.1fs; reference checked %d"
            % (n_cases, neg_used, time.time() - t0, ref_checked))
    diffs = []
    if coq_ok:
        shards = {"c15_expr_%03d" % (i // SHARD): H.expr_shard(rows[i:i + SHARD]) for i in range(0, len(rows), SHARD)}
        t1 = time.time()
        res = ctx.coq_eval(shards)
        ctx.log("expressions: %d Coq shards evaluated in %.1fs" % (len(shards), time.time() - t1))
        for name, (rc, out) in sorted(res.items()):
            base = int(name.rsplit("_", 1)[1]) * SHARD
            bad = H.parse_bad(out) if rc == 0 else None
            if bad is None:
                diffs.append({"shard": name, "model_vs_implementation": "shard did not evaluate: " + out[-300:]})
                continue
            for b in bad:
                diffs.append(dict(infos[base + b], model_vs_implementation="Coq evalp of the token list differs from evaluate_expression"))
    return {"rows": len(rows), "diffs": diffs, "findings": findings, "hist": hist, "distinct": len(distinct),
            "samples": samples, "stats": stats, "ref_checked": ref_checked}


# ------------------------------------------------------------------------------------------- stage 3b: documents
def document_stage(ctx: Ctx, n_docs: int, coq_ok: bool):
    rng = random.Random(ctx.seed + 1515)
    stats = {}
    placed = collections.Counter()
    shards, shard_infos = {}, {}
    rows, infos = [], []
    interner = H.Interner()
    findings = []
    hist = collections.Counter()
    samples = []
    distinct = set()

    def flush():
        nonlocal rows, infos, interner
        if rows:
            name = "c15_doc_%03d" % len(shards)
            shards[name] = H.doc_shard(rows)
            shard_infos[name] = infos
        rows, infos, interner = [], [], H.Interner()

    t0 = time.time()
    # ---- regression case first: the witness of the finding fixed by e5276b7
    reg = H.real_apply(copy.deepcopy(H.REGRESSION_DOC), {})
    if reg[0] != "val" or H.canon(reg[1]) != H.canon(H.REGRESSION_EXPECTED):
        findings.append({"what": "ArithmeticPatch.apply differs from 'every {{ expression }} replaced by its value' "
                                 "(regression of the defect fixed by e5276b7: a '{{ }}' key in front of a dict or list)",
                         "document": H.jsafe(H.REGRESSION_DOC), "variables": {},
                         "expected": repr(H.REGRESSION_EXPECTED), "observed": repr(reg[1])})
    rows.append((0, H.coq_doc(H.REGRESSION_DOC, interner, H.REGRESSION_EXPRS),
                 None if reg[0] == "err" else H.coq_doc(reg[1], interner, H.REGRESSION_EXPRS, as_output=True)))
    infos.append({"document": H.jsafe(H.REGRESSION_DOC), "variables": {}, "implementation": H.jsafe(list(reg)), "regression": "e5276b7"})
    for _ in range(n_docs):
        ei = rng.randrange(len(H.ENVS))
        env = H.ENVS[ei]
        g = H.DocGen(rng, ei, stats)
        doc = g.doc(rng.randint(1, 4), top=True)
        placed.update(g.placed)
        before = repr(doc)
        real = H.real_apply(doc, env)
        if repr(doc) != before:
            findings.append({"what": "ArithmeticPatch.apply mutated its input document", "document": before, "variables": env,
                             "expected": before, "observed": repr(doc)})
            doc = eval(before)  # noqa: S307 - our own repr of plain data
        hist["result:" + ("document" if real[0] == "val" else "error:" + str(real[1]))] += 1
        if H.has_expr_key_before_container(doc, g.exprs):
            hist["documents with a '{{ }}' key in front of a dict/list"] += 1
        distinct.add(before)
        rows.append((ei, H.coq_doc(doc, interner, g.exprs), None if real[0] == "err" else H.coq_doc(real[1], interner, g.exprs, as_output=True)))
        infos.append({"document": H.jsafe(doc), "variables": env, "implementation": H.jsafe(list(real))})
        if len(rows) >= DOC_SHARD:
            flush()
        if len(samples) < 2 and g.placed["key"] and g.placed["element"] and g.placed["zero"] and real[0] == "val":
            samples.append({"document": H.jsafe(doc), "variables": env, "apply": H.jsafe(real[1])})
        # ---- implementation-side search: the property's statement with the reference evaluator
        def reading(d):
            try:
                return ("val", H.canon(H.reading_py(d, env, g.exprs)))
            except H.RefError as e:
                return ("err", str(e))
        def outcome(d):
            r = H.real_apply(copy.deepcopy(d), env)
            return ("val", H.canon(r[1])) if r[0] == "val" else r
        got = ("val", H.canon(real[1])) if real[0] == "val" else real
        if got != reading(doc):
            small = H.shrink_doc(doc, lambda d: outcome(d) != reading(d)) if len(findings) < 5 else doc
            findings.append({"what": "ArithmeticPatch.apply differs from 'every {{ expression }} replaced by its value'",
                             "document": H.jsafe(small), "variables": env,
                             "expected": repr(reading(small)), "observed": repr(outcome(small))})
    flush()
    ctx.log("documents: %d generated and applied in %.1fs" % (n_docs, time.time() - t0))
    diffs = []
    if coq_ok:
        t1 = time.time()
        res = ctx.coq_eval(shards)
        ctx.log("documents: %d Coq shards evaluated in %.1fs" % (len(shards), time.time() - t1))
        for name, (rc, out) in sorted(res.items()):
            bad = H.parse_bad(out) if rc == 0 else None
            if bad is None:
                diffs.append({"shard": name, "model_vs_implementation": "shard did not evaluate: " + out[-300:]})
                continue
            for b in bad:
                diffs.append(dict(shard_infos[name][b], model_vs_implementation="Coq arith_apply differs from ArithmeticPatch.apply"))
    return {"docs": n_docs + 1, "diffs": diffs, "findings": findings, "placed": dict(placed),
            "hist": hist, "samples": samples, "distinct": len(distinct), "stats": stats}


# ------------------------------------------------------------------------------------------- stage 4: known findings
def replay_known(ctx: Ctx, entry):
    w = entry["witness"]
    real = H.real_apply(H.unjsafe(copy.deepcopy(w["document"])), w.get("variables", {}))
    if real[0] == "val" and any(H.EXPR_RE.search(x) for x in _strings(real[1])):
        ctx.known(entry, "witness %s still yields %s" % (json.dumps(w["document"]), json.dumps(H.jsafe(real[1]), default=str)))
        return True
    ctx.broken.append("known finding %s no longer reproduces on the implementation (the faithful model still has it): %r"
                      % (entry["id"], real))
    return False


# ------------------------------------------------------------------------------------------- run
def run(ctx: Ctx) -> int:
    thorough = ctx.thorough
    coq_ok = regenerate_and_build(ctx)
    known_entries = vf.open_known("C15")
    ex = expression_stage(ctx, 24000 if thorough else 1500, 2400 if thorough else 150, coq_ok)
    dc = document_stage(ctx, 6000 if thorough else 350, coq_ok)
    for d in ex["diffs"][:20] + dc["diffs"][:20]:
        ctx.broken.append("model and implementation disagree: %s" % json.dumps(d, ensure_ascii=False, default=str)[:400])
    for e in known_entries:
        replay_known(ctx, e)
    t0 = time.time()
    store_findings, store_stats = H.shipped_specs(ctx, thorough)
    alias = [f for f in store_findings if f["what"].startswith("Spec.interpret returned the stored dict itself")]
    store_findings = H.synthetic_store_probe() + [f for f in store_findings if f not in alias]
    if alias:
        ctx.broken.append("the model's Spec.interpret copies the stored data, the implementation returned the stored dict itself "
                          "for %d specs, e.g. %s" % (len(alias), alias[0]["spec"]))
    ctx.log("shipped specs: %s interpretations, %d deviations, %.1fs" % (store_stats.get("interpretations"), len(store_findings), time.time() - t0))
    findings = ex["findings"][:2] + dc["findings"][:2] + store_findings[:2] + ex["findings"][2:] + dc["findings"][2:] + store_findings[2:]
    extra = 0
    if ctx.broken and not findings:
        # something no longer checks but no failing input yet: spend a larger budget on the implementation, on the
        # side (documents / expressions) the broken item is about
        rng = random.Random(ctx.seed + 151515)
        t1 = time.time()
        docs_first = bool(dc["diffs"])
        budget = 300 if thorough else 60
        while time.time() - t1 < budget and not findings:
            extra += 1
            if docs_first and extra % 4:
                ei = rng.randrange(len(H.ENVS))
                env = H.ENVS[ei]
                g = H.DocGen(rng, ei, {})
                doc = g.doc(rng.randint(1, 4), top=True)
                real = H.real_apply(copy.deepcopy(doc), env)
                got = ("val", H.canon(real[1])) if real[0] == "val" else real
                try:
                    ideal = ("val", H.canon(H.reading_py(doc, env, g.exprs)))
                except H.RefError as e:
                    ideal = ("err", str(e))
                if got != ideal:
                    findings.append({"what": "ArithmeticPatch.apply differs from 'every {{ expression }} replaced by its value'",
                                     "document": H.jsafe(doc), "variables": env, "expected": repr(ideal), "observed": repr(got)})
                continue
            c = H.make_expr_case(rng)
            if not H.python_compatible(c["tree"]):
                continue
            env = H.ENVS[c["env"]]
            t2 = H.pyify(H.decorate(rng, c["tree"], 0.1))
            text = H.render(H.tokens(t2), rng, "random")
            real, ref = H.real_eval(text, env), ref_outcome(text, env)
            if ref != real and not (ref[0] == "val" and real[0] == "val" and ref[1] == real[1]):
                text, ref, real = shrink_expression(t2, env, text, ref, real)
                findings.append({"what": "evaluate_expression differs from Python's own arithmetic on the same text",
                                 "expression": text, "variables": env, "expected": repr(ref[1]), "observed": repr(real[1])})
    hist = ex["hist"] + dc["hist"]
    ctx.cov.update({
        "evaluations": ex["rows"] + dc["docs"] + store_stats.get("interpretations", 0),
        "distinct_nontrivial": ex["distinct"] + dc["distinct"],
        "rule": "expressions: random trees from the grammar (depth 1..5; + - * / // > <, unary minus, ceil floor apply_attack_speed "
                "min max; integer / dyadic / decimal / exponent / digit-separator literals; 8 variables in 3 bindings of ints and "
                "dyadic rationals, 2% undefined), printed with minimal or redundant parentheses and random/no/always spaces; the "
                "REAL evaluate_expression result (exact rational of the float) is compared inside coqc with evalp of the same token "
                "list: exactly when binary64 = exact arithmetic on that tree, else with the rounding-noise rule (1e-9 relative); "
                "cases where binary64 and exact arithmetic may legitimately branch differently (floor/ceil/'//'/comparison next to "
                "a threshold, cancellation) are regenerated and counted; mutated token lists check that model and Lark reject the "
                "same inputs. documents: random nested dict/list documents (depth <= 4) with '{{ }}' strings as keys, values and "
                "list elements (25% evaluating to 0, equal evaluated keys, 'exclude' lists, failing expressions) through the REAL "
                "ArithmeticPatch.apply vs Coq arith_apply, compared entry by entry in dict order. distinct = distinct (binding, "
                "token list) with >= 1 operator + distinct documents; evaluations = expression cases + documents + spec interpretations",
        "samples": ex["samples"] + dc["samples"],
        "correspondence": {"expression_cases": ex["rows"], "documents": dc["docs"],
                           "differences": len(ex["diffs"]) + len(dc["diffs"]),
                           "ill_conditioned_regenerated": ex["stats"].get("ill_conditioned_regenerated", 0) + dc["stats"].get("ill_conditioned_regenerated", 0),
                           "ill_kinds": ex["stats"].get("ill_kinds", {}),
                           "expressions_placed_in_documents": dc["placed"],
                           "input_histogram": dict(sorted(hist.items()))},
        "impl_search": {"reference_evaluator_cases": ex["ref_checked"] + extra, "documents_vs_property_reading": dc["docs"],
                        "shipped_specs": store_stats, "counterexamples": len(findings)},
        "traces_validated_against_impl": ex["rows"] + dc["docs"],
        "trusted_extra": [
            "tools/tr_mathgrammar.py (Lark grammar text + CalcTransformer bodies -> tables; fail closed) and the reading of a production "
            "table by Model/ExprParse.v `der`",
            "tools/lib/h_spec.py: token list <-> text rendering (Lark's lexer is not modelled), interning of strings, the conditioning "
            "rule, canonical comparison of numbers by value (1 == 1.0 == True)",
            "Lark (Earley parser, dynamic lexer), PyYAML, pydantic, CPython binary64 arithmetic: exercised by the correspondence, not verified",
        ],
        "unmodelled": ["Lark's lexing of characters into tokens (whitespace, NUMBER/SEPERATED_NUMBER/VARIABLE overlap)",
                       "YAML null values", "StringPatch / KeywordExtendPatch / SkillLevelPatch / job patches (only run, through the "
                       "shipped chains, for the store-immutability clause)",
                       "that Python objects of the stored Spec are not mutated is carried by the harness (dump before/after), "
                       "the functional model cannot mutate"],
    })
    if findings:
        for f in findings[:3]:
            inp = {k: v for k, v in f.items() if k not in ("what", "expected", "observed")}
            ctx.violation("impl-counterexample", f["what"], input=inp, expected=f.get("expected"), observed=f.get("observed"))
    elif ctx.broken:
        kind = "correspondence" if (ex["diffs"] or dc["diffs"]) else "proof-obligation"
        ctx.violation(kind, "; ".join(ctx.broken)[:1500], input={"differences": (ex["diffs"] + dc["diffs"])[:3]}, no_input=True)
    return ctx.finish("proof", ASSUME)


ASSUME = [
    "numbers are exact rationals: binary64 rounding of CPython is outside the theorems (the harness compares exactly where binary64 "
    "is exact and with the 1e-9 rounding-noise rule elsewhere)",
    "an expression is a token list: Lark's lexer and Earley parser are not modelled; that Lark returns the tree the model's parser "
    "returns (the grammar is unambiguous up to value) is tested on every generated case, the grammar itself is tied by translation",
    "C15_apply_spec is the full statement without side condition; its right-hand side builds each result dict with Python's dict "
    "semantics (equal interpreted keys merge, later value on the earlier place) and drops the entries listed under 'exclude'; "
    "C15_apply_spec_distinct_keys gives the plain map when interpreted keys are pairwise different",
    "side-effect freedom of Spec.interpret is about mutation of Python objects: the model is purely functional (copy = identity), so the "
    "clause is carried by the harness (all shipped specs x shipped patch chains interpreted twice, repository dumps before/after)",
]


def replay(ctx: Ctx, path) -> int:
    r = json.load(open(path))
    inp = r.get("input") or {}
    print(json.dumps({k: r.get(k) for k in ("property", "kind", "what", "expected", "observed")}, indent=1, ensure_ascii=False))
    if "expression" in inp:
        env = inp.get("variables", {})
        real = H.real_eval(inp["expression"], env)
        try:
            ref = ("val", H.ref_eval(inp["expression"], env))
        except Exception as e:      # noqa: BLE001
            ref = ("err", H.classify_exc(e))
        print("evaluate_expression:", real, " reference:", ref)
        return 1 if real != ref else 0
    if "document" in inp:
        doc = inp["document"]
        doc = eval(doc) if isinstance(doc, str) else H.unjsafe(copy.deepcopy(doc))   # noqa: S307 - repr of plain data written by run()
        real = H.real_apply(doc, inp.get("variables", {}))
        print("ArithmeticPatch.apply:", real)
        still = real[0] == "val" and any(isinstance(x, str) and H.EXPR_RE.search(x) for x in _strings(real[1]))
        print("an uninterpreted '{{ }}' string remains:", still)
        return 1 if still else 0
    if "spec" in inp:
        found = H.synthetic_store_probe()
        if inp.get("spec") != "synthetic":
            f2, _stats = H.shipped_specs(ctx, False)
            found += [f for f in f2 if f.get("spec") == inp.get("spec")]
        for f in found[:5]:
            print(json.dumps(f, ensure_ascii=False, default=str)[:600])
        print("store-immutability deviations reproduced:", len(found))
        return 1 if found else 0
    print("replay names a theorem/correspondence, not an input; re-run ./check C15")
    return 0


def _strings(d):
    if isinstance(d, dict):
        for k, v in d.items():
            yield from _strings(k)
            yield from _strings(v)
    elif isinstance(d, list):
        for x in d:
            yield from _strings(x)
    elif isinstance(d, str):
        yield d
