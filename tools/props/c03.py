"""C03 -- rolling back and continuing equals never having run the discarded part."""
from __future__ import annotations

import itertools
import json

from lib import enginecheck as ec
from lib import h_engine, simenv
from lib.vf import REPO, Ctx


def survivors(steps):
    acc = []
    for st in steps:
        if st[0] == "exec":
            acc.append(st[1])
        else:
            acc = acc[:st[1]]
    return acc


def views_of(engine):
    v = engine.get_current_viewer()
    out = {}
    for name in ("validity", "running", "buff", "clock"):
        try:
            out[name] = h_engine.norm(v(name) if name in ("buff", "clock") else [x for x in v(name)])
        except Exception as e:       # noqa
            out[name] = "raises %r" % e
    return out


def one_case(job, variant, step_lines, probe_line):
    """step_lines: list of ("exec", text) | ("rollback", i). Returns (shard, finding, info)."""
    steps = []
    for st in step_lines:
        if st[0] == "exec":
            steps.append(("exec", simenv.parse_commands([st[1]])[0]))
        else:
            steps.append((st[0], st[1]))       # "rollback" | "reload_same" (a prefix of its own logs reloaded into the same engine)
    txt, final, rec = h_engine.scenario_steps(job, variant, steps)
    finding = None
    # implementation: engine after the interleaving vs fresh engine with the survivors
    e1 = simenv.make_engine(job, variant)
    for st in steps:
        if st[0] == "exec":
            e1.exec(st[1])
        elif st[0] == "reload_same":
            e1.reload(list(e1.operation_logs())[:st[1] + 1])
        else:
            e1.rollback(st[1])
    e2 = simenv.make_engine(job, variant)
    for c in survivors(steps):
        e2.exec(c)
    base = {"job": job, "variant": variant, "steps": step_lines}
    a, b = ec.norm_logs(list(e1.operation_logs())), ec.norm_logs(list(e2.operation_logs()))
    if a != b:
        d = ec.first_log_diff(a, b)
        finding = dict(base, what="logs differ from the survivors-only run", first_differing_log=d[0], fields=d[1])
    elif views_of(e1) != views_of(e2):
        finding = dict(base, what="views differ from the survivors-only run")
    else:
        probe = simenv.parse_commands([probe_line])[0]
        r1, r2 = e1.exec(probe), e2.exec(probe)
        if h_engine.norm(json.loads(r1.model_dump_json())) != h_engine.norm(json.loads(r2.model_dump_json())) or r1.hash != r2.hash:
            finding = dict(base, what="a further command gives a different result", probe=probe_line)
    probs = h_engine.hash_chain_problems(list(e1.operation_logs()), live=getattr(e1, "_history", None))
    if probs and finding is None:
        finding = dict(base, what="hash chain: " + "; ".join(probs[:3]))
    return txt, finding, {"plays": rec.plays, "conflicts": rec.conflicts}


def gen_random(ctx, job, variant, n):
    rng = ctx.rng
    steps, length = [], 0
    while len(steps) < n:
        if length > 0 and rng.random() < 0.25:
            i = rng.randint(0, length)
            steps.append(("rollback" if rng.random() < 0.75 else "reload_same", i))
            length = min(length, i)
        else:
            steps.append(("exec", simenv.random_command_text(rng, job, variant)))
            length += 1
            if steps[-1][1].startswith("CAST") and rng.random() < 0.4:
                steps.append(("exec", "RESOLVE " + steps[-1][1][5:]))
                length += 1
                if rng.random() < 0.5:      # roll back to right after the CAST and resolve again
                    steps.append(("rollback", length - 1))
                    length -= 1
                    steps.append(("exec", "RESOLVE " + steps[-3][1][5:]))
                    length += 1
    return steps


def gen_exhaustive(job, variant, depth, alphabet):
    """All exec/rollback words of the given depth over a small alphabet (rollback targets 0..2)."""
    letters = [("exec", a) for a in alphabet] + [("rollback", i) for i in (0, 1, 2)]
    for word in itertools.product(letters, repeat=depth):
        length, ok = 0, True
        for st in word:
            if st[0] == "exec":
                length += 1
            else:
                if st[1] > length or length == 0:
                    ok = False
                    break
                length = min(length, st[1])
        if ok and any(s[0] == "rollback" for s in word):
            yield list(word)


def run(ctx: Ctx) -> int:
    if ec.translate_engine_sources(ctx):
        ec.build_and_check_props(ctx, ["theories/Props/C03.v", "theories/Props/C03_history.v", "theories/Props/C01_engine_src.v"])
    else:
        ec.build_and_check_props(ctx, ["theories/Props/C03.v"])
    budget = ec.Budget(900 if ctx.thorough else 110)
    shards, findings, infos, samples = {}, [], {}, []
    distinct = set()
    cases = []
    for pi, (job, variant) in enumerate(ec.job_schedule(ctx, 24 if ctx.thorough else 8)):
        cases.append((job, variant, gen_random(ctx, job, variant, ctx.rng.randint(6, 14))))
    # boundary words: pending action, entries that play nothing, roll back onto each of them, then the reading command
    for (job, variant) in ec.job_schedule(ctx, 16 if ctx.thorough else 6):
        for lines in simenv.boundary_plans(ctx.rng, job, variant, 1):
            k = next(i for i, l in enumerate(lines) if l.startswith(("USE", "CAST")))
            tail_at = next(i for i, l in enumerate(lines) if i > k and l.startswith(("RESOLVE", "KEYDOWNSTOP")))
            target = ctx.rng.randint(k + 1, tail_at)          # index of the log to keep (1-based: log 0 is init)
            steps = [("exec", l) for l in lines[:tail_at]] + [("exec", "ELAPSE 500"), ("rollback", target)] \
                + [("exec", l) for l in lines[target:]]
            cases.append((job, variant, steps))
    # exhaustive small-depth words on one job (console entry and a key-down skill in the alphabet)
    job = ctx.rng.choice(["bishop", "archmagetc", "mechanic", "windbreaker"])
    kd = simenv.keydown_names(job, 1)
    nm = kd[0] if kd else simenv.skill_names(job, 1)[0]
    alphabet = ['CAST "%s"' % nm, 'RESOLVE "%s"' % nm, "ELAPSE 500", '!debug "viewer(\'clock\')"']
    words = list(gen_exhaustive(job, 1, 4 if ctx.thorough else 3, alphabet))
    ctx.rng.shuffle(words)
    exh_total = len(words)
    words = words if ctx.thorough else words[:40]
    for w in words:
        cases.append((job, 1, w))
    done = 0
    for ci, (job, variant, steps) in enumerate(cases):
        if not budget.ok():
            break
        probe = ctx.rng.choice(['RESOLVE "%s"' % nm if job == cases[-1][0] else "ELAPSE 30", "ELAPSE 30",
                                simenv.random_command_text(ctx.rng, job, variant, console=False)])
        try:
            txt, finding, info = one_case(job, variant, steps, probe)
        except Exception as e:
            findings.append({"job": job, "variant": variant, "steps": steps, "what": "exception: %r" % e})
            continue
        name = "c03_%03d" % ci
        shards[name] = txt
        infos[name] = {"job": job, "variant": variant, "steps": steps, **info}
        if finding:
            findings.append(finding)
        done += 1
        distinct.add(json.dumps([job, variant, steps], ensure_ascii=False))
        if len(samples) < 2:
            samples.append({"job": job, "variant": variant, "steps": steps})
    res = ec.run_engine_shards(ctx, shards, h_engine.parse_scenario_result)
    diffs = []
    for name, r in sorted(res.items()):
        if r != ("ok",):
            diffs.append({"scenario": infos[name], "model_vs_implementation": r})
        if infos[name]["conflicts"]:
            diffs.append({"scenario": infos[name], "model_vs_implementation": "play is not a function of (store, action)"})
    ctx.cov.update({
        "evaluations": done, "distinct_nontrivial": len(distinct), "samples": samples,
        "traces_validated_against_impl": len(res),
        "rule": "random exec/rollback interleavings (rollback p=.25, targets incl. the initial log and console logs; CAST followed "
                "by RESOLVE, rolled back to the CAST and resolved again) on rotating jobs, plus exhaustive words of depth 3 (quick, "
                "40 sampled of %d) / 4 (thorough, all) over {CAST k, RESOLVE k, ELAPSE, !debug, rollback 0..2} for a key-down "
                "skill; distinct = distinct step lists" % exh_total,
        "correspondence": {"scenarios": len(res), "differences": len(diffs)},
        "impl_search": {"experiments": done, "counterexamples": len(findings),
                        "checks": "logs, validity/running/buff/clock views, one further command, hash links, hash recomputation, get_hash_index"},
    })
    for d in diffs:
        ctx.broken.append("engine model and implementation disagree: %s" % json.dumps(d, ensure_ascii=False)[:300])
    if findings:
        for f in findings[:3]:
            ctx.violation("impl-counterexample", f.get("what", "rollback differs"), input=f)
    elif ctx.broken:
        ctx.violation("correspondence" if diffs else "proof-obligation", "; ".join(ctx.broken)[:1500],
                      input={"differences": diffs[:3]}, no_input=True)
    return ctx.finish("proof", ASSUME)


ASSUME = [
    "restore (save s) = s; play is a function of (store, action) (checked on recorded plays)",
    "the hash function is abstract in the theorems (chain and functionality are proved; 'a hash locates its log' needs "
    "collision-freeness of sha1 and is tested on the implementation, not proved)",
    "hand-written model coq/theories/Model/Engine.v tied to the code by the trace-driven correspondence",
]


def replay(ctx, path):
    r = json.load(open(path))
    i = r["input"]
    print(json.dumps(i, ensure_ascii=False, indent=1)[:2000])
    if "steps" in i:
        _t, finding, _ = one_case(i["job"], i["variant"], [tuple(s) for s in i["steps"]], i.get("probe", "ELAPSE 30"))
        print("still failing" if finding else "no longer failing", finding)
        return 1 if finding else 0
    return 0
