"""C01 -- resuming from any recorded point reproduces the uninterrupted run."""
from __future__ import annotations

import json

from lib import enginecheck as ec
from lib import h_engine, simenv
from lib.vf import Ctx


def one_case(ctx, job, variant, lines, k, via_json):
    """Returns (shard text, impl finding or None, info)."""
    cmds = simenv.parse_commands(lines)
    steps = [("exec", c) for c in cmds[:k]] + [("reload",)] + [("exec", c) for c in cmds[k:]]
    txt, resumed, rec = h_engine.scenario_steps(job, variant, steps, via_json=via_json)
    # the property itself, on the implementation: uninterrupted run vs resumed run
    e = simenv.make_engine(job, variant)
    for c in cmds:
        e.exec(c)
    full = list(e.operation_logs())
    a, b = ec.norm_logs(full), ec.norm_logs(resumed)
    finding = checkpoint_transport_fixpoint(full, job, variant, lines)
    if finding:
        pass
    elif a != b:
        d = ec.first_log_diff(a, b)
        finding = {"job": job, "variant": variant, "plan": lines, "cut": k, "via_json": via_json,
                   "first_differing_log": d[0], "differing_fields": d[1]}
    elif [l.hash for l in full] != [l.hash for l in resumed]:
        finding = {"job": job, "variant": variant, "plan": lines, "cut": k, "via_json": via_json,
                   "what": "hashes differ although the logs are equal"}
    if finding is None and not via_json:
        # the recorded logs are a VALUE: resuming from the same in-memory log objects a second time (after the first resumed run has
        # executed its commands) must again reproduce the uninterrupted run
        e0 = simenv.make_engine(job, variant)
        for c in cmds[:k]:
            e0.exec(c)
        held = list(e0.operation_logs())
        for attempt in (1, 2):
            r = simenv.make_engine(job, variant)
            r.reload(held)            # the very same list object both times: the engine must not append to the caller's list
            for c in cmds[k:]:
                r.exec(c)
            got = ec.norm_logs(list(r.operation_logs()))
            if len(held) != k + 1:
                finding = {"job": job, "variant": variant, "plan": lines, "cut": k, "via_json": False,
                           "what": "executing after reload(recorded) changed the caller's list of recorded logs",
                           "expected_length": k + 1, "observed_length": len(held)}
                break
            if got != a or [l.hash for l in r.operation_logs()] != [l.hash for l in full]:
                d = ec.first_log_diff(a, got)
                finding = {"job": job, "variant": variant, "plan": lines, "cut": k, "via_json": False,
                           "what": "resuming a %s time from the same in-memory logs differs from the uninterrupted run" % ("first", "second")[attempt - 1],
                           "first_differing_log": d[0] if d else None, "differing_fields": d[1] if d else "hashes"}
                break
    return txt, finding, {"plays": rec.plays, "conflicts": rec.conflicts}


def checkpoint_transport_fixpoint(logs, job, variant, lines):
    """The hypothesis restore(save s) = s of the C01 theorems, for the JSON transport of recorded logs: the store a checkpoint
    restores after model_dump_json / model_validate_json must hold, value for value, what the in-memory checkpoint holds (compared
    on the live objects, NOT on two serialisations, which would hide a lossy serialiser on both sides)."""
    from simaple.simulate.policy.base import OperationLog
    for i, l in enumerate(logs):
        back = OperationLog.model_validate_json(l.model_dump_json())
        for j, (p, q) in enumerate(zip(l.playlogs, back.playlogs)):
            x, y = h_engine.norm(p.checkpoint.restore().save()), h_engine.norm(q.checkpoint.restore().save())
            if x != y:
                keys = [k for k in x if x.get(k) != y.get(k)][:3]
                return {"job": job, "variant": variant, "plan": lines, "what": "a recorded checkpoint does not survive the JSON transport of its log: "
                        "the restored store differs from the recorded one", "log": i, "playlog": j,
                        "entities": {k: {"recorded": x.get(k), "after_json": y.get(k)} for k in keys}}
            if h_engine.norm(p.events) != h_engine.norm(q.events) or h_engine.norm(p.action) != h_engine.norm(q.action) or float(p.clock) != float(q.clock):
                return {"job": job, "variant": variant, "plan": lines, "what": "a recorded play log does not survive the JSON transport "
                        "(action, events or clock differ)", "log": i, "playlog": j}
    return None


def sweep_plan(job, variant, chunk):
    lines = []
    for s in chunk:
        lines += ['CAST "%s"' % s, "ELAPSE 1040"]
    lines += ["ELAPSE 2500"]
    for s in chunk:
        lines += ['USE "%s"' % s, 'RESOLVE "%s"' % s]
    lines += ["ELAPSE 700", "ELAPSE 20000"]
    return lines


def _js(v):
    if isinstance(v, float) and v.is_integer() and abs(v) < 2 ** 53:
        return int(v)
    if isinstance(v, dict):
        return {k: _js(x) for k, x in v.items()}
    if isinstance(v, list):
        return [_js(x) for x in v]
    return v


def sweep(ctx, budget):
    """restore(save s) = s for every entity class of every shipped skill: each skill is cast and left running,
    the engine is replaced by a freshly reloaded one after EVERY command (JSON and in-memory alternately) and the
    logs must equal the uninterrupted run's."""
    from simaple.simulate.policy.base import OperationLog
    findings, runs = [], 0
    for job in simenv.JOBS:
        for variant in ([0, 1, 2] if ctx.thorough else [1]):
            names = list(simenv.skill_names(job, variant))
            for i in range(0, len(names), 5):
                if not budget.ok():
                    return findings, runs
                lines = sweep_plan(job, variant, names[i:i + 5])
                cmds = simenv.parse_commands(lines)
                try:
                    e = simenv.make_engine(job, variant)
                    for c in cmds:
                        e.exec(c)
                    full = ec.norm_logs(list(e.operation_logs()))
                    r = simenv.make_engine(job, variant)
                    for k, c in enumerate(cmds):
                        r.exec(c)
                        logs = list(r.operation_logs())
                        if k % 2:
                            logs = h_engine.json_roundtrip_logs(logs)
                        r = simenv.make_engine(job, variant)
                        r.reload(logs)
                    res = ec.norm_logs(list(r.operation_logs()))
                    # the same, with the recorded logs re-spelled by a JSON writer that prints whole floats as integers (JavaScript: 720.0 ->
                    # 720).  Values survive, bytes do not; the hash of a recorded log is defined over its bytes, so the hash CHAIN is not
                    # compared here - the log each command produces is, byte for byte (dump without checkpoints) and value for value
                    # (checkpoints): an integer that leaks from a restored event into a new action shows up as `720` against `720.0`
                    e_logs = list(e.operation_logs())
                    r2 = simenv.make_engine(job, variant)
                    for k, c in enumerate(cmds):
                        r2.exec(c)
                        logs2 = list(r2.operation_logs())
                        a, b = logs2[-1], e_logs[k + 1]
                        if a._fast_dumped_string() != b._fast_dumped_string() or \
                                [pl.checkpoint.model_dump() for pl in a.playlogs] != [pl.checkpoint.model_dump() for pl in b.playlogs]:
                            findings.append({"job": job, "variant": variant, "plan": lines, "cut": "reload after every command, recorded logs "
                                             "re-spelled by a JSON writer that prints whole floats as integers", "first_differing_log": k + 1,
                                             "command_at_difference": lines[k], "resumed": a._fast_dumped_string()[:600],
                                             "uninterrupted": b._fast_dumped_string()[:600]})
                            break
                        logs2 = [OperationLog.model_validate(json.loads(json.dumps(_js(json.loads(l.model_dump_json()))))) for l in logs2]
                        r2 = simenv.make_engine(job, variant)
                        r2.reload(logs2)
                except Exception as ex:
                    findings.append({"job": job, "variant": variant, "plan": lines, "what": "exception %r" % ex})
                    continue
                runs += 1
                if full != res:
                    d = ec.first_log_diff(full, res)
                    findings.append({"job": job, "variant": variant, "plan": lines, "cut": "reload after every command",
                                     "first_differing_log": d[0], "differing_fields": d[1],
                                     "command_at_difference": lines[d[0] - 1] if 0 < d[0] <= len(lines) else None})
    return findings, runs


def run(ctx: Ctx) -> int:
    src_ok = ec.translate_engine_sources(ctx)
    ec.build_and_check_props(ctx, ["theories/Props/C01.v", "theories/Props/C01_store.v"] +
                             (["theories/Props/C01_engine_src.v", "theories/Props/C01_store_src.v"] if src_ok else []))
    n_plans = 24 if ctx.thorough else 8
    budget = ec.Budget(900 if ctx.thorough else 120)
    shards, findings, infos, samples = {}, [], {}, []
    distinct = set()
    cases = 0
    schedule = ec.job_schedule(ctx, n_plans)
    plans = []
    for (job, variant) in schedule[:(24 if ctx.thorough else 6)]:        # boundary plans first: they are short
        for lines in simenv.boundary_plans(ctx.rng, job, variant, 4 if ctx.thorough else 2):
            plans.append((job, variant, lines, True))
    for (job, variant) in schedule:
        n = ctx.rng.randint(6, 16)
        plans.append((job, variant, simenv.random_plan(ctx.rng, job, variant, n), False))
    for pi, (job, variant, lines, boundary) in enumerate(plans):
        if not budget.ok():
            break
        n = len(lines)
        if ctx.thorough or boundary:
            cuts = list(range(0, n + 1))
        else:
            # boundary-directed: cuts right before a RESOLVE / KEYDOWNSTOP (pending delay or key-down in flight),
            # right after a console entry (history ends in a log without play logs), plus random ones
            hot = [k for k in range(1, n) if lines[k].startswith(("RESOLVE", "KEYDOWNSTOP")) or lines[k - 1].startswith("!debug")]
            cuts = sorted(set(hot[:4] + ctx.rng.sample(range(0, n + 1), 3)))
        for k in cuts:
            via_json = bool((k + pi) % 2)
            try:
                txt, finding, info = one_case(ctx, job, variant, lines, k, via_json)
            except Exception as e:      # an exception of the implementation on a well-formed resume is a finding
                findings.append({"job": job, "variant": variant, "plan": lines, "cut": k, "via_json": via_json,
                                 "what": "exception while resuming: %r" % e})
                continue
            name = "c01_%02d_%02d" % (pi, k)
            shards[name] = txt
            infos[name] = {"job": job, "variant": variant, "plan": lines, "cut": k, "via_json": via_json, **info}
            if finding:
                findings.append(finding)
            cases += 1
            distinct.add((job, variant, tuple(lines), k, via_json))
            if len(samples) < 2:
                samples.append({"job": job, "variant": variant, "plan": lines, "cut": k, "via_json": via_json})
    sweep_findings, sweep_runs = sweep(ctx, ec.Budget(1500 if ctx.thorough else 150))
    findings += sweep_findings
    res = ec.run_engine_shards(ctx, shards, h_engine.parse_scenario_result)
    diffs = []
    for name, r in sorted(res.items()):
        if r != ("ok",):
            diffs.append({"scenario": infos[name], "model_vs_implementation": r})
        if infos[name]["conflicts"]:
            diffs.append({"scenario": infos[name], "model_vs_implementation": "play is not a function of (store, action)"})
    ctx.cov.update({
        "evaluations": cases, "distinct_nontrivial": len(distinct), "samples": samples,
        "traces_validated_against_impl": len(res),
        "rule": "random mostly-valid plans (CAST/USE/ELAPSE/RESOLVE/KEYDOWNSTOP/!debug, casts often followed by their RESOLVE/"
                "KEYDOWNSTOP) on rotating jobs x 3 environments; every cut (thorough) or 4 cuts per plan; plus short boundary plans "
                "(pending action, then console / zero elapse / other skill, then the RESOLVE or KEYDOWNSTOP that reads the pending "
                "events) cut at EVERY position; logs passed in memory and "
                "through JSON alternately; distinct = distinct (job, env, plan, cut, transport)",
        "correspondence": {"scenarios": len(res), "differences": len(diffs),
                           "plays_recorded": sum(i["plays"] for i in infos.values())},
        "impl_search": {"resume_experiments": cases, "counterexamples": len(findings),
                        "all_skill_sweep_plans_reloaded_after_every_command": sweep_runs},
    })
    for d in diffs:
        ctx.broken.append("engine model and implementation disagree: %s" % json.dumps(d, ensure_ascii=False)[:300])
    if findings:
        for f in findings[:3]:
            ctx.violation("impl-counterexample", "resumed run differs from the uninterrupted run", input=f)
    elif ctx.broken:
        ctx.violation("correspondence" if diffs else "proof-obligation", "; ".join(ctx.broken)[:1500],
                      input={"differences": diffs[:3]}, no_input=True)
    return ctx.finish("proof", ASSUME)


ASSUME = [
    "restore (save s) = s for every store (hypothesis of the theorem; exercised by every resumed run, in memory and through JSON)",
    "play is a function of (store, action) -- checked on every recorded play (conflicting recordings are reported)",
    "pydantic (de)serialisation, hashlib and the component code are below the model: they enter through the recorded play table",
    "hand-written model coq/theories/Model/Engine.v tied to simulate/engine.py, policy/base.py, policy/handlers.py by the "
    "trace-driven correspondence (Model/EngineInst.v executed in Coq on the recorded play table)",
]


def replay(ctx, path):
    r = json.load(open(path))
    i = r["input"]
    print(json.dumps(i, ensure_ascii=False, indent=1)[:2000])
    if "plan" in i and "cut" in i:
        _t, finding, _info = one_case(ctx, i["job"], i["variant"], i["plan"], i["cut"], i.get("via_json", False))
        print("still failing" if finding else "no longer failing", finding)
        return 1 if finding else 0
    return 0
