"""C10 -- status views never fail and never advertise a skill that would be rejected."""
from __future__ import annotations

from lib import entitycheck as ec
from lib.vf import Ctx

RULE = ("correspondence: the validity/running/buff/keydown views of the model are compared with the real view methods on the input "
        "state of every H-entity case; implementation-side search: every view of every installed component and the engine's "
        "aggregated views are evaluated in store states reached by random plans on all jobs; whenever validity says usable, use is "
        "called on that state and must not be rejected; distinct by (class, reducer, input state, payload)")


def known_match(entry, f):
    if entry.get("id") == "C10-validity-ignores-pending-callbacks":
        # identified by its call site: the viewer looks at the store BEFORE play() relays the pending `emitted` callbacks of the previous
        # action; a hit belongs to it iff callbacks were pending and relaying them first (ELAPSE 0) removes the discrepancy
        return f.get("component") == "engine" and f.get("mechanism") == "pending-callbacks"
    # the recorded finding: a key-down skill advertised as usable while its key-down is running
    return "usable but use is rejected" in f["what"] and f.get("keydown_running") is True


def witness_replay(entry):
    if entry.get("id") == "C10-validity-ignores-pending-callbacks":
        from lib import h_validuse
        return h_validuse.witness_replay(entry)
    from simaple.core.base import ActionStat
    from simaple.simulate.component.common.keydown_skill import KeydownSkillComponent, KeydownSkillState
    from simaple.simulate.component.entity import Cooldown, Keydown
    from simaple.simulate.global_property import Dynamics
    c = KeydownSkillComponent(id="x", name="x", maximum_keydown_time=1000.0, damage=1.0, hit=1.0, delay=120.0, cooldown_duration=0.0,
                              keydown_prepare_delay=0.0, keydown_end_delay=0.0, finish_damage=2.0, finish_hit=1.0)
    s = KeydownSkillState(cooldown=Cooldown(time_left=0), keydown=Keydown(interval=120.0), dynamics=Dynamics(stat=ActionStat()))
    s1, _ = c.use(None, s)
    v = c.validity(s1)
    _s2, ev = c.use(None, s1)
    rej = any(e["tag"] == "global.reject" for e in ev)
    return (v.valid and rej), "cooldown-free key-down skill: valid=%s while running, second use rejected=%s" % (v.valid, rej)


def dispatch_hook(ctx):
    """store-access part of the views: Props/C10_dispatch.v over Model/DispatchViews.v + the H-dispatch tie and search"""
    from lib import h_dispatch, h_validuse
    out = h_dispatch.hook(ctx, "C10")
    # the property's own observation point: engine.get_current_viewer() right before a USE, and the events of that USE
    found, stats = h_validuse.search(ctx, 150 if ctx.thorough else 25)
    ctx.cov["engine_level_valid_then_use"] = stats
    return out + found


def run(ctx: Ctx) -> int:
    from lib import h_dispatch
    pre = h_dispatch.preflight(ctx)      # a bound address nobody owns: every view of that component raises in the INITIAL state (and no plan can be drawn)
    if pre:
        for f in sorted(pre, key=lambda f: "address" not in f)[:3]:     # the unowned bound address first, then the views that raise
            ctx.violation("impl-counterexample", f["what"], input=f)
        return ctx.finish("proof", ec.ASSUME_COMMON)
    return ec.run_prop(ctx, "theories/Props/C10.v", ec.ASSUME_COMMON + [
        "'views never raise': the STORE ACCESS of a view (WrappedView / StoreAdapter.get_state, aggregation views, clock) is proved total and "
        "read-only on every reachable store (Props/C10_dispatch.v over Model/DispatchViews.v, presence invariant; proviso binds_closed is a "
        "generated obligation on the extracted components, gen/DispatchData.v); totality of the view METHODS themselves is Python code: "
        "tested on every reachable state visited, not proved",
        "key-down skills: modelled with the repaired validity (fix de960db), valid->accepted proved for all states"],
        known_match, witness_replay, RULE, hook=dispatch_hook)


def replay(ctx, path):
    print(open(path).read()[:3000])
    return 0
