"""C13 -- reports add up: totals, shares, DPM and the best dealing window.

1. regenerate gen/WindowSrc.v from simaple/simulate/report/feature.py (tools/tr_window.py, fail closed);
2. build + check Props/C13.v (the tie lemma Proofs/WindowTie.v fails when the source's scan changed);
3. correspondence: real code vs Model/Window.v, gen/WindowSrc.v, Model/Report.v on generated integer data,
   and on real engine runs (per-log damages from Python, sums up to rounding noise);
4. (no open known finding for C13);
5. implementation-side search: exhaustive small sequences against an independent naive search, the
   property's equations on every generated run and on real engine runs;
6. verdict."""
from __future__ import annotations

import json
import random
import time

from lib import h_report as H
from lib.vf import Ctx, open_known

TARGETS = ["theories/Props/C13.vo", "theories/Lib/Corr.vo", "theories/Lib/PyLoop.vo",
           "theories/Model/Window.vo", "theories/Model/Report.vo"]
SHARD = 250


def err_of(log):
    i = log.find('File "')
    j = log.find("Error")
    if i < 0 or i > j:
        i = max(0, j - 300)
    return " ".join(log[i:j + 500].split()) if j >= 0 else log[-500:]


def translate(ctx: Ctx):
    import tr_window
    try:
        files, meta = tr_window.gen(str(H.REPO))
    except Exception as e:   # fail closed: no generated model, and a stale one from setup must not be used
        ctx.prepare_coq()
        for p in (ctx.coq / "gen").glob("WindowSrc.*"):
            p.unlink()
        for p in (ctx.coq / "gen").glob(".WindowSrc.*"):
            p.unlink()
        ctx.broken.append("translator tools/tr_window.py rejects %s/%s: %s" % (H.REPO, tr_window.SRC, str(e)[:300]))
        ctx.cov["translators"] = {"tr_window": {"files": [tr_window.SRC], "rejected": str(e)[:300]}}
        return False
    for n, t in files.items():
        ctx.write_gen(n, t)
    ctx.cov["translators"] = {"tr_window": {"files": [tr_window.SRC], "rejected": None, "functions": meta["functions"]}}
    return True


def run(ctx: Ctx) -> int:
    ctx.log("implementation under test:", H.impl_origin())
    have_src = translate(ctx)
    ok, log, failed = ctx.build(TARGETS)
    props_ok = False
    if not ok:
        ctx.broken.append("Coq build failed at %s: %s" % (failed, err_of(log)))
        ctx.obligations += 1
    else:
        props_ok = ctx.check_props("theories/Props/C13.v")
    if props_ok and ctx.thorough:
        from lib.vf import sh
        cmd = "coqchk -silent -o -Q theories V -Q gen G V.Props.C13"
        rc, out = sh("timeout 900 " + cmd, cwd=ctx.coq, timeout=930)
        ctx.checker_cmds.append(cmd)
        clean = rc == 0 and "Axioms: <none>" in " ".join(out.split())
        ctx.cov["coqchk"] = {"cmd": cmd, "rc": rc, "axioms_none": clean}
        if not clean:
            ctx.broken.append("coqchk does not re-check the closure of Props/C13.vo cleanly: %s" % out[-400:])
    src_vo = (ctx.coq / "gen" / "WindowSrc.vo").exists()
    models_ok = all((ctx.coq / t).exists() for t in TARGETS[1:])
    ctx.log("proofs %s; generated model %s" % ("ok" if props_ok else "BROKEN", "built" if src_vo else "missing"))

    rng = ctx.rng
    found = []          # concrete violations of the property on the implementation
    diffs = []          # model/implementation differences
    samples = []
    calc = H.stub_calculator()

    # ------------------------------------------------------------------ 3a. window correspondence
    n_win = 12000 if ctx.thorough else 600
    wcases = H.window_cases(rng, n_win)
    shards, index = {}, {}
    for k in range(0, len(wcases), SHARD):
        part = wcases[k:k + SHARD]
        name = "c13_win_%03d" % (k // SHARD)
        shards[name] = H.window_shard(part, use_src=src_vo)
        index[name] = ([c for c in part if c["kind"] == "direct"], [c for c in part if c["kind"] == "feature"])
    # ------------------------------------------------------------------ 3b. report correspondence (generated runs)
    n_rep = 6000 if ctx.thorough else 400
    intern_tab = {}

    def intern(s):
        return intern_tab.setdefault(s, len(intern_tab) + 1)
    rcases = []
    for _ in range(n_rep):
        plays, L = H.gen_report_case(rng)
        obs = H.run_report_impl(plays, L, calc)
        rcases.append((plays, L, obs))
        v = H.report_violation(plays, L, obs, H.stub_gd)
        if v:
            found.append(dict(v, run=describe_plays(plays), L=L, source="generated run"))
    rindex = {}
    for k in range(0, len(rcases), SHARD):
        part = rcases[k:k + SHARD]
        name = "c13_rep_%03d" % (k // SHARD)
        shards[name] = H.report_shard([H.built_case_coq(intern, p, o, L) for p, L, o in part], [])
        rindex[name] = part
    # ------------------------------------------------------------------ 3c/5c. real engine runs
    from lib import simenv
    jobs = list(simenv.JOBS)
    random.Random(ctx.seed + 13).shuffle(jobs)
    plan_jobs = [(j, v) for v in (0, 2, 1) for j in jobs] if ctx.thorough else [(jobs[0], 2), (jobs[1], 2), (jobs[2], 0)]
    real_direct, real_info, real_stats = [], [], []
    t_real = time.time()
    for i, (job, variant) in enumerate(plan_jobs):
        if time.time() - t_real > (600 if ctx.thorough else 70):
            break
        rr = random.Random(ctx.seed + 1300 + i)
        try:
            lines, eng, entries, rcalc = H.real_run(rr, job, variant, 120 if ctx.thorough else 60)
        except Exception as e:
            ctx.log("real run %s/%d could not be executed: %r" % (job, variant, e))
            continue
        span = entries[-1].clock - entries[0].clock if entries else 0
        Ls = sorted({1, 500, 1000, 5000, 30000, max(1, int(span)), max(1, int(span) + 1), max(1, int(span // 2))})
        try:
            v, st = H.real_run_violation(eng, entries, rcalc, Ls)
        except Exception as e:   # the report code raising on a real run is itself a finding, not a crash of the check
            v, st = {"what": "report code raises on a real run: %r" % e, "expected": "no exception", "observed": repr(e)}, {}
        st.update(job=job, variant=variant, commands=len(lines))
        real_stats.append(st)
        if v:
            found.append(dict(H.dumpable(v), job=job, variant=variant, plan=lines, source="real engine run"))
        try:
            obs = H.real_run_obs(entries, rcalc)
        except Exception as e:
            found.append({"what": "report code raises on a real run: %r" % e, "job": job, "variant": variant, "plan": lines,
                          "source": "real engine run"})
            continue
        real_direct.append(H.direct_case_coq(intern, [e.clock for e in entries], obs))
        real_info.append({"job": job, "variant": variant, "plan": lines})
    # ------------------------------------------------------------------ 5d. editing sessions on one engine (rollback / reload between readings)
    session_stats = []
    t_sess = time.time()
    sess_jobs = [(j, v) for v in (2, 0) for j in jobs] if ctx.thorough else [(jobs[3], 2), (jobs[4], 0)]
    for i, (job, variant) in enumerate(sess_jobs):
        if time.time() - t_sess > (400 if ctx.thorough else 45) or found:
            break
        rr = random.Random(ctx.seed + 1350 + i)
        try:
            rcalc = None
            for label, lines, eng, entries in H.real_session(rr, job, variant, 30 if ctx.thorough else 22, rounds=4 if ctx.thorough else 3):
                if rcalc is None:
                    from simaple.container.simulation import get_damage_calculator
                    rcalc = get_damage_calculator(simenv.get_env(job, variant))
                try:
                    v, st = H.real_run_violation(eng, entries, rcalc, [1000, 5000])
                except Exception as e:
                    v, st = {"what": "report code raises on a real run: %r" % e, "expected": "no exception", "observed": repr(e)}, {}
                session_stats.append({"job": job, "variant": variant, "reading": label, "entries": st.get("entries"), "commands": len(lines)})
                if v:
                    found.append(dict(H.dumpable(v), job=job, variant=variant, plan=lines, session_step=label,
                                      source="editing session on one engine (report read, rollback/reload, other commands, report read again)"))
                    break
        except Exception as e:
            ctx.log("session %s/%d could not be executed: %r" % (job, variant, e))
    if real_direct:
        shards["c13_real"] = H.report_shard([], real_direct)

    # ------------------------------------------------------------------ evaluate shards
    res = ctx.coq_eval(shards) if models_ok else {}
    if not models_ok:
        ctx.broken.append("models did not build: correspondence could not run")
    for name, (rc, out) in sorted(res.items()):
        lists = H.parse_lists(out) if rc == 0 else None
        if lists is None or len(lists) != 2:
            diffs.append({"shard": name, "model_vs_implementation": "shard did not evaluate: " + out[-400:]})
            continue
        if name in index:
            for lst, group in zip(lists, index[name]):
                for i in lst:
                    c = group[i]
                    diffs.append({"kind": "window", "L": c["L"], "seq": c["seq"], "via": c["meta"]["via"],
                                  "implementation": list(c["result"]), "logs": c.get("logs")})
        elif name in rindex:
            for code in lists[0]:
                plays, L, obs = rindex[name][code // 10]
                diffs.append({"kind": "report", "aspect": H.ASPECT[code % 10], "run": describe_plays(plays), "L": L,
                              "implementation": {k: H.dumpable(obs[k]) for k in ("logs", "dmg", "total", "dpm", "shares", "win")}})
        else:
            for code in lists[1]:
                diffs.append({"kind": "real-run", "aspect": H.ASPECT[code % 10], "run": real_info[code // 10]})
    # focus: a window difference inside the theorem's domain is tried directly against the property
    for d in diffs:
        if d.get("kind") == "window" and d["L"] > 0:
            seq = [(float(c), float(x)) for c, x in d["seq"]]
            v = H.window_violation(seq, d["L"])
            if v:
                found.append(dict(v, source="correspondence difference"))

    # ------------------------------------------------------------------ 5. implementation-side search, exhaustive small sequences
    focus = bool(ctx.broken or diffs)
    bmax = 7 if ctx.thorough else 6
    t0 = time.time()
    tried, bf = H.brute_force_windows(bmax)
    for v in bf[:3]:
        found.append(dict(v, source="exhaustive small sequences"))
    extra = 0
    if (ctx.thorough or focus) and not bf:
        rr = random.Random(ctx.seed + 131)
        for _ in range(40000 if ctx.thorough else 15000):
            L, seq, _m = H.gen_window_case(rr)
            if L <= 0:
                continue
            extra += 1
            v = H.window_violation([(float(c), float(x)) for c, x in seq], L)
            if v:
                found.append(dict(v, source="random sequences"))
                break
    # L <= 0 (outside the theorem's domain): IndexError on every non-empty list, (0,0,0) on the empty one
    nonpos = {"cases": 0, "index_error": 0, "other": []}
    for n in range(0, 5):
        for L in (0, -1, -1000):
            seq = [(float(i), 1.0) for i in range(n)]
            r = H.impl_window(seq, L)
            nonpos["cases"] += 1
            if n == 0:
                if r != ("ok", 0, 0, 0):
                    nonpos["other"].append([n, L, list(r)])
            elif r[0] == "IndexError":
                nonpos["index_error"] += 1
            else:
                nonpos["other"].append([n, L, list(r)])
    if nonpos["other"]:
        ctx.broken.append("behaviour for L <= 0 differs from C13_window_nonpositive_length_raises: %s" % nonpos["other"][:3])

    # ------------------------------------------------------------------ evidence
    hist = {"length": {}, "L_kind": {}, "shape": {}, "via": {}, "result": {}}
    distinct = set()
    for c in wcases:
        m = c["meta"]
        b = "0" if m["n"] == 0 else "1" if m["n"] == 1 else "2-5" if m["n"] <= 5 else "6-12" if m["n"] <= 12 else "13+"
        hist["length"][b] = hist["length"].get(b, 0) + 1
        for k in ("L_kind", "shape", "via"):
            hist[k][m[k]] = hist[k].get(m[k], 0) + 1
        r = c["result"]
        rk = "IndexError" if r[0] != "ok" else "zero" if r[1] == 0 else "positive"
        hist["result"][rk] = hist["result"].get(rk, 0) + 1
        if rk == "positive" and m["n"] >= 2:
            distinct.add(json.dumps([c["L"], c["seq"]]))
    eq_clock = sum(1 for c in wcases if any(c["seq"][i][0] == c["seq"][i + 1][0] for i in range(len(c["seq"]) - 1)))
    zero_dmg = sum(1 for c in wcases if any(d == 0 for _c, d in c["seq"]))
    rep_hist = {"runs": len(rcases), "plays": sum(len(p) for p, _l, _o in rcases),
                "events": sum(len(e) for p, _l, _o in rcases for _c, _b, e in p),
                "logs": sum(len(l) for _p, _l, o in rcases for l in o["logs"]),
                "zero_damage_or_hit_events": sum(1 for p, _l, _o in rcases for _c, _b, e in p for _e, (n, t, d, h, m) in e
                                                 if t in (H.DAMAGE, H.DOT) and (d == 0 or h == 0)),
                "dot_logs": sum(1 for _p, _l, o in rcases for l in o["logs"] for x in l if x[1] == H.DOT),
                "with_modifier": sum(1 for p, _l, _o in rcases for _c, _b, e in p for _e, x in e if x[4] is not None),
                "dpm_undefined": sum(1 for _p, _l, o in rcases if o["dpm"] is None),
                "shares_undefined_or_empty": sum(1 for _p, _l, o in rcases if not o["shares"]),
                "empty_runs": sum(1 for p, _l, _o in rcases if not p)}
    for plays, L, obs in rcases:
        if any(obs["logs"]):
            distinct.add(json.dumps([describe_plays(plays), L]))
    if wcases:
        c = next((c for c in wcases if c["result"][0] == "ok" and c["result"][1] > 0 and c["meta"]["n"] >= 4), wcases[0])
        samples.append({"window_case": {"L": c["L"], "damage_seq": c["seq"], "via": c["meta"]["via"], "implementation_result": list(c["result"])}})
    if rcases:
        p, L, o = next((x for x in rcases if sum(len(l) for l in x[2]["logs"]) >= 3), rcases[0])
        samples.append({"report_case": {"plays": describe_plays(p), "L": L, "total": o["total"], "dpm": o["dpm"], "shares": o["shares"],
                                        "window": list(o["win"])}})
    if real_info:
        samples.append({"real_run": {"job": real_info[0]["job"], "variant": real_info[0]["variant"], "plan_head": real_info[0]["plan"][:6],
                                     "stats": real_stats[0]}})
    n_eval = len(wcases) + len(rcases) + len(real_direct)
    ctx.cov.update({
        "evaluations": n_eval, "distinct_nontrivial": len(distinct), "samples": samples,
        "traces_validated_against_impl": len(real_direct),
        "rule": "window cases: integer (or dyadic, scaled) clock/damage lists of length 0..40 with equal clocks, zero (and a few negative) "
                "damages; L drawn at an exact span between two entries, that +-1, the whole run (+1, +1000), small, random, or <= 0; run "
                "through _find_maximum_dealing_interval directly, on dyadic floats, or through find_maximum_dealing_interval(entries, stub "
                "calculator); Coq compares Model/Window.v, gen/WindowSrc.v and (inside the domain) the naive search with Python's (value, "
                "start, end) or IndexError.  report cases: runs of 0..6 plays x 0..5 events (DAMAGE/DOT/other tags, zero damage, zero hit, "
                "modifiers) through SimulationEntry.build, calculate_damage/total/dpm, DamageShareFeature, the window feature; Coq compares "
                "logs, per-entry damages, total (exact), dpm, shares (rounding noise), window.  real runs: random plans on real engines, "
                "per-log damage from Python, sums compared up to 1e-9.  distinct_nontrivial = distinct window cases with >= 2 entries and "
                "a positive best window + distinct generated runs with at least one damage log",
        "correspondence": {"window_cases": len(wcases), "report_runs": len(rcases), "real_runs": len(real_direct), "shards": len(shards),
                           "differences": len(diffs), "window_histogram": hist, "window_cases_with_equal_clocks": eq_clock,
                           "window_cases_with_zero_damage": zero_dmg, "report_histogram": rep_hist,
                           "generated_model_used": bool(src_vo)},
        "impl_search": {"exhaustive_max_length": bmax, "exhaustive_alphabet": "clock steps {0,1,2} x damages {0,1,2}, every L in 1..span+1",
                        "exhaustive_cases": tried, "random_cases": extra, "seconds": round(time.time() - t0, 1),
                        "generated_runs_checked": len(rcases), "real_runs": real_stats, "editing_sessions": session_stats, "counterexamples": len(found)},
        "outside_domain": {"L<=0": nonpos, "note": "L <= 0 raises IndexError on every non-empty list (C13_window_nonpositive_length_raises), "
                           "the empty list yields (0,0,0); the window theorems assume L > 0"},
        "model_files": ["coq/theories/Model/Window.v", "coq/theories/Model/Report.v", "coq/gen/WindowSrc.v (regenerated)",
                        "coq/theories/Lib/PyLoop.v"],
        "unmodelled": ["binary64 rounding of running sums (exact integers/dyadics in the correspondence; real runs compared up to 1e-9)",
                       "pydantic validation of DamageLog/SimulationEntry", "DamageCalculator.get_damage's formula (C12)"],
        "trusted_extra": ["tools/tr_window.py (Python ast -> Gallina, fail closed) and tools/lib/h_report.py (case encoders, stub calculator)"],
    })
    for d in diffs:
        ctx.broken.append("model and implementation disagree: %s" % json.dumps(d, ensure_ascii=False, default=str)[:400])
    # ------------------------------------------------------------------ 4. known findings (none open for C13)
    for e in open_known("C13"):
        ctx.log("open known finding without a replay routine: %s" % e.get("id"))
    # ------------------------------------------------------------------ 6. verdict
    if found:
        seen = set()
        for f in found:
            if f["what"] in seen:
                continue
            seen.add(f["what"])
            ctx.violation("impl-counterexample", f["what"], input=H.dumpable(f), expected=H.dumpable(f.get("expected")),
                          observed=H.dumpable(f.get("observed")))
            if len(seen) >= 3:
                break
    elif ctx.broken:
        ctx.violation("correspondence" if diffs else "proof-obligation", "; ".join(ctx.broken)[:1500],
                      input={"differences": H.dumpable(diffs[:3])}, no_input=True)
    return ctx.finish("proof", ASSUME)


def describe_plays(plays):
    out = []
    for clock, buff, evs in plays:
        out.append({"clock": clock, "buff": dict(zip(H.BUFF_FIELDS, H.buff_vec(buff))),
                    "events": [{"name": n, "tag": t, "damage": d, "hit": h,
                                "modifier": None if m is None else dict(zip(H.BUFF_FIELDS, H.buff_vec(m)))} for _e, (n, t, d, h, m) in evs]})
    return out


ASSUME = [
    "exact-number reading: clocks, damages, L are integers (Z) in the window model and rationals (Q) in the report model; binary64 "
    "rounding of running sums is outside the theorems (dyadic data scale to integers without changing a branch)",
    "window theorems assume L > 0 and non-decreasing clocks (C06); L <= 0 is proved to raise IndexError on non-empty input",
    "formal reading of 'maximum over all windows of at least the requested length': one window per start, the shortest reaching L "
    "(DESIGN 7/C13, the unit tests); the all-windows reading is shown not to be what the function computes",
    "shares/dpm theorems: non-negative per-log damages for shares_nonneg, total <> 0 for shares_sum_1, non-empty run with final clock <> 0 for dpm",
    "DamageCalculator.get_damage is a parameter gd of the report model (its formula is C12's subject); Stat addition is a parameter badd (C11)",
    "translator tools/tr_window.py regenerates the scan from feature.py; Proofs/WindowTie.v proves it equal to Model/Window.v; "
    "Model/Report.v is hand-written and tied by the correspondence run",
]


def replay(ctx: Ctx, path) -> int:
    """Re-run one replay on the implementation (and, for window inputs, on the model)."""
    data = json.load(open(path))
    inp = data.get("input") or {}
    print(json.dumps({k: data.get(k) for k in ("property", "kind", "what")}, ensure_ascii=False))
    if "seq" in inp and "L" in inp:
        seq = [(float(c), float(d)) for c, d in inp["seq"]]
        L = inp["L"]
        r = H.impl_window(seq, L)
        print("implementation:", r)
        print("exhaustive search:", H.naive_window(seq, L) if L > 0 else "outside the domain (L <= 0)")
        v = H.window_violation(seq, L) if L > 0 else None
        print("violation:" if v else "no violation", v or "")
        try:
            if all(float(c) == int(c) and float(d) == int(d) for c, d in seq) and float(L) == int(L):
                translate(ctx)
                ok, _log, _f = ctx.build(["theories/Model/Window.vo", "theories/Lib/Corr.vo"])
                case = dict(kind="direct", coq="(%s, %s, %s)" % (
                    H.zlit(int(L)), H.coq_list("(%s, %s)" % (H.zlit(int(c)), H.zlit(int(d))) for c, d in seq), H.py_window_result(r)))
                out = ctx.coq_eval({"replay": H.window_shard([case], use_src=(ctx.coq / "gen" / "WindowSrc.v").exists() and
                                                             ctx.build(["gen/WindowSrc.vo"])[0])})["replay"]
                print("model agrees with the implementation:" , H.parse_lists(out[1])[:1] == [[]], out[1][-200:] if out[0] else "")
        except Exception as e:
            print("model replay failed: %r" % e)
        return 1 if v else 0
    if "run" in inp and isinstance(inp["run"], list):
        from simaple.core.base import Stat
        plays = []
        for p in inp["run"]:
            evs = []
            for e in p["events"]:
                mod = None if e["modifier"] is None else Stat(**e["modifier"])
                payload = {"damage": float(e["damage"]), "hit": float(e["hit"])}
                if mod is not None:
                    payload["modifier"] = mod.model_dump()
                evs.append(({"name": e["name"], "tag": e["tag"], "method": "use", "payload": payload, "handler": None},
                            (e["name"], e["tag"], e["damage"], e["hit"], mod)))
            plays.append((p["clock"], Stat(**p["buff"]), evs))
        L = inp.get("L", 1)
        obs = H.run_report_impl(plays, L, H.stub_calculator())
        print("implementation:", json.dumps({k: H.dumpable(obs[k]) for k in ("dmg", "total", "dpm", "shares", "win")}, ensure_ascii=False))
        v = H.report_violation(plays, L, obs, H.stub_gd)
        print("violation:" if v else "no violation", json.dumps(H.dumpable(v), ensure_ascii=False) if v else "")
        return 1 if v else 0
    print(json.dumps(inp, ensure_ascii=False, default=str)[:3000])
    return 0
