"""C18 -- bonus-option inference is sound and complete.

1. T-bonus (tools/tr_bonus.py) regenerates gen/BonusTbl.v from REPO: literals by ast, tables by
   running the tree's own table-building code; a rejected source is a broken obligation.
2. Props/C18.v: search_sound / search_complete for every gear, attack table and observed stat,
   the SDIL search alone, the generic recursive phase, cands_complete, and `tables_are_real`
   (model tables = regenerated real tables, by vm_compute).
3. H-bonus correspondence: real BonusCalculator.compute vs Model/Bonus.v on the same gears and
   observed stats, compared inside Coq (accept / which error / multiset of (kind, grade)).
4. Known findings: none open (C18-luk-index is fixed by c120df0; its witness is replayed).
5. Implementation-side search: the property as stated, on the implementation, through the real
   improvement formulas (runs inside the same worker as step 3; larger when something broke).
"""
from __future__ import annotations

import collections
import json
import random
import time

from lib import h_bonus as hb
from lib import vf
from lib.vf import Ctx

PROPS = "theories/Props/C18.v"
TIE_NAMES = ["constants_ok", "lookup_ok", "index_ok", "sdil_tables_ok", "impr_ok", "real_cands_ok"]


def err_of(log):
    i = log.find("Error")
    return " ".join(log[max(0, i - 300):i + 500].split()) if i >= 0 else log[-500:]


def translate(ctx: Ctx):
    import tr_bonus
    try:
        files, meta = tr_bonus.gen(str(vf.REPO))
    except Exception as e:       # fail closed: no generated file, the proof obligation is broken
        ctx.broken.append("translator T-bonus rejected the source: %s" % str(e)[:400])
        ctx.cov["translator_error"] = str(e)[:1000]
        return False
    for n, t in files.items():
        ctx.write_gen(n, t)
    ctx.cov.setdefault("translators", {})["T-bonus"] = meta
    return True


def tie_diagnosis(ctx: Ctx):
    """Which of the model-table = real-table comparisons is false (Proofs/BonusTie.v failed)."""
    ok, log, _f = ctx.build(["theories/Model/BonusTieDefs.vo"])
    if not ok:
        return "tie definitions do not compile: " + err_of(log)
    src = ("From V.Model Require Import Bonus BonusTieDefs.\n"
           "Eval vm_compute in [%s].\n" % "; ".join(TIE_NAMES))
    rc, out = ctx.coq_eval({"c18_tie": "From Coq Require Import List. Import ListNotations.\n" + src})["c18_tie"]
    if rc != 0:
        return "tie diagnosis did not evaluate: " + out[-300:]
    vals = [w for w in out.replace("[", " ").replace("]", " ").replace(";", " ").split() if w in ("true", "false")]
    bad = [n for n, v in zip(TIE_NAMES, vals) if v == "false"]
    return "model table differs from the table the source builds now: " + ", ".join(bad) if bad else "no table differs"


def build_and_check(ctx: Ctx, have_tables: bool) -> bool:
    model_targets = ["theories/Model/Bonus.vo", "theories/Lib/Corr.vo"]
    if have_tables:
        ok, log, failed = ctx.build([PROPS.replace(".v", ".vo")] + model_targets)
        if ok:
            return ctx.check_props(PROPS)
        ctx.obligations += 1
        msg = "Coq build failed at %s: %s" % (failed, err_of(log))
        if failed and "BonusTie" in failed:
            msg = "C18_tables_are_real no longer holds (%s); %s" % (tie_diagnosis(ctx), msg[:300])
        ctx.broken.append(msg)
    else:
        ctx.obligations += 1
    ok, log, failed = ctx.build(model_targets)
    if not ok:
        ctx.broken.append("the executable model does not build: %s" % err_of(log))
    return False


def describe(job, res):
    d = {"gear": dict(zip(["class", "boss_reward", "req_level", "weapon_base", "magic"],
                          [hb.WCLASS[job["spec"][0]]] + job["spec"][1:])), "class": job["cls"]}
    if "parts" in job:
        d["options"] = [[hb.KINDS[k], g] + (["value taken from the non-boss twin"] if t else []) for k, g, t in job["parts"]]
    if job.get("perturb"):
        d["perturb"] = [[hb.COORDS[c], dv] for c, dv in job["perturb"]]
    if res is not None:
        d["observed_stat"] = dict((c, v) for c, v in zip(hb.COORDS, res.get("obs", [])) if v)
        d["implementation"] = canon_text(res.get("canon"))
        if "error" in res:
            d["error"] = res["error"]
    return d


def canon_text(c):
    if not c:
        return None
    if c[0] == -1:
        return [[hb.KINDS[x // 10], x % 10] for x in c[1:]]
    return {-2: "invalid bonus at " + (hb.KINDS[c[1]] if len(c) > 1 else "?"), -3: "too many bonus values",
            -4: "SDIL search failed", -8: "unrecognised ValueError", -9: "crash"}.get(c[0], str(c))


def model_results(ctx, cases):
    """canon of the model on (spec, obs) pairs, for reporting a difference."""
    if not cases:
        return []
    rc, out = ctx.coq_eval({"c18_model": hb.model_eval_text(cases)})["c18_model"]
    if rc != 0:
        return [None] * len(cases)
    import re
    body = out[out.find("=") + 1:out.rfind(":")]
    rows = re.findall(r"\[([-0-9; \n]*)\]", body[body.find("[") + 1:])
    return [[int(x) for x in r.replace("\n", " ").split(";") if x.strip()] for r in rows]


def run(ctx: Ctx) -> int:
    have_tables = translate(ctx)
    proofs_ok = build_and_check(ctx, have_tables)
    ctx.log("translator %s, proofs %s" % ("ok" if have_tables else "REJECTED", "ok" if proofs_ok else "BROKEN"))

    rng = random.Random(ctx.seed + 18)
    big = ctx.thorough or bool(ctx.broken)
    specs = hb.gear_pool(rng, ctx.thorough)
    try:
        okflags = hb.run_workers("gearcheck", specs)
    except RuntimeError as e:
        ctx.broken.append("the implementation could not be run on the generated gears: %s" % str(e)[:300])
        okflags = []
    ill = len(specs) - sum(1 for o in okflags if o)
    specs = [s for s, o in zip(specs, okflags) if o]
    jobs = hb.gen_cases(rng, specs, ctx.thorough, 8000 if ctx.thorough else (1500 if big else 300)) if specs else []
    # the witness of the fixed finding C18-luk-index (STR + LUK) is always replayed
    for e in vf.load_known("C18"):
        if e.get("status") == "fixed" and specs:
            ks = [hb.KINDS.index(k) for k in e["witness"].get("kinds", []) if k in hb.KINDS]
            if ks:
                jobs.append({"id": len(jobs), "spec": [0, 0, 160, 0, 0], "cls": "fixed:" + e["id"],
                             "parts": [[k, g, 0] for k, g in zip(ks, [7, 5, 3, 4])], "valid": True})
    t0 = time.time()
    try:
        results = hb.run_workers("worker", jobs)
    except RuntimeError as e:
        ctx.broken.append("the implementation-side run failed: %s" % str(e)[:300])
        results = []
    ctx.log("implementation: %d cases in %.1fs" % (len(results), time.time() - t0))

    # ---- step 5 (runs on the same executions): the property as stated, on the implementation
    findings, skipped = [], collections.Counter()
    usable = []
    for job, res in zip(jobs, results):
        if "skip" in res:
            skipped[res["skip"].split(" = ")[0][:60]] += 1
            continue
        neg_single = any(v < 0 for v in res["obs"][4:])
        for f in res.get("findings", []):
            if neg_single and f.startswith("improvements of the returned options do not add up"):
                continue      # negative single-valued field: outside the property's domain (hypothesis of search_sound)
            findings.append({"what": f, **describe(job, res)})
        usable.append((job, res))

    # ---- step 3: correspondence, Coq compares
    cases = [(job["spec"], res["obs"], res["canon"]) for job, res in usable]
    nsh = max(1, min(96, (len(cases) + 59) // 60)) if cases else 0
    shards = {"c18_%03d" % i: hb.shard_text(cases[i::nsh]) for i in range(nsh)}
    t0 = time.time()
    res = ctx.coq_eval(shards) if shards else {}
    diffs = []
    for name, (rc, out) in sorted(res.items()):
        i = int(name.split("_")[1])
        bad = hb.parse_bad(out) if rc == 0 else None
        if bad is None:
            ctx.broken.append("correspondence shard %s did not evaluate: %s" % (name, out.strip()[-300:]))
            continue
        for b in bad:
            diffs.append(usable[i + b * nsh])
    ctx.log("model: %d cases in %d shards, %.1fs, %d differences" % (len(cases), nsh, time.time() - t0, len(diffs)))
    mres = model_results(ctx, [(j["spec"], r["obs"]) for j, r in diffs[:8]])
    diff_reports = []
    for (job, r), m in zip(diffs[:8], mres):
        diff_reports.append(dict(describe(job, r), model=canon_text(m)))
    for d in diff_reports[:5]:
        ctx.broken.append("model and implementation disagree: %s" % json.dumps(d, ensure_ascii=False)[:400])
    if len(diffs) > len(diff_reports):
        ctx.broken.append("... and %d more differences" % (len(diffs) - len(diff_reports)))

    # ---- evidence
    hist = collections.Counter(job["cls"] for job, _ in usable)
    outcome = collections.Counter(("accepted" if r["canon"][0] == -1 else
                                   ("invalid bonus at <kind>" if r["canon"][0] == -2 else canon_text(r["canon"])))
                                  for _, r in usable)
    gears_used = {tuple(job["spec"]) for job, _ in usable}
    distinct = {(tuple(job["spec"][:4]), tuple(r["obs"])) for job, r in usable if any(r["obs"])}
    by_n = collections.Counter(len(r["canon"]) - 1 for _, r in usable if r["canon"][0] == -1)
    samples = [describe(job, r) for job, r in usable if job["cls"] in ("set4", "five", "dup")][:3] or \
              [describe(job, r) for job, r in usable[:2]]
    ctx.cov.update({
        "evaluations": len(usable),
        "distinct_nontrivial": len(distinct),
        "samples": samples,
        "traces_validated_against_impl": len(usable),
        "rule": "gears: armour at every band edge of the level formulas x boss/non-boss + staff/two-handed sword/sword_zb/sword_zl at "
                "every attack-formula threshold; stats: sums of real improvements of 1-2 kind sets (thorough: ALL kinds x ALL grade "
                "pairs on 4 gears; always every kind and every pair of kinds at least once), sampled 3-4 kind sets (seeded PRNG), and "
                "invalid stats (5 kinds, a kind twice, boss grades 1-2, one field off by one, raw small vectors, negative STR..LUK, "
                "4-7 single-valued options). Every case runs BonusCalculator.compute and Model/Bonus.v's compute; Coq compares "
                "accept/which error/multiset of (kind, grade). distinct_nontrivial = distinct (gear, observed stat) with a non-zero stat.",
        "correspondence": {"cases": len(cases), "differences": len(diffs), "by_class": dict(hist),
                           "implementation_outcomes": dict(outcome), "accepted_by_number_of_options": dict(by_n),
                           "gears": len(gears_used), "gears_dropped_ill_conditioned_attack": ill,
                           "skipped": dict(skipped)},
        "impl_search": {"cases": len(usable), "valid_sets_checked_for_completeness": sum(1 for j, _ in usable if j.get("valid")),
                        "accepted_checked_for_soundness": sum(1 for _, r in usable if r["canon"][0] == -1),
                        "counterexamples": len(findings)},
        "model_files": ["coq/theories/Model/Bonus.v", "coq/theories/Model/BonusTieDefs.v", "coq/gen/BonusTbl.v"],
        "unmodelled": ["the final sort by bonus_key_func (results are compared as multisets)",
                       "Stat fields other than the 11 read by the inference; non-integer stats"],
        "trusted_extra": ["tools/tr_bonus.py (ast reader + dump of the tree's own tables), tools/lib/h_bonus.py (harness)",
                          "pydantic model construction/copy of Gear, GearMeta, Stat, Bonus"],
        "exhaustive": False,
    })

    # ---- verdict
    if findings:
        seen = set()
        for f in findings:
            key = f["what"].split(":")[0][:50]
            if key in seen:
                continue
            seen.add(key)
            ctx.violation("impl-counterexample", "C18 on the implementation: " + f["what"][:300], input=f,
                          expected="<= 4 distinct-kind options with valid grades re-summing to the observed stat; valid sets accepted",
                          observed=f.get("implementation"))
            if len(seen) >= 3:
                break
    elif ctx.broken:
        ctx.violation("correspondence" if diffs else "proof-obligation", "; ".join(ctx.broken)[:1500],
                      input={"differences": diff_reports[:3]}, no_input=True)
    return ctx.finish("proof", ASSUME)


ASSUME = [
    "observed stats are integer valued and bonus-shaped: only the 11 fields the inference reads (STR DEX INT LUK MHP MMP "
    "attack_power magic_attack boss_damage_multiplier damage_multiplier STR_multiplier, the other three stat multipliers equal "
    "to STR_multiplier); single-valued fields >= 0 (hypothesis of C18_search_sound: the code skips non-positive fields)",
    "req_level >= 0 (hypothesis of every theorem; DualStatBonus.calculate_basis is 0 at req_level -40..-1)",
    "the weapon attack value is a parameter (any table) of the theorems; its binary64 ceil equals the exact reading "
    "atk_formula on every gear of C18_tables_are_real and of the correspondence run (gears where it would not are dropped and counted)",
    "hand-written model coq/theories/Model/Bonus.v tied to simaple/gear/compute/bonus.py by the correspondence run and by "
    "C18_tables_are_real over the regenerated tables",
]


def replay(ctx: Ctx, path):
    """Re-run one replay on the implementation and on the model."""
    payload = json.load(open(path))
    inp = payload.get("input") or {}
    print(json.dumps(payload, indent=1, ensure_ascii=False)[:3000])
    gear = inp.get("gear")
    if not gear or "observed_stat" not in inp:
        return 0
    spec = [hb.WCLASS.index(gear["class"]), gear["boss_reward"], gear["req_level"], gear["weapon_base"], gear["magic"]]
    obs = [inp["observed_stat"].get(c, 0) for c in hb.COORDS]
    job = {"id": 0, "spec": spec, "cls": "replay", "obs": obs}
    if inp.get("options") and not inp.get("perturb"):      # rebuild the stat from the options, as the run did
        job = {"id": 0, "spec": spec, "cls": "replay", "valid": str(inp.get("class", "")).startswith(("set", "fixed")),
               "parts": [[hb.KINDS.index(o[0]), o[1], 1 if len(o) > 2 else 0] for o in inp["options"]]}
    res = hb.run_workers("worker", [job])[0]
    obs = res.get("obs", obs)
    print("implementation now:", canon_text(res.get("canon")), res.get("findings", ""))
    ok, log, _ = ctx.build(["theories/Model/Bonus.vo"])
    if ok:
        print("model:", [canon_text(m) for m in model_results(ctx, [(spec, obs)])])
    return 1 if res.get("findings") else 0
