"""T-grammar (spec part): simaple/spec/_math.py  ->  coq/gen/MathGrammar.v

Reads, with Python's `ast` only (the module is never imported):
  * the Lark grammar string assigned to `__grammar` -> production table, '?'-inlined rules, regex terminals,
    %import / %ignore directives;
  * every method of `CalcTransformer` -> (alias, tiny Python expression tree `pyexpr` of Model/ExprParse.v);
  * how the parser object is built (`Lark(__grammar)`) and how `evaluate_expression` combines the two.
Fail closed: any statement, grammar construct or expression form that is not recognised raises
`Rejected`; nothing is guessed.  Coq (Proofs/MathGrammarTie.v) then proves by vm_compute that the tables equal
the ones the hand-written model implements (`model_productions`, `model_optable`, ...).
"""
from __future__ import annotations

import ast
import re
from pathlib import Path

SRC = "simaple/spec/_math.py"


class Rejected(Exception):
    pass


def cstr(s: str) -> str:
    if "\n" in s:
        raise Rejected("newline inside a string that must become a Coq string: %r" % s)
    return '"' + s.replace('"', '""') + '"'


def clist(items, sep="; ") -> str:
    return "[" + sep.join(items) + "]"


# ------------------------------------------------------------------------------------------- Lark grammar text
_ITEM = re.compile(r'\s*(?:("(?:[^"\\]|\\.)*")|([A-Za-z_][A-Za-z_0-9]*)|(->))')


def parse_alternative(text: str, where: str):
    """One alternative: items, optionally '-> alias'. Returns (symbols, alias)."""
    pos, syms, alias = 0, [], ""
    text = text.strip()
    if not text:
        raise Rejected("empty alternative in %s" % where)
    while pos < len(text):
        m = _ITEM.match(text, pos)
        if not m:
            raise Rejected("unsupported grammar construct at %r in %s" % (text[pos:], where))
        pos = m.end()
        if m.group(1) is not None:
            lit = m.group(1)[1:-1]
            if "\\" in lit:
                raise Rejected("escape sequence in literal %r of %s" % (lit, where))
            syms.append(("Lit", lit))
        elif m.group(2) is not None:
            name = m.group(2)
            if alias == "->":
                alias = name
                if text[pos:].strip():
                    raise Rejected("text after alias in %s: %r" % (where, text[pos:]))
                break
            if name.isupper():
                syms.append(("TM", name))
            elif name.islower():
                syms.append(("NT", name))
            else:
                raise Rejected("mixed-case symbol %r in %s" % (name, where))
        else:
            if alias:
                raise Rejected("two aliases in %s" % where)
            alias = "->"
    if alias == "->":
        raise Rejected("dangling '->' in %s" % where)
    if not syms:
        raise Rejected("alternative without symbols in %s" % where)
    return syms, alias


def parse_lark(text: str):
    productions, inlined, terminals, imports, ignored = [], [], [], [], []
    # join continuation lines (those starting with '|') to the rule they belong to
    entries = []
    for raw in text.splitlines():
        line = raw.strip()
        if not line:
            continue
        if line.startswith("|"):
            if not entries or entries[-1][0] != "rule":
                raise Rejected("continuation line without a rule: %r" % raw)
            entries[-1][1] += " " + line
        elif line.startswith("%"):
            entries.append(["directive", line])
        elif re.match(r"^\??[a-z_][a-z_0-9]*\s*:", line):
            entries.append(["rule", line])
        elif re.match(r"^[A-Z_][A-Z_0-9]*\s*:", line):
            entries.append(["terminal", line])
        else:
            raise Rejected("unrecognised grammar line: %r" % raw)
    for kind, line in entries:
        if kind == "directive":
            m = re.match(r"^%import\s+([a-z_]+(?:\.[A-Za-z_]+)+)\s*$", line)
            if m:
                imports.append(m.group(1))
                continue
            m = re.match(r"^%ignore\s+([A-Z_][A-Z_0-9]*)\s*$", line)
            if m:
                ignored.append(m.group(1))
                continue
            raise Rejected("unsupported directive: %r" % line)
        if kind == "terminal":
            m = re.match(r"^([A-Z_][A-Z_0-9]*)\s*:\s*/(.*)/\s*$", line)
            if not m or "/" in m.group(2):
                raise Rejected("terminal that is not a single /regex/: %r" % line)
            terminals.append((m.group(1), m.group(2)))
            continue
        m = re.match(r"^(\??)([a-z_][a-z_0-9]*)\s*:(.*)$", line)
        flag, name, body = m.group(1), m.group(2), m.group(3)
        if flag:
            inlined.append(name)
        alts, cur, inq = [], "", False
        for ch in body:                      # split on '|' outside of "..." literals
            if ch == '"':
                inq = not inq
            if ch == "|" and not inq:
                alts.append(cur)
                cur = ""
            else:
                cur += ch
        if inq:
            raise Rejected("unterminated literal: %r" % line)
        alts.append(cur)
        for i, alt in enumerate(alts):
            syms, alias = parse_alternative(alt, "%s alternative %d" % (name, i + 1))
            productions.append((name, syms, alias))
    return productions, inlined, terminals, imports, ignored


# ------------------------------------------------------------------------------------------- CalcTransformer
_BIN = {ast.Add: "+", ast.Sub: "-", ast.Mult: "*", ast.Div: "/", ast.FloorDiv: "//"}
_CMP = {ast.Gt: ">", ast.Lt: "<"}


def is_tok0(e, param) -> bool:
    return (isinstance(e, ast.Subscript) and isinstance(e.value, ast.Name) and e.value.id == param
            and isinstance(e.slice, ast.Constant) and e.slice.value == 0)


def pyexpr(e, param: str, where: str) -> str:
    if isinstance(e, ast.Subscript) and isinstance(e.value, ast.Name) and e.value.id == param \
            and isinstance(e.slice, ast.Constant) and isinstance(e.slice.value, int) and e.slice.value >= 0:
        return "(PItem %d)" % e.slice.value
    if isinstance(e, ast.Constant) and isinstance(e.value, int) and not isinstance(e.value, bool):
        return "(PInt (%d)%%Z)" % e.value
    if isinstance(e, ast.BinOp) and type(e.op) in _BIN:
        return "(PBinop %s %s %s)" % (cstr(_BIN[type(e.op)]), pyexpr(e.left, param, where), pyexpr(e.right, param, where))
    if isinstance(e, ast.Compare) and len(e.ops) == 1 and type(e.ops[0]) in _CMP:
        return "(PCmp %s %s %s)" % (cstr(_CMP[type(e.ops[0])]), pyexpr(e.left, param, where),
                                    pyexpr(e.comparators[0], param, where))
    if isinstance(e, ast.UnaryOp) and isinstance(e.op, ast.USub):
        return "(PNeg %s)" % pyexpr(e.operand, param, where)
    if isinstance(e, ast.Call) and not e.keywords:
        f = e.func
        if isinstance(f, ast.Name) and f.id in ("min", "max") and len(e.args) == 2:
            return "(PCall2 %s %s %s)" % (cstr(f.id), pyexpr(e.args[0], param, where), pyexpr(e.args[1], param, where))
        if isinstance(f, ast.Attribute) and isinstance(f.value, ast.Name) and f.value.id == "math" \
                and f.attr in ("ceil", "floor") and len(e.args) == 1:
            return "(PCall1 %s %s)" % (cstr("math." + f.attr), pyexpr(e.args[0], param, where))
        if isinstance(f, ast.Name) and f.id == "float" and len(e.args) == 1:
            a = e.args[0]
            if is_tok0(a, param):
                return "(PTokFloat false)"
            if isinstance(a, ast.Call) and isinstance(a.func, ast.Attribute) and a.func.attr == "replace" \
                    and is_tok0(a.func.value, param) and len(a.args) == 2 and not a.keywords \
                    and all(isinstance(x, ast.Constant) for x in a.args) \
                    and (a.args[0].value, a.args[1].value) == ("_", ""):
                return "(PTokFloat true)"
    raise Rejected("unsupported expression in %s: %s" % (where, ast.unparse(e)))


def is_var_name(e, param) -> bool:
    """token[0].value"""
    return isinstance(e, ast.Attribute) and e.attr == "value" and is_tok0(e.value, param)


def is_self_variables(e) -> bool:
    return isinstance(e, ast.Attribute) and e.attr == "variables" and isinstance(e.value, ast.Name) and e.value.id == "self"


def method_entry(fn: ast.FunctionDef):
    where = "CalcTransformer." + fn.name
    if fn.decorator_list or fn.args.vararg or fn.args.kwarg or fn.args.kwonlyargs or fn.args.defaults:
        raise Rejected("unsupported signature of " + where)
    params = [a.arg for a in fn.args.args]
    if len(params) != 2 or params[0] != "self":
        raise Rejected("unsupported parameters of %s: %s" % (where, params))
    param = params[1]
    body = [s for s in fn.body if not (isinstance(s, ast.Expr) and isinstance(s.value, ast.Constant))]
    if len(body) == 1 and isinstance(body[0], ast.Return) and body[0].value is not None:
        return fn.name, pyexpr(body[0].value, param, where)
    if len(body) == 2 and isinstance(body[0], ast.Assert) and isinstance(body[1], ast.Return):
        t = body[0].test
        r = body[1].value
        ok = (isinstance(t, ast.Compare) and len(t.ops) == 1 and isinstance(t.ops[0], ast.In)
              and is_var_name(t.left, param) and is_self_variables(t.comparators[0])
              and isinstance(r, ast.Subscript) and is_self_variables(r.value) and is_var_name(r.slice, param))
        if ok:
            return fn.name, "PVarLookup"
    raise Rejected("unsupported body of " + where)


def gen(repo):
    path = Path(repo) / SRC
    src = path.read_text()
    tree = ast.parse(src)
    grammar = None
    optable = None
    lark_call = None
    entry = None
    for node in tree.body:
        if isinstance(node, ast.Import):
            if [a.name for a in node.names] != ["math"] or node.names[0].asname:
                raise Rejected("unexpected import: " + ast.unparse(node))
        elif isinstance(node, ast.ImportFrom):
            names = sorted(a.name for a in node.names)
            if any(a.asname for a in node.names) or (node.module, names) not in (
                    ("typing", ["cast"]), ("lark", ["Lark", "Transformer"])):
                raise Rejected("unexpected import: " + ast.unparse(node))
        elif isinstance(node, ast.Assign) and len(node.targets) == 1 and isinstance(node.targets[0], ast.Name):
            name = node.targets[0].id
            if name == "__grammar" and isinstance(node.value, ast.Constant) and isinstance(node.value.value, str):
                if grammar is not None:
                    raise Rejected("__grammar assigned twice")
                grammar = node.value.value
            elif name == "__arithmetic_parser":
                v = node.value
                if not (isinstance(v, ast.Call) and isinstance(v.func, ast.Name) and v.func.id == "Lark"
                        and len(v.args) == 1 and not v.keywords and isinstance(v.args[0], ast.Name)
                        and v.args[0].id == "__grammar"):
                    raise Rejected("parser is not built as Lark(__grammar): " + ast.unparse(node))
                lark_call = ["Lark", "__grammar"]
            else:
                raise Rejected("unexpected module-level assignment: " + ast.unparse(node)[:80])
        elif isinstance(node, ast.ClassDef) and node.name == "CalcTransformer":
            if [ast.unparse(b) for b in node.bases] != ["Transformer"] or node.keywords or node.decorator_list:
                raise Rejected("CalcTransformer is not a plain Transformer subclass")
            optable = []
            for item in node.body:
                if isinstance(item, ast.Expr) and isinstance(item.value, ast.Constant):
                    continue
                if not isinstance(item, ast.FunctionDef):
                    raise Rejected("unexpected member of CalcTransformer: " + ast.unparse(item)[:80])
                if item.name == "__init__":
                    want = "def __init__(self, variables: dict[str, int | float]):\n    self.variables = variables"
                    if ast.unparse(item) != want:
                        raise Rejected("CalcTransformer.__init__ does more than store the variables")
                    continue
                if item.name.startswith("_"):
                    raise Rejected("private/special method in CalcTransformer: " + item.name)
                optable.append(method_entry(item))
        elif isinstance(node, ast.FunctionDef) and node.name == "evaluate_expression":
            params = [a.arg for a in node.args.args]
            body = [s for s in node.body if not (isinstance(s, ast.Expr) and isinstance(s.value, ast.Constant))]
            if params != ["expression", "variables"] or len(body) != 2:
                raise Rejected("evaluate_expression has an unexpected shape")
            want0 = "ast = __arithmetic_parser.parse(expression)"
            want1 = "return cast(int | float, CalcTransformer(variables).transform(ast))"
            if ast.unparse(body[0]) != want0 or ast.unparse(body[1]) != want1:
                raise Rejected("evaluate_expression is not transform(parse(expression)): %s / %s"
                               % (ast.unparse(body[0]), ast.unparse(body[1])))
            entry = ["CalcTransformer", "variables", "transform", "__arithmetic_parser", "parse", "expression"]
        else:
            raise Rejected("unexpected module-level statement: " + ast.unparse(node)[:80])
    for what, v in (("__grammar", grammar), ("CalcTransformer", optable), ("Lark(__grammar)", lark_call),
                    ("evaluate_expression", entry)):
        if v is None:
            raise Rejected("%s not found in %s" % (what, SRC))
    productions, inlined, terminals, imports, ignored = parse_lark(grammar)

    def sym(s):
        return "%s %s" % (s[0], cstr(s[1]))

    out = [
        "(* GENERATED by tools/tr_mathgrammar.py from %s -- do not edit. *)" % SRC,
        "From Coq Require Import String List ZArith.",
        "From V.Model Require Import ExprParse.",
        "Import ListNotations.",
        "Open Scope string_scope.",
        "",
        "Definition productions : list production := [",
        ";\n".join("  (%s, %s, %s)" % (cstr(l), clist([sym(s) for s in r]), cstr(a)) for (l, r, a) in productions),
        "].",
        "Definition inlined_rules : list string := %s." % clist([cstr(x) for x in inlined]),
        "Definition terminals : list (string * string) := %s." % clist(["(%s, %s)" % (cstr(a), cstr(b)) for a, b in terminals]),
        "Definition imports : list string := %s." % clist([cstr(x) for x in imports]),
        "Definition ignored : list string := %s." % clist([cstr(x) for x in ignored]),
        "Definition lark_call : list string := %s." % clist([cstr(x) for x in lark_call]),
        "",
        "Definition optable : list (string * pyexpr) := [",
        ";\n".join("  (%s, %s)" % (cstr(n), b) for n, b in optable),
        "].",
        "Definition entry : list string := %s." % clist([cstr(x) for x in entry]),
        "",
    ]
    meta = {"source": SRC, "productions": len(productions), "actions": len(optable),
            "terminals": [t[0] for t in terminals], "imports": imports, "ignored": ignored,
            "constructs_rejected": 0}
    return {"MathGrammar.v": "\n".join(out)}, meta


if __name__ == "__main__":
    import sys
    files, meta = gen(sys.argv[1] if len(sys.argv) > 1 else "/repo")
    print(files["MathGrammar.v"])
    print(meta, file=sys.stderr)
