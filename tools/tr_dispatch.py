"""T-dispatch: fail-closed translator  Python `ast` -> Gallina  for the three dispatcher `__call__` methods

    simaple/simulate/base.py            TandemDispatcher.__call__, RouterDispatcher.__call__
    simaple/simulate/component/base.py  ContextDispatcher.__call__

-> gen/DispatchSrc.v: terms in the monad M of Lib/PyDisp.v (a computation over the router's hidden state - its route cache - and the
store, both mutated in place in Python, that may raise).  Proofs/DispatchTie.v proves the generated terms equal to the Tandem / Ctx
branches of `call_d` and to one unfolding of `dispatch_c` of Model/Router.v, the definitions the C02 router theorems are about (and
which Model/Dispatch.v reuses for C05-C07 and C10).

The statements of each method are walked in source order.  Accepted:
    x = []                                                  a local list (events / the local `cache` of positions)
    s = message_signature(action)                           sig_of
    ev = D(action, store)          ev += D(action, store)   a dispatcher call; D = self._base_dispatcher | a loop variable
    if any(e["tag"] == Tag.REJECT for e in ev): return ev   existsb is_reject
    for d in self._next_dispatchers: ev += d(action, store) for_acc
    if message_signature(action) != self._signature: return []
    return self._context(self._defined_action, store)       the enclosing router, called re-entrantly
    if s in self._route_cache:  for d in self._route_cache[s]: ev += d(action, store);  return ev
                                                            the hit branch: the cached list (positions in `_dispatchers`: an object of
                                                            that list is its position, nothing is ever removed or reordered)
    for d in self._dispatchers:  if d.includes(s): c.append(d); ev += d(action, store)
                                                            the miss branch, the ORDER of append / call is translated
    self._route_cache[s] = c                                the cache is written after the loop
    return ev
"""
from __future__ import annotations

import ast
import os

BASE = "simaple/simulate/base.py"
COMP = "simaple/simulate/component/base.py"


class Rejected(Exception):
    pass


def bad(node, why):
    raise Rejected("%s (line %s): %s" % (why, getattr(node, "lineno", "?"), ast.dump(node)[:160]))


def body_of(fn):
    return [s for s in fn.body if not (isinstance(s, ast.Expr) and isinstance(s.value, ast.Constant) and isinstance(s.value.value, str))]


def find(tree, cls, name):
    for n in tree.body:
        if isinstance(n, ast.ClassDef) and n.name == cls:
            for m in n.body:
                if isinstance(m, ast.FunctionDef) and m.name == name:
                    if [a.arg for a in m.args.args] != ["self", "action", "store"]:
                        bad(m, "%s.%s signature" % (cls, name))
                    return m
    raise Rejected("%s.%s not found" % (cls, name))


def is_call_of(e, who):
    """e is  <who>(action, store)"""
    return isinstance(e, ast.Call) and ast.unparse(e.func) == who and [ast.unparse(a) for a in e.args] == ["action", "store"] and not e.keywords


def acc_loop(s, iter_src, ev):
    """for d in <iter_src>: ev += d(action, store)  ->  d  (else None)"""
    if isinstance(s, ast.For) and not s.orelse and isinstance(s.target, ast.Name) and ast.unparse(s.iter) == iter_src and len(s.body) == 1 \
            and isinstance(s.body[0], ast.AugAssign) and isinstance(s.body[0].op, ast.Add) and ast.unparse(s.body[0].target) == ev \
            and is_call_of(s.body[0].value, s.target.id):
        return s.target.id
    return None


def tr_tandem(fn):
    b = body_of(fn)

    def walk(stmts, ev):
        if not stmts:
            bad(fn, "TandemDispatcher.__call__ does not end with a return")
        s, rest = stmts[0], stmts[1:]
        if isinstance(s, ast.Assign) and isinstance(s.targets[0], ast.Name) and is_call_of(s.value, "self._base_dispatcher"):
            x = s.targets[0].id
            return "bindM (calld base_dispatcher action) (fun %s =>\n  %s)" % (x, walk(rest, x))
        if isinstance(s, ast.If) and not s.orelse and len(s.body) == 1 and isinstance(s.body[0], ast.Return) and ev \
                and ast.unparse(s.body[0].value) == ev and isinstance(s.test, ast.Call) and ast.unparse(s.test.func) == "any" \
                and len(s.test.args) == 1 and isinstance(s.test.args[0], ast.GeneratorExp):
            g = s.test.args[0]
            if len(g.generators) == 1 and not g.generators[0].ifs and isinstance(g.generators[0].target, ast.Name) \
                    and ast.unparse(g.generators[0].iter) == ev \
                    and ast.unparse(g.elt) == "%s['tag'] == Tag.REJECT" % g.generators[0].target.id:
                e = g.generators[0].target.id
                return "if existsb (fun %s => is_reject %s) %s then retM %s else\n  %s" % (e, e, ev, ev, walk(rest, ev))
            bad(s, "Tandem: the early return is not `any(e['tag'] == Tag.REJECT for e in events)`")
        if ev and acc_loop(s, "self._next_dispatchers", ev):
            d = acc_loop(s, "self._next_dispatchers", ev)
            return "bindM (for_acc next_dispatchers (fun %s => calld %s action) %s) (fun %s =>\n  %s)" % (d, d, ev, ev, walk(rest, ev))
        if isinstance(s, ast.Return) and ev and ast.unparse(s.value) == ev and not rest:
            return "retM %s" % ev
        bad(s, "Tandem: statement outside the language")
    return ("Definition src_tandem_call (base_dispatcher : disp_) (next_dispatchers : list disp_) (action : Act) : M X St (list Ev) :=\n  %s."
            % walk(b, None))


def tr_context(fn):
    b = body_of(fn)
    if len(b) != 2:
        bad(fn, "ContextDispatcher.__call__ has %d statements, expected 2" % len(b))
    s0, s1 = b
    if not (isinstance(s0, ast.If) and not s0.orelse and ast.unparse(s0.test) == "message_signature(action) != self._signature"
            and len(s0.body) == 1 and isinstance(s0.body[0], ast.Return) and ast.unparse(s0.body[0].value) == "[]"):
        bad(s0, "Context: guard is not `if message_signature(action) != self._signature: return []`")
    if not (isinstance(s1, ast.Return) and ast.unparse(s1.value) == "self._context(self._defined_action, store)"):
        bad(s1, "Context: does not return self._context(self._defined_action, store)")
    return ("Definition src_context_call (signature : Sig) (defined_action : Act) (action : Act) : M X St (list Ev) :=\n"
            "  if negb (sig_eqb (sig_of action) signature) then retM [] else\n  context defined_action.")


def tr_router(fn):
    b = body_of(fn)
    if len(b) != 7:
        bad(fn, "RouterDispatcher.__call__ has %d statements, expected 7" % len(b))
    s_ev, s_sig, s_hit, s_cache, s_scan, s_put, s_ret = b
    if not (isinstance(s_ev, ast.Assign) and isinstance(s_ev.targets[0], ast.Name) and ast.unparse(s_ev.value) == "[]"):
        bad(s_ev, "Router: first statement is not `events = []`")
    ev = s_ev.targets[0].id
    if not (isinstance(s_sig, ast.Assign) and isinstance(s_sig.targets[0], ast.Name) and ast.unparse(s_sig.value) == "message_signature(action)"):
        bad(s_sig, "Router: second statement is not `signature = message_signature(action)`")
    sg = s_sig.targets[0].id
    if not (isinstance(s_hit, ast.If) and not s_hit.orelse and ast.unparse(s_hit.test) == "%s in self._route_cache" % sg and len(s_hit.body) == 2
            and isinstance(s_hit.body[1], ast.Return) and ast.unparse(s_hit.body[1].value) == ev):
        bad(s_hit, "Router: hit branch is not `if signature in self._route_cache: <loop>; return events`")
    d_hit = acc_loop(s_hit.body[0], "self._route_cache[%s]" % sg, ev)
    if not d_hit:
        bad(s_hit.body[0], "Router: hit loop is not `for d in self._route_cache[signature]: events += d(action, store)`")
    if not (isinstance(s_cache, ast.Assign) and isinstance(s_cache.targets[0], ast.Name) and ast.unparse(s_cache.value) == "[]"):
        bad(s_cache, "Router: local cache list")
    ca = s_cache.targets[0].id
    if not (isinstance(s_scan, ast.For) and not s_scan.orelse and isinstance(s_scan.target, ast.Name) and ast.unparse(s_scan.iter) == "self._dispatchers"
            and len(s_scan.body) == 1 and isinstance(s_scan.body[0], ast.If) and not s_scan.body[0].orelse):
        bad(s_scan, "Router: scan loop")
    d = s_scan.target.id
    if ast.unparse(s_scan.body[0].test) != "%s.includes(%s)" % (d, sg):
        bad(s_scan.body[0], "Router: scan test is not `d.includes(signature)`")
    inner = []
    for st in s_scan.body[0].body:
        if isinstance(st, ast.Expr) and ast.unparse(st.value) == "%s.append(%s)" % (ca, d):
            inner.append("append")
        elif isinstance(st, ast.AugAssign) and isinstance(st.op, ast.Add) and ast.unparse(st.target) == ev and is_call_of(st.value, d):
            inner.append("call")
        else:
            bad(st, "Router: scan body statement outside the language")
    if sorted(inner) != ["append", "call"]:
        bad(s_scan, "Router: scan body must append the dispatcher once and call it once")
    if inner == ["append", "call"]:
        body = ("let %s := %s ++ [i] in\n                 bindM (calld %s action) (fun r => retM (%s ++ r, %s))" % (ca, ca, d, ev, ca))
    else:
        body = ("bindM (calld %s action) (fun r => let %s := %s ++ [i] in retM (%s ++ r, %s))" % (d, ca, ca, ev, ca))
    if ast.unparse(s_put) != "self._route_cache[%s] = %s" % (sg, ca):
        bad(s_put, "Router: the route cache is not written with the local list after the loop")
    if not (isinstance(s_ret, ast.Return) and ast.unparse(s_ret.value) == ev):
        bad(s_ret, "Router: does not return the events")
    return ("Definition src_router_call (dispatchers : list disp_) (action : Act) : M (cache Sig) St (list Ev) :=\n"
            "  let %(ev)s : list Ev := [] in\n"
            "  let %(sg)s := sig_of action in\n"
            "  bindM getX (fun route_cache =>\n"
            "  match lookup Sig sig_eqb route_cache %(sg)s with\n"
            "  | Some cached =>\n"
            "      bindM (for_acc cached (fun i => match nth_error dispatchers i with Some %(dh)s => calld %(dh)s action | None => failM end) %(ev)s) (fun %(ev)s =>\n"
            "      retM %(ev)s)\n"
            "  | None =>\n"
            "      let %(ca)s : list nat := [] in\n"
            "      bindM (for_st (enum_from 0 dispatchers) (fun '(i, %(d)s) '(%(ev)s, %(ca)s) =>\n"
            "               if includes Sig Act St Ev sig_eqb %(d)s %(sg)s then\n"
            "                 %(body)s\n"
            "               else retM (%(ev)s, %(ca)s)) (%(ev)s, %(ca)s)) (fun '(%(ev)s, %(ca)s) =>\n"
            "      bindM (modX (fun route_cache => put Sig route_cache %(sg)s %(ca)s)) (fun _ =>\n"
            "      retM %(ev)s))\n"
            "  end)." % dict(ev=ev, sg=sg, dh=d_hit, ca=ca, d=d, body=body))


def gen(repo):
    base = ast.parse(open(os.path.join(str(repo), BASE), encoding="utf-8").read())
    comp = ast.parse(open(os.path.join(str(repo), COMP), encoding="utf-8").read())
    t = tr_tandem(find(base, "TandemDispatcher", "__call__"))
    c = tr_context(find(comp, "ContextDispatcher", "__call__"))
    r = tr_router(find(base, "RouterDispatcher", "__call__"))
    text = HEADER + t + "\n\n" + c + "\n  End Any.\n\n  Variable calld : disp_ -> Act -> M (cache Sig) St (list Ev).\n" + r + "\nEnd DispatchSrc.\n"
    return {"DispatchSrc.v": text}, {"functions": ["TandemDispatcher.__call__", "ContextDispatcher.__call__", "RouterDispatcher.__call__"],
                                     "sources": [BASE, COMP]}


HEADER = """(* GENERATED by tools/tr_dispatch.py from simaple/simulate/base.py and simaple/simulate/component/base.py - do not edit *)
From Coq Require Import List Bool.
Import ListNotations.
From V Require Import Lib.PyDisp Model.Router.

Section DispatchSrc.
  Variables Sig Act St Ev : Type.
  Variable sig_eqb : Sig -> Sig -> bool.
  Variable sig_of : Act -> Sig.
  Variable is_reject : Ev -> bool.
  Notation disp_ := (disp Sig Act St Ev).

  Section Any.
  Variable X : Type.
  Variable calld : disp_ -> Act -> M X St (list Ev).       (* dispatcher(action, store) *)
  Variable context : Act -> M X St (list Ev).              (* self._context(action, store): the enclosing router, re-entrantly *)

"""

if __name__ == "__main__":
    import sys
    files, meta = gen(sys.argv[1] if len(sys.argv) > 1 else "/repo")
    print(files["DispatchSrc.v"])
