"""T-fields (C19 part): constructor parameters vs. clone() keyword arguments of every optimizer target.

Reads simaple/optimizer/*.py with `ast` and emits gen/CloneFields.v: for each subclass of
DiscreteTarget one `target_desc` record (Model/GreedyClone.v) holding
  * the `__init__` parameters (without self),
  * the `self.<attr> = <param>` assignments of `__init__`,
  * the keyword arguments `param=self.<attr>` (or `param=list(self.<attr>)`) of the constructor
    call inside `clone()`, plus the pseudo parameter "<state>" when clone() forwards the state with
    `target.set_state(self.state)`,
  * the attributes read (transitively through `self.method()` calls) by get_value / get_cost /
    get_result -- the objective-relevant ones.
The proof obligation `forallb clone_ok clone_targets = true` (Proofs/GreedyCloneP.v) then says that every
objective-relevant attribute is assigned from a parameter which clone() forwards from the same attribute,
and that every constructor parameter is forwarded at all.

Fail closed: any shape of `__init__`/`clone` this reader does not know is an error, never a guess.
"""
from __future__ import annotations

import ast
import glob
import os

STATE = "<state>"
OBJECTIVE_METHODS = ("get_value", "get_cost", "get_result")
BASE = "DiscreteTarget"
# attributes DiscreteTarget.__init__ itself defines; `state` is handled through set_state
BASE_ATTRS = {"state", "maximum_step", "state_length"}


class Reject(Exception):
    pass


def _self_attr(node):
    """self.<attr>  ->  attr, else None"""
    if isinstance(node, ast.Attribute) and isinstance(node.value, ast.Name) and node.value.id == "self":
        return node.attr
    return None


def _init_info(cls: ast.ClassDef, fn: ast.FunctionDef):
    a = fn.args
    if a.vararg or a.kwarg or a.posonlyargs or a.kwonlyargs:
        raise Reject("%s.__init__: *args/**kwargs/keyword-only parameters are not handled" % cls.name)
    params = [x.arg for x in a.args]
    if not params or params[0] != "self":
        raise Reject("%s.__init__: first parameter is not self" % cls.name)
    params = params[1:]
    assigns = []
    for st in fn.body:
        if isinstance(st, ast.Expr) and isinstance(st.value, ast.Constant):
            continue                                  # docstring
        if isinstance(st, ast.Expr) and isinstance(st.value, ast.Call):
            continue                                  # super().__init__(...), self.initialize_...(...)
        if isinstance(st, ast.Assign) and len(st.targets) == 1:
            attr = _self_attr(st.targets[0])
            if attr is None:
                raise Reject("%s.__init__: assignment to something else than self.<attr> (line %d)" % (cls.name, st.lineno))
            if isinstance(st.value, ast.Name) and st.value.id in params:
                assigns.append((attr, st.value.id))
                continue
            raise Reject("%s.__init__: self.%s is not assigned from a parameter (line %d)" % (cls.name, attr, st.lineno))
        raise Reject("%s.__init__: statement kind %s not handled (line %d)" % (cls.name, type(st).__name__, st.lineno))
    attrs = [a_ for a_, _p in assigns]
    if len(set(attrs)) != len(attrs):
        raise Reject("%s.__init__: an attribute is assigned twice" % cls.name)
    return params, assigns


def _clone_info(cls: ast.ClassDef, fn: ast.FunctionDef):
    """clone(): `target = Cls(kw=self.a, ...)`, `target.set_state(self.state)`, `return target`."""
    kwargs = None
    var = None
    state_fwd = False
    returned = False
    for st in fn.body:
        if isinstance(st, ast.Expr) and isinstance(st.value, ast.Constant):
            continue
        if isinstance(st, ast.Assign) and len(st.targets) == 1 and isinstance(st.targets[0], ast.Name) \
                and isinstance(st.value, ast.Call) and isinstance(st.value.func, ast.Name):
            if st.value.func.id != cls.name:
                raise Reject("%s.clone: constructs %s" % (cls.name, st.value.func.id))
            if kwargs is not None:
                raise Reject("%s.clone: two constructor calls" % cls.name)
            if st.value.args:
                raise Reject("%s.clone: positional constructor arguments are not handled" % cls.name)
            var = st.targets[0].id
            kwargs = []
            for kw in st.value.keywords:
                if kw.arg is None:
                    raise Reject("%s.clone: **kwargs in the constructor call" % cls.name)
                v = kw.value
                if isinstance(v, ast.Call) and isinstance(v.func, ast.Name) and v.func.id == "list" \
                        and len(v.args) == 1 and not v.keywords:
                    v = v.args[0]                     # list(self.a): an equal copy
                attr = _self_attr(v)
                if attr is None:
                    raise Reject("%s.clone: argument %s is not self.<attr> or list(self.<attr>)" % (cls.name, kw.arg))
                kwargs.append((kw.arg, attr))
            continue
        if isinstance(st, ast.Expr) and isinstance(st.value, ast.Call) and isinstance(st.value.func, ast.Attribute) \
                and isinstance(st.value.func.value, ast.Name) and st.value.func.value.id == var \
                and st.value.func.attr == "set_state":
            c = st.value
            if len(c.args) == 1 and not c.keywords and _self_attr(c.args[0]) == "state":
                state_fwd = True
                continue
            raise Reject("%s.clone: set_state with something else than self.state" % cls.name)
        if isinstance(st, ast.Return) and isinstance(st.value, ast.Name) and st.value.id == var:
            returned = True
            continue
        raise Reject("%s.clone: statement kind %s not handled (line %d)" % (cls.name, type(st).__name__, st.lineno))
    if kwargs is None or not returned:
        raise Reject("%s.clone: no `x = %s(...)` ... `return x`" % (cls.name, cls.name))
    names = [k for k, _a in kwargs]
    if len(set(names)) != len(names):
        raise Reject("%s.clone: keyword repeated" % cls.name)
    return kwargs, state_fwd


def _reads(cls: ast.ClassDef, methods: dict):
    """attributes of self read by the objective methods, following self.m() calls inside the class"""
    seen, todo, reads = set(), [m for m in OBJECTIVE_METHODS], []
    for m in OBJECTIVE_METHODS:
        if m not in methods:
            raise Reject("%s: no %s()" % (cls.name, m))
    while todo:
        m = todo.pop()
        if m in seen:
            continue
        seen.add(m)
        for node in ast.walk(methods[m]):
            attr = _self_attr(node)
            if attr is None:
                continue
            if isinstance(node.ctx, ast.Store):
                raise Reject("%s.%s writes self.%s" % (cls.name, m, attr))
            if attr in methods:
                todo.append(attr)
            elif attr not in reads:
                reads.append(attr)
    return sorted(reads)


def read_targets(repo: str):
    files = sorted(glob.glob(os.path.join(repo, "simaple", "optimizer", "*.py")))
    if not files:
        raise Reject("no simaple/optimizer/*.py under %s" % repo)
    out = []
    for path in files:
        tree = ast.parse(open(path, encoding="utf8").read(), filename=path)
        for cls in tree.body:
            if not isinstance(cls, ast.ClassDef):
                continue
            bases = [b.id if isinstance(b, ast.Name) else getattr(b, "attr", "?") for b in cls.bases]
            if BASE not in bases:
                continue
            methods = {f.name: f for f in cls.body if isinstance(f, ast.FunctionDef)}
            if "__init__" not in methods or "clone" not in methods:
                raise Reject("%s: __init__ or clone missing" % cls.name)
            params, assigns = _init_info(cls, methods["__init__"])
            kwargs, state_fwd = _clone_info(cls, methods["clone"])
            reads = _reads(cls, methods)
            assigned = {a for a, _p in assigns}
            for r in reads:
                if r not in assigned and r not in BASE_ATTRS:
                    raise Reject("%s: objective reads self.%s which __init__ does not assign" % (cls.name, r))
                if r in BASE_ATTRS and r != "state":
                    raise Reject("%s: objective reads base attribute self.%s (not modelled)" % (cls.name, r))
            for k, _a in kwargs:
                if k not in params:
                    raise Reject("%s.clone passes unknown keyword %s" % (cls.name, k))
            # the state is a pseudo parameter: assigned by set_state, forwarded by clone's set_state(self.state)
            assigns = assigns + [("state", STATE)]
            params = params + [STATE]
            if state_fwd:
                kwargs = kwargs + [(STATE, "state")]
            out.append({"name": cls.name, "file": os.path.relpath(path, repo), "params": params, "assigns": assigns,
                        "clone_kwargs": kwargs, "reads": reads})
    if not out:
        raise Reject("no subclass of %s found" % BASE)
    return out


def _s(x):
    assert '"' not in x
    return '"%s"' % x


def _pairs(ps):
    return "[" + "; ".join("(%s, %s)" % (_s(a), _s(b)) for a, b in ps) + "]"


def gen(repo="/repo"):
    ts = read_targets(str(repo))
    lines = ["(* GENERATED by tools/tr_fields.py from simaple/optimizer/*.py -- do not edit *)",
             "From Coq Require Import List String.", "From V.Model Require Import GreedyClone.",
             "Import ListNotations.", "Open Scope string_scope.", ""]
    for t in ts:
        lines.append("Definition desc_%s : target_desc := {|" % t["name"])
        lines.append("  t_name := %s;" % _s(t["name"]))
        lines.append("  t_params := [%s];" % "; ".join(_s(p) for p in t["params"]))
        lines.append("  t_assigns := %s;" % _pairs(t["assigns"]))
        lines.append("  t_clone_kwargs := %s;" % _pairs(t["clone_kwargs"]))
        lines.append("  t_reads := [%s] |}." % "; ".join(_s(p) for p in t["reads"]))
        lines.append("")
    lines.append("Definition clone_targets : list target_desc := [%s]." % "; ".join("desc_" + t["name"] for t in ts))
    return {"CloneFields.v": "\n".join(lines) + "\n"}, {"targets": ts}


if __name__ == "__main__":
    import sys
    files, meta = gen(sys.argv[1] if len(sys.argv) > 1 else "/repo")
    print(files["CloneFields.v"])
