"""T-handlers: fail-closed translator  Python `ast` -> Gallina  for simaple/simulate/policy/handlers.py:

    get_next_elapse_time, exec_cast, exec_use, exec_elapse, exec_resolve, exec_keydownstop, get_operation_handlers

-> gen/HandlersSrc.v.  Each handler is a generator function (`events = yield action`); it becomes a value of `gen` (Lib/PyGen.v:
Done | Yield action continuation).  Proofs/HandlersTie.v proves that driving the generated handlers with the engine's loop
(`exec_gen`, the hand-written model of BasicOperationEngine._exec_operation + BehaviorStrategy.__call__) IS `exec_op` of Model/Engine.v -
the definition the theorems of C01, C03, C04 and C06 are about - and that the generated get_next_elapse_time is the model's
`next_elapse`.  So an edit of which action a command plays, in which order, with which payload, on which events RESOLVE looks, or
when CAST stops early changes the generated term and the tie lemma stops compiling - or is outside the accepted language and the
translator rejects the source.

Events and actions are abstract in the engine model; the translator maps the concrete dictionary accesses onto the model's
observers and fails on anything else:
    event["tag"] in (Tag.DELAY,) and event["payload"]["time"] > 0   ->  ev_delay event = Some t  with  tpos t
    [float(] event["payload"]["time"] [)]                            ->  that t
    ev["name"] == op.name                                           ->  name_eqb (ev_name ev) op_name
    dict(name=N, method="use"|"elapse"|"stop", payload=P)           ->  mk_act N MUse|MElapse|MStop P      ("*" -> star)
    t == 0                                                          ->  tis0 t
"""
from __future__ import annotations

import ast
import os

SRC = "simaple/simulate/policy/handlers.py"
METH = {"use": "MUse", "elapse": "MElapse", "stop": "MStop"}
OPS = ["CAST", "USE", "ELAPSE", "KEYDOWNSTOP", "RESOLVE"]          # constructors of Model/Engine.v `op`
OP_ARG = {"CAST": "name", "USE": "name", "ELAPSE": "time", "KEYDOWNSTOP": "name", "RESOLVE": "name"}


class Rejected(Exception):
    pass


def bad(node, why):
    raise Rejected("%s (line %s): %s" % (why, getattr(node, "lineno", "?"), ast.dump(node)[:160]))


def is_sub(e, var, *keys):
    """e is var[k1][k2]..."""
    for k in reversed(keys):
        if not (isinstance(e, ast.Subscript) and isinstance(e.slice, ast.Constant) and e.slice.value == k):
            return False
        e = e.value
    return isinstance(e, ast.Name) and e.id == var


def tr_next_elapse(fn):
    body = [s for s in fn.body if not (isinstance(s, ast.Expr) and isinstance(s.value, ast.Constant))]
    if [a.arg for a in fn.args.args] != ["events"] or len(body) != 2:
        bad(fn, "get_next_elapse_time: signature / number of statements")
    loop, ret = body
    if not (isinstance(loop, ast.For) and isinstance(loop.target, ast.Name) and isinstance(loop.iter, ast.Name) and loop.iter.id == "events"
            and not loop.orelse and len(loop.body) == 1 and isinstance(loop.body[0], ast.If) and not loop.body[0].orelse
            and len(loop.body[0].body) == 1 and isinstance(loop.body[0].body[0], ast.Return)):
        bad(loop, "get_next_elapse_time: loop is not `for event in events: if t: return r`")
    ev = loop.target.id
    t = loop.body[0].test
    if not (isinstance(t, ast.BoolOp) and isinstance(t.op, ast.And) and len(t.values) == 2):
        bad(t, "get_next_elapse_time: guard is not `a and b`")
    a, b = t.values
    if not (isinstance(a, ast.Compare) and len(a.ops) == 1 and isinstance(a.ops[0], ast.In) and is_sub(a.left, ev, "tag")
            and isinstance(a.comparators[0], ast.Tuple) and [ast.unparse(x) for x in a.comparators[0].elts] == ["Tag.DELAY"]):
        bad(a, "get_next_elapse_time: first conjunct is not `event['tag'] in (Tag.DELAY,)`")
    if not (isinstance(b, ast.Compare) and len(b.ops) == 1 and isinstance(b.ops[0], ast.Gt) and is_sub(b.left, ev, "payload", "time")
            and isinstance(b.comparators[0], ast.Constant) and b.comparators[0].value == 0 and type(b.comparators[0].value) in (int, float)):
        bad(b, "get_next_elapse_time: second conjunct is not `event['payload']['time'] > 0`")
    r = loop.body[0].body[0].value
    if isinstance(r, ast.Call) and isinstance(r.func, ast.Name) and r.func.id == "float" and len(r.args) == 1 and not r.keywords:
        r = r.args[0]
    if not is_sub(r, ev, "payload", "time"):
        bad(loop.body[0].body[0], "get_next_elapse_time: returns something else than the delay's time")
    if not (isinstance(ret, ast.Return) and isinstance(ret.value, ast.Constant) and ret.value.value == 0
            and type(ret.value.value) in (int, float)):
        bad(ret, "get_next_elapse_time: default is not 0")
    return ("Definition src_get_next_elapse_time (events : list Ev) : T :=\n"
            "  for_first (fun %s => match ev_delay %s with Some t => if tpos t then Some t else None | None => None end) events tzero."
            % (ev, ev))


class Handler:
    def __init__(self, fn):
        self.fn = fn
        self.n = 0
        a = [x.arg for x in fn.args.args]
        if len(a) != 2 or fn.args.vararg or fn.args.kwarg or fn.args.kwonlyargs:
            bad(fn, "handler signature")
        self.op, self.ev0 = a
        decs = [ast.unparse(d) for d in fn.decorator_list]
        if decs != ["BehaviorStrategy.operation_handler"]:
            bad(fn, "handler decorators %r" % decs)

    def name_expr(self, e, env):
        if isinstance(e, ast.Attribute) and isinstance(e.value, ast.Name) and e.value.id == self.op and e.attr == "name":
            return "op_name"
        if isinstance(e, ast.Name) and env.get(e.id, (None,))[0] == "name":
            return env[e.id][1]
        if isinstance(e, ast.Constant) and e.value == "*":
            return "star"
        bad(e, "action name outside the language")

    def payload_expr(self, e, env):
        if isinstance(e, ast.Constant) and e.value is None:
            return "None"
        if isinstance(e, ast.Attribute) and isinstance(e.value, ast.Name) and e.value.id == self.op and e.attr == "time":
            return "(Some op_time)"
        if isinstance(e, ast.Name) and env.get(e.id, (None,))[0] == "time":
            return "(Some %s)" % env[e.id][1]
        bad(e, "action payload outside the language")

    def action(self, e, env):
        if isinstance(e, ast.Name) and env.get(e.id, (None,))[0] == "action":
            return env[e.id][1]
        if isinstance(e, ast.Call) and isinstance(e.func, ast.Name) and e.func.id == "dict" and not e.args:
            kw = {k.arg: k.value for k in e.keywords}
            if sorted(kw) != ["method", "name", "payload"]:
                bad(e, "action keys %r" % sorted(kw))
            m = kw["method"]
            if not (isinstance(m, ast.Constant) and m.value in METH):
                bad(m, "action method")
            return "(mk_act %s %s %s)" % (self.name_expr(kw["name"], env), METH[m.value], self.payload_expr(kw["payload"], env))
        bad(e, "action outside the language")

    def events_expr(self, e, env):
        if isinstance(e, ast.Name) and env.get(e.id, (None,))[0] == "events":
            return env[e.id][1]
        if isinstance(e, ast.ListComp) and len(e.generators) == 1:
            g = e.generators[0]
            if isinstance(g.target, ast.Name) and isinstance(e.elt, ast.Name) and e.elt.id == g.target.id and len(g.ifs) == 1 and not g.is_async:
                src = self.events_expr(g.iter, env)
                c = g.ifs[0]
                if isinstance(c, ast.Compare) and len(c.ops) == 1 and isinstance(c.ops[0], ast.Eq) and is_sub(c.left, g.target.id, "name"):
                    n = self.name_expr(c.comparators[0], env)
                    return "(filter (fun %s => name_eqb (ev_name %s) %s) %s)" % (g.target.id, g.target.id, n, src)
        bad(e, "event list outside the language")

    def block(self, stmts, env):
        if not stmts:
            return "Done"
        s, rest = stmts[0], stmts[1:]
        if isinstance(s, ast.Return) and s.value is None:
            return "Done"
        # x = yield A   |   _ = yield A   |   yield A
        y, tgt = None, None
        if isinstance(s, ast.Assign) and len(s.targets) == 1 and isinstance(s.targets[0], ast.Name) and isinstance(s.value, ast.Yield):
            y, tgt = s.value, s.targets[0].id
        elif isinstance(s, ast.Expr) and isinstance(s.value, ast.Yield):
            y = s.value
        if y is not None:
            if y.value is None:
                bad(s, "bare yield")
            a = self.action(y.value, env)
            self.n += 1
            b = tgt if tgt and tgt != "_" else "_sent%d" % self.n
            env2 = dict(env)
            env2[b] = ("events", b)
            if tgt == self.ev0:      # the parameter is rebound
                env2[self.ev0] = ("events", b)
            return "(Yield %s (fun %s => %s))" % (a, b, self.block(rest, env2))
        if isinstance(s, ast.Assign) and len(s.targets) == 1 and isinstance(s.targets[0], ast.Name):
            x, v = s.targets[0].id, s.value
            if isinstance(v, ast.Attribute) and isinstance(v.value, ast.Name) and v.value.id == self.op and v.attr == "name":
                return self.block(rest, dict(env, **{x: ("name", "op_name")}))
            if isinstance(v, ast.Call) and isinstance(v.func, ast.Name) and v.func.id == "dict":
                return self.block(rest, dict(env, **{x: ("action", self.action(v, env))}))
            if isinstance(v, ast.Call) and isinstance(v.func, ast.Name) and v.func.id == "get_next_elapse_time" and len(v.args) == 1 \
                    and not v.keywords:
                return "(let %s := src_get_next_elapse_time %s in %s)" % (x, self.events_expr(v.args[0], env),
                                                                         self.block(rest, dict(env, **{x: ("time", x)})))
            bad(s, "assignment outside the language")
        if isinstance(s, ast.If) and not s.orelse and len(s.body) == 1 and isinstance(s.body[0], ast.Return) and s.body[0].value is None:
            t = s.test
            if isinstance(t, ast.Compare) and len(t.ops) == 1 and isinstance(t.ops[0], ast.Eq) and isinstance(t.left, ast.Name) \
                    and env.get(t.left.id, (None,))[0] == "time" and isinstance(t.comparators[0], ast.Constant) \
                    and t.comparators[0].value == 0 and type(t.comparators[0].value) in (int, float):
                return "(if tis0 %s then Done else %s)" % (env[t.left.id][1], self.block(rest, env))
            bad(s, "early return outside the language")
        bad(s, "statement outside the language")

    def coq(self):
        body = [s for s in self.fn.body if not (isinstance(s, ast.Expr) and isinstance(s.value, ast.Constant))]
        t = self.block(body, {self.ev0: ("events", self.ev0)})
        return "Definition src_%s (op_name : Name) (op_time : T) (%s : list Ev) : gen Ev Act :=\n  %s." % (self.fn.name, self.ev0, t)


def gen(repo):
    tree = ast.parse(open(os.path.join(str(repo), SRC), encoding="utf-8").read())
    fns = {n.name: n for n in tree.body if isinstance(n, ast.FunctionDef)}
    if "get_next_elapse_time" not in fns or "get_operation_handlers" not in fns:
        raise Rejected("get_next_elapse_time / get_operation_handlers not found in %s" % SRC)
    out = [tr_next_elapse(fns["get_next_elapse_time"])]
    # the table
    tb = [s for s in fns["get_operation_handlers"].body if not (isinstance(s, ast.Expr) and isinstance(s.value, ast.Constant))]
    if not (len(tb) == 1 and isinstance(tb[0], ast.Return) and isinstance(tb[0].value, ast.Dict)
            and all(isinstance(k, ast.Constant) and isinstance(v, ast.Name) for k, v in zip(tb[0].value.keys, tb[0].value.values))):
        bad(fns["get_operation_handlers"], "get_operation_handlers is not `return {<str>: <function>, ...}`")
    table = {k.value: v.id for k, v in zip(tb[0].value.keys, tb[0].value.values)}
    if sorted(table) != sorted(OPS):
        raise Rejected("operation table has commands %r, the engine model has %r" % (sorted(table), sorted(OPS)))
    done = set()
    for cmd in OPS:
        f = table[cmd]
        if f not in fns:
            raise Rejected("handler %s not found" % f)
        if f not in done:
            out.append(Handler(fns[f]).coq())
            done.add(f)
    arms = []
    for cmd in OPS:
        if OP_ARG[cmd] == "name":
            arms.append("  | %s _ _ n => src_%s n tzero events" % (cmd, table[cmd]))
        else:
            arms.append("  | %s _ _ t => src_%s star t events" % (cmd, table[cmd]))
    out.append("(* get_operation_handlers()[op.command](op), first called with the buffered events *)\n"
               "Definition src_handler (o : op T Name) (events : list Ev) : gen Ev Act :=\n  match o with\n%s\n  end." % "\n".join(arms))
    return {"HandlersSrc.v": HEADER + "\n\n".join(out) + "\n\nEnd HandlersSrc.\n"}, \
        {"functions": ["get_next_elapse_time"] + sorted(done) + ["get_operation_handlers"], "table": table, "source": SRC}


HEADER = """(* GENERATED by tools/tr_handlers.py from simaple/simulate/policy/handlers.py - do not edit *)
From Coq Require Import List.
Import ListNotations.
From V Require Import Lib.PyGen Model.Engine.

Section HandlersSrc.
  Variables Ev Act T Name : Type.
  Variable mk_act : Name -> meth -> option T -> Act.
  Variable star : Name.                              (* "*" *)
  Variable ev_name : Ev -> Name.
  Variable ev_delay : Ev -> option T.                (* Some t iff the tag is global.delay, t = payload time *)
  Variable name_eqb : Name -> Name -> bool.
  Variable tzero : T.
  Variable tpos : T -> bool.                         (* t > 0 *)
  Variable tis0 : T -> bool.                         (* t == 0 *)

"""

if __name__ == "__main__":
    import sys
    files, meta = gen(sys.argv[1] if len(sys.argv) > 1 else "/repo")
    print(files["HandlersSrc.v"])
