"""T-hint: fail-closed translator  Python `ast` -> Gallina  for the incremental runner

    simaple/api/base.py                 run_plan_with_hint  (same-metadata path), pieces of _extract_engine_history_as_response
    simaple/api/models/simulation.py    PlayLogResponse.contains_chekcpoint, OperationLogResponse.contains_chekcpoint

-> gen/HintSrc.v.  Proofs/HintTie.v proves the generated `src_run_plan_with_hint` equal to `run_hint` of Model/Engine.v - the function
the C04 theorems are about: the prefix-matching loop (`for .. enumerate` with `break` / `continue`) equals `common`, the step-back
`while` equals `stepback`, the slices are `firstn (S k)` / `skipn k`.

Accepted language (anything else raises Rejected):
  expressions  locals | int constants | len(e) | e[i] | e[:k] | e[k:] | e.command | e.logs | e.checkpoint | e.contains_chekcpoint()
               | a + b | a - b | a <= b | a < b | a > b | a == b | a != b | a or b | a and b | not a | e is not None
               | all(f(x) for x in e)
  prefix loop  for idx, c in enumerate(e):  with body statements  `if t: break` | `x = e` | `if t: n += 1; continue` | `break`
  step back    while t: n -= 1
  the rest of run_plan_with_hint is compared with a reviewed shape (parsing, environment, the different-metadata branch, reload of the
  restored prefix, execution of the remaining commands, extraction from cache_count + 1, concatenation), from which the slices are read.
"""
from __future__ import annotations

import ast
import os

API = "simaple/api/base.py"
MODELS = "simaple/api/models/simulation.py"

CMDS, RESPS, RPLOGS, CMD, RESP, RPLOG, INT, BOOL, OCK = "cmds", "resps", "rplogs", "cmd", "resp", "rplog", "int", "bool", "ock"
ELEM = {CMDS: CMD, RESPS: RESP, RPLOGS: RPLOG}


class Rejected(Exception):
    pass


def bad(node, why):
    raise Rejected("%s (line %s): %s" % (why, getattr(node, "lineno", "?"), ast.dump(node)[:160]))


def body_of(fn):
    return [s for s in fn.body if not (isinstance(s, ast.Expr) and isinstance(s.value, ast.Constant) and isinstance(s.value.value, str))]


class Tr:
    def __init__(self):
        self.n = 0

    def fresh(self, b="v"):
        self.n += 1
        return "%s%d" % (b, self.n)

    def expr(self, e, env):
        """-> (term : option tau, type)"""
        if isinstance(e, ast.Name):
            if e.id in env:
                return "(Some %s)" % env[e.id][0], env[e.id][1]
            bad(e, "unknown name")
        if isinstance(e, ast.Constant) and type(e.value) is int:
            return "(Some (%d)%%Z)" % e.value, INT
        if isinstance(e, ast.Attribute):
            t, ty = self.expr(e.value, env)
            f = {(RESP, "command"): ("rcmd_", CMD), (RESP, "logs"): ("rpl_", RPLOGS), (RPLOG, "checkpoint"): ("rck_", OCK)}.get((ty, e.attr))
            if f:
                v = self.fresh()
                return "(bind %s (fun %s => Some (%s %s)))" % (t, v, f[0], v), f[1]
            bad(e, "field %s of a %s" % (e.attr, ty))
        if isinstance(e, ast.Call):
            if isinstance(e.func, ast.Attribute) and e.func.attr == "contains_chekcpoint" and not e.args and not e.keywords:
                t, ty = self.expr(e.func.value, env)
                f = {RESP: "src_contains_checkpoint", RPLOG: "src_plog_contains_checkpoint"}.get(ty)
                if f:
                    v = self.fresh()
                    return "(bind %s (fun %s => Some (%s %s)))" % (t, v, f, v), BOOL
            if isinstance(e.func, ast.Name) and e.func.id == "len" and len(e.args) == 1 and not e.keywords:
                t, ty = self.expr(e.args[0], env)
                if ty in ELEM:
                    v = self.fresh()
                    return "(bind %s (fun %s => Some (py_len %s)))" % (t, v, v), INT
            if isinstance(e.func, ast.Name) and e.func.id == "all" and len(e.args) == 1 and isinstance(e.args[0], ast.GeneratorExp) \
                    and len(e.args[0].generators) == 1 and not e.args[0].generators[0].ifs and isinstance(e.args[0].generators[0].target, ast.Name):
                g = e.args[0].generators[0]
                xs, ty = self.expr(g.iter, env)
                if ty in ELEM:
                    x = g.target.id
                    b, bt = self.expr(e.args[0].elt, dict(env, **{x: (x, ELEM[ty])}))
                    if bt == BOOL:
                        v = self.fresh()
                        # the element test is total here (no indexing inside): None cannot occur, mapped to false
                        return "(bind %s (fun %s => Some (forallb (fun %s => match %s with Some b => b | None => false end) %s)))" % (xs, v, x, b, v), BOOL
            bad(e, "call outside the language")
        if isinstance(e, ast.Subscript):
            t, ty = self.expr(e.value, env)
            if ty not in ELEM:
                bad(e, "subscript of a %s" % ty)
            s = e.slice
            if isinstance(s, ast.Slice) and s.step is None and (s.lower is None) != (s.upper is None):
                k, kt = self.expr(s.upper if s.lower is None else s.lower, env)
                if kt != INT:
                    bad(e, "slice bound")
                v, w = self.fresh(), self.fresh()
                return "(bind %s (fun %s => bind %s (fun %s => Some (%s %s %s))))" % (
                    t, v, k, w, "py_slice_to" if s.lower is None else "py_slice_from", v, w), ty
            if not isinstance(s, ast.Slice):
                i, it = self.expr(s, env)
                if it == INT:
                    v, w = self.fresh(), self.fresh()
                    return "(bind %s (fun %s => bind %s (fun %s => py_index %s %s)))" % (t, v, i, w, v, w), ELEM[ty]
            bad(e, "subscript outside the language")
        if isinstance(e, ast.BinOp) and isinstance(e.op, (ast.Add, ast.Sub)):
            a, ta = self.expr(e.left, env)
            b, tb = self.expr(e.right, env)
            if ta == tb == INT:
                v, w = self.fresh(), self.fresh()
                return "(bind %s (fun %s => bind %s (fun %s => Some (%s %s %s)%%Z)))" % (a, v, b, w, v, "+" if isinstance(e.op, ast.Add) else "-", w), INT
            if ta == tb and ta in ELEM and isinstance(e.op, ast.Add):
                v, w = self.fresh(), self.fresh()
                return "(bind %s (fun %s => bind %s (fun %s => Some (%s ++ %s))))" % (a, v, b, w, v, w), ta
            bad(e, "arithmetic outside the language")
        if isinstance(e, ast.Compare) and len(e.ops) == 1:
            op = e.ops[0]
            if isinstance(op, ast.IsNot) and isinstance(e.comparators[0], ast.Constant) and e.comparators[0].value is None:
                a, ta = self.expr(e.left, env)
                if ta == OCK:
                    v = self.fresh()
                    return "(bind %s (fun %s => Some (match %s with Some _ => true | None => false end)))" % (a, v, v), BOOL
                bad(e, "`is not None` on a %s" % ta)
            a, ta = self.expr(e.left, env)
            b, tb = self.expr(e.comparators[0], env)
            v, w = self.fresh(), self.fresh()
            if ta == tb == INT and isinstance(op, (ast.LtE, ast.Lt, ast.Gt, ast.Eq)):
                f = {ast.LtE: "(%s <=? %s)%%Z", ast.Lt: "(%s <? %s)%%Z", ast.Gt: "(%s <? %s)%%Z", ast.Eq: "(%s =? %s)%%Z"}[type(op)]
                x, y = (w, v) if isinstance(op, ast.Gt) else (v, w)
                return "(bind %s (fun %s => bind %s (fun %s => Some %s)))" % (a, v, b, w, f % (x, y)), BOOL
            if ta == tb == CMD and isinstance(op, (ast.Eq, ast.NotEq)):
                f = "cmd_eqb %s %s" if isinstance(op, ast.Eq) else "negb (cmd_eqb %s %s)"
                return "(bind %s (fun %s => bind %s (fun %s => Some (%s))))" % (a, v, b, w, f % (v, w)), BOOL
            bad(e, "comparison outside the language")
        if isinstance(e, ast.BoolOp) and len(e.values) == 2:
            a, ta = self.expr(e.values[0], env)
            b, tb = self.expr(e.values[1], env)
            if ta == tb == BOOL:
                v = self.fresh("c")
                if isinstance(e.op, ast.Or):
                    return "(bind %s (fun %s => if %s then Some true else %s))" % (a, v, v, b), BOOL
                return "(bind %s (fun %s => if %s then %s else Some false))" % (a, v, v, b), BOOL
            bad(e, "boolean operator on non-booleans")
        if isinstance(e, ast.UnaryOp) and isinstance(e.op, ast.Not):
            a, ta = self.expr(e.operand, env)
            if ta == BOOL:
                v = self.fresh()
                return "(bind %s (fun %s => Some (negb %s)))" % (a, v, v), BOOL
        bad(e, "expression outside the language")

    def loop_body(self, stmts, env, cnt):
        """-> term : option (Z * bool)   (new counter, go on?)"""
        if not stmts:
            return "Some (%s, true)" % env[cnt][0]
        s, rest = stmts[0], stmts[1:]
        if isinstance(s, ast.Break):
            return "Some (%s, false)" % env[cnt][0]
        if isinstance(s, ast.Assign) and len(s.targets) == 1 and isinstance(s.targets[0], ast.Name) and s.targets[0].id != cnt:
            t, ty = self.expr(s.value, env)
            x = s.targets[0].id
            return "(bind %s (fun %s => %s))" % (t, x, self.loop_body(rest, dict(env, **{x: (x, ty)}), cnt))
        if isinstance(s, ast.If) and not s.orelse:
            c, ct = self.expr(s.test, env)
            if ct != BOOL:
                bad(s, "loop test is not a boolean")
            v = self.fresh("c")
            if len(s.body) == 1 and isinstance(s.body[0], ast.Break):
                return "(bind %s (fun %s => if %s then Some (%s, false) else %s))" % (c, v, v, env[cnt][0], self.loop_body(rest, env, cnt))
            if len(s.body) == 2 and isinstance(s.body[0], ast.AugAssign) and isinstance(s.body[0].op, ast.Add) \
                    and ast.unparse(s.body[0].target) == cnt and isinstance(s.body[0].value, ast.Constant) and type(s.body[0].value.value) is int \
                    and isinstance(s.body[1], ast.Continue):
                return "(bind %s (fun %s => if %s then Some ((%s + %d)%%Z, true) else %s))" % (
                    c, v, v, env[cnt][0], s.body[0].value.value, self.loop_body(rest, env, cnt))
        bad(s, "loop statement outside the language")


def find_class(tree, name):
    for n in tree.body:
        if isinstance(n, ast.ClassDef) and n.name == name:
            return n
    raise Rejected("class %s not found" % name)


def method(cls, name):
    for n in cls.body:
        if isinstance(n, ast.FunctionDef) and n.name == name:
            return n
    raise Rejected("method %s.%s not found" % (cls.name, name))


REVIEWED_HEAD = '''
(previous_plan_metadata_dict, previous_commands) = parse_simaple_runtime(previous_plan.strip())
(plan_metadata_dict, commands) = parse_simaple_runtime(plan.strip())
plan_metadata = PlanMetadata.model_validate(plan_metadata_dict)
environment = plan_metadata.get_environment()
engine = get_operation_engine(environment)
if plan_metadata_dict != previous_plan_metadata_dict:
    for command in commands:
        engine.exec(command)
    return _extract_engine_history_as_response(engine, get_damage_calculator(environment))
'''


def gen(repo):
    api = ast.parse(open(os.path.join(str(repo), API), encoding="utf-8").read())
    mod = ast.parse(open(os.path.join(str(repo), MODELS), encoding="utf-8").read())
    out = []
    # ---- contains_chekcpoint, twice
    tr = Tr()
    fn = method(find_class(mod, "PlayLogResponse"), "contains_chekcpoint")
    b = body_of(fn)
    if not (len(b) == 1 and isinstance(b[0], ast.Return)):
        bad(fn, "PlayLogResponse.contains_chekcpoint")
    t, ty = tr.expr(b[0].value, {"self": ("self", RPLOG)})
    out.append("Definition src_plog_contains_checkpoint (self : rplog_) : bool :=\n  match %s with Some b => b | None => false end." % t)
    fn = method(find_class(mod, "OperationLogResponse"), "contains_chekcpoint")
    b = body_of(fn)
    if not (len(b) == 1 and isinstance(b[0], ast.Return)):
        bad(fn, "OperationLogResponse.contains_chekcpoint")
    t, ty = tr.expr(b[0].value, {"self": ("self", RESP)})
    out.append("Definition src_contains_checkpoint (self : resp_) : bool :=\n  match %s with Some b => b | None => false end." % t)

    # ---- the extraction: only what the hint logic depends on
    fns = {n.name: n for n in api.body if isinstance(n, ast.FunctionDef)}
    for f in ("run_plan_with_hint", "_extract_engine_history_as_response"):
        if f not in fns:
            raise Rejected("%s not found in %s" % (f, API))
    ex = fns["_extract_engine_history_as_response"]
    a = ex.args
    if [x.arg for x in a.args] != ["engine", "damage_calculator", "start", "checkpoint_interval"] or [ast.unparse(d) for d in a.defaults] != ["0", "10"]:
        bad(ex, "_extract_engine_history_as_response: signature / defaults (start=0, checkpoint_interval=10)")
    src = ast.unparse(ex)
    for piece in ("for idx, operation_log in enumerate(engine.operation_logs()):", "if idx < start:\n            continue",
                  "checkpoint=playlog.checkpoint if idx % checkpoint_interval == 0 else None",
                  "OperationLogResponse(index=idx, logs=playlog_responses, hash=operation_log.hash, previous_hash=operation_log.previous_hash, "
                  "command=operation_log.command, description=operation_log.description)"):
        if piece not in src:
            raise Rejected("_extract_engine_history_as_response: reviewed piece `%s` not found" % piece)

    # ---- run_plan_with_hint
    fn = fns["run_plan_with_hint"]
    if [x.arg for x in fn.args.args] != ["previous_plan", "previous_history", "plan"]:
        bad(fn, "run_plan_with_hint signature")
    b = body_of(fn)
    head = ast.parse(REVIEWED_HEAD).body
    if len(b) != len(head) + 8:
        bad(fn, "run_plan_with_hint has %d statements, expected %d" % (len(b), len(head) + 8))
    for got, want in zip(b, head):
        if ast.dump(got) != ast.dump(want):
            bad(got, "run_plan_with_hint: statement differs from the reviewed shape `%s`" % ast.unparse(want).split("\n")[0])
    s_hfm, s_cnt, s_for, s_while, s_reload, s_exec, s_new, s_ret = b[len(head):]
    env = {"previous_commands": ("previous_commands", CMDS), "commands": ("commands", CMDS), "previous_history": ("previous_history", RESPS)}
    tr = Tr()
    if not (isinstance(s_hfm, ast.Assign) and isinstance(s_hfm.targets[0], ast.Name)):
        bad(s_hfm, "history_for_matching")
    hfm, ty = tr.expr(s_hfm.value, env)
    if ty != RESPS:
        bad(s_hfm, "history_for_matching is a %s" % ty)
    hname = s_hfm.targets[0].id
    if not (isinstance(s_cnt, ast.AnnAssign) and isinstance(s_cnt.target, ast.Name) and isinstance(s_cnt.value, ast.Constant)
            and type(s_cnt.value.value) is int):
        bad(s_cnt, "cache_count initialisation")
    cnt, cnt0 = s_cnt.target.id, s_cnt.value.value
    if not (isinstance(s_for, ast.For) and not s_for.orelse and isinstance(s_for.iter, ast.Call) and ast.unparse(s_for.iter.func) == "enumerate"
            and len(s_for.iter.args) == 1 and isinstance(s_for.target, ast.Tuple) and len(s_for.target.elts) == 2
            and all(isinstance(x, ast.Name) for x in s_for.target.elts)):
        bad(s_for, "prefix loop header")
    xs, ty = tr.expr(s_for.iter.args[0], env)
    if ty != CMDS:
        bad(s_for, "prefix loop iterates a %s" % ty)
    i, c = s_for.target.elts[0].id, s_for.target.elts[1].id
    env_loop = dict(env, **{hname: (hname, RESPS), i: (i, INT), c: (c, CMD), cnt: (cnt, INT)})
    body = tr.loop_body(s_for.body, env_loop, cnt)
    out.append("(* one round of the prefix-matching loop: (new counter, go on?) *)\n"
               "Definition src_cache_count_body (previous_commands commands : list cmd_) (previous_history %s : list resp_) (item : Z * cmd_) (%s : Z)"
               " : option (Z * bool) :=\n  let '(%s, %s) := item in\n  %s." % (hname, cnt, i, c, body))
    out.append("(* the prefix-matching loop: the number of leading commands whose logs may be reused *)\n"
               "Definition src_cache_count (previous_commands commands : list cmd_) (previous_history : list resp_) : option Z :=\n"
               "  bind %s (fun %s => bind %s (fun xs => py_for_state (src_cache_count_body previous_commands commands previous_history %s) "
               "(py_enumerate xs) (%d)%%Z))." % (hfm, hname, xs, hname, cnt0))
    # while t: cnt -= 1
    if not (isinstance(s_while, ast.While) and not s_while.orelse and len(s_while.body) == 1 and isinstance(s_while.body[0], ast.AugAssign)
            and isinstance(s_while.body[0].op, ast.Sub) and ast.unparse(s_while.body[0].target) == cnt
            and isinstance(s_while.body[0].value, ast.Constant) and type(s_while.body[0].value.value) is int):
        bad(s_while, "step-back loop")
    t, ty = tr.expr(s_while.test, dict(env, **{cnt: (cnt, INT)}))
    if ty != BOOL:
        bad(s_while, "step-back test")
    out.append("Definition src_step_back_test (previous_history : list resp_) (%s : Z) : option bool :=\n  %s." % (cnt, t))
    out.append("(* step back to the latest log that carries checkpoints *)\n"
               "Definition src_step_back (previous_history : list resp_) (%s0 : Z) : option Z :=\n"
               "  py_while (S (Z.to_nat %s0)) (src_step_back_test previous_history) (fun %s => (%s - %d)%%Z) %s0."
               % (cnt, cnt, cnt, cnt, s_while.body[0].value.value, cnt))
    # the tail: reload / exec / extract / return
    want = ast.parse(
        "engine.reload([operation_log_response.restore_operation_log() for operation_log_response in previous_history[:cache_count + 1]])\n"
        "for command in commands[cache_count:]:\n    engine.exec(command)\n"
        "new_operation_logs = _extract_engine_history_as_response(engine, get_damage_calculator(environment), start=cache_count + 1)\n"
        "return previous_history[:cache_count + 1] + new_operation_logs\n".replace("cache_count", cnt)).body
    for got, w in zip((s_reload, s_exec, s_new, s_ret), want):
        if ast.dump(got) != ast.dump(w):
            bad(got, "run_plan_with_hint: statement differs from the reviewed shape `%s`" % ast.unparse(w).split("\n")[0])
    envk = dict(env, **{cnt: (cnt, INT)})
    kept, _ = tr.expr(s_reload.args[0].generators[0].iter if False else s_reload.value.args[0].generators[0].iter, envk)
    rest, _ = tr.expr(s_exec.iter, envk)
    start, _ = tr.expr(s_new.value.keywords[0].value, envk)
    ret_prefix, _ = tr.expr(s_ret.value.left, envk)
    out.append("Definition src_run_plan_with_hint (previous_commands : list cmd_) (previous_history : list resp_) (commands : list cmd_)"
               " : option (list resp_) :=\n"
               "  bind (src_cache_count previous_commands commands previous_history) (fun c0 =>\n"
               "  bind (src_step_back previous_history c0) (fun %s =>\n"
               "  bind %s (fun kept => bind %s (fun rest => bind %s (fun start => bind %s (fun prefix =>\n"
               "  match run_ (reload_ (map restore_log_ kept)) rest with\n"
               "  | Some e' => Some (prefix ++ extract_ e' (Z.to_nat start))\n"
               "  | None => None\n"
               "  end))))))." % (cnt, kept, rest, start, ret_prefix))
    return {"HintSrc.v": HEADER + "\n\n".join(out) + "\n\nEnd HintSrc.\n"}, \
        {"functions": ["run_plan_with_hint", "_extract_engine_history_as_response (reviewed pieces)", "PlayLogResponse.contains_chekcpoint",
                       "OperationLogResponse.contains_chekcpoint"], "sources": [API, MODELS]}


HEADER = """(* GENERATED by tools/tr_hint.py from simaple/api/base.py and simaple/api/models/simulation.py - do not edit *)
From Coq Require Import List ZArith Bool.
Import ListNotations.
From V Require Import Lib.PyHist Model.Engine.

Section HintSrc.
  Variables St Ev Act Ck H T D Name : Type.
  Variable play : St -> Act -> St * list Ev.
  Variable save : St -> Ck.
  Variable restore : Ck -> St.
  Variable clock : St -> T.
  Variable inspect : Name -> St -> D.
  Variable mk_act : Name -> meth -> option T -> Act.
  Variable star : Name.
  Variable ev_name : Ev -> Name.
  Variable ev_delay : Ev -> option T.
  Variable name_eqb : Name -> Name -> bool.
  Variable tzero : T.
  Variables tpos tis0 : T -> bool.
  Variable H0 : H.
  Variable hashf : H -> cmd T Name -> list (T * Act * list Ev) -> H.
  Variable V : Type.
  Variable view : St -> V.
  Variable dummy : Ck.
  Variable cmd_eqb : cmd T Name -> cmd T Name -> bool.
  Notation cmd_ := (cmd T Name).
  Notation resp_ := (resp Ev Act Ck H T D Name V).
  Notation rplog_ := (rplog Ev Act Ck T V).
  Notation rcmd_ := (rcmd Ev Act Ck H T D Name V).
  Notation rpl_ := (rpl Ev Act Ck H T D Name V).
  Notation rck_ := (rck Ev Act Ck T V).
  Notation restore_log_ := (restore_log Ev Act Ck H T D Name V dummy).
  Notation extract_ := (extract St Ev Act Ck H T D Name restore hashf V view).
  Notation reload_ := (reload St Ev Act Ck H T D Name).
  Notation run_ := (run St Ev Act Ck H T D Name play save restore clock inspect mk_act star ev_name ev_delay name_eqb tzero tpos tis0 H0 hashf).

"""

if __name__ == "__main__":
    import sys
    files, meta = gen(sys.argv[1] if len(sys.argv) > 1 else "/repo")
    print(files["HintSrc.v"])
