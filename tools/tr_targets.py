"""T-targets: regenerate gen/Targets.v -- the REAL objectives of the four step-wise optimizer targets (C19).

Two halves, both fail closed (anything outside the recognised subset raises `Reject`; nothing is guessed):

* RUN (a fresh interpreter with PYTHONPATH=<repo>): the data tables are obtained by running the tree's own
  loaders -- `get_hyperstat_lists()`, `get_empty_hyperstat_levels()` (data/system/hyperstat.py),
  `get_all_blocks()` (data/system/union_block.py), `get_all_linkskills()` (data/system/link.py),
  `get_union_occupation_values()` (system/union.py) -- and dumped as exact decimal rationals over the generated
  `Stat` / `ActionStat` records of gen/CoreQ.v (field order read from simaple/core/base.py with `ast` and
  checked by Coq through named-field constructors `S_` / `A_`).
* AST (statement by statement): everything the targets compute themselves --
  system/hyperstat.py  Hyperstat.get_maximum_cost_from_level / length / get_cost_for_level / get_current_cost /
                       get_stat / get_level_rearranged
  system/union.py      UnionBlock.get_stat, UnionSquad.length / get_index / get_masked / get_stat,
                       UnionOccupation.length / get_occupation_rearranged / get_stat, the two literal state lists
  system/link.py       LinkSkill.get_stat / get_max_level, LinkSkillset.length / get_index / get_masked / get_stat
  optimizer/optimizer.py DiscreteTarget.__init__ / set_state (through each subclass)
  optimizer/{hyperstat,union,union_occupation,link}_optimizer.py  __init__ (state length, maximum step, preset
                       state), get_value, get_cost and their helpers
  data/system/*.py     _HYPERSTAT_COST, get_hyperstat_cost, get_kms_hyperstat, create_with_some_large_blocks,
                       get_maximum_level, get_kms_link_skill_set (the loaders above appear in them as named tables)
  into Gallina over the run-time library Model/TargetsRt.v (Python ints = Z, floats = Q, an exception = None,
  a dict = its insertion-ordered pair list).  A damage logic object is the function
  `fun stat armor => logic.get_damage_factor(stat, armor)`; `x.model_copy()` of a Stat is `x`.

`gen(repo) -> ({"Targets.v": text}, meta)`; meta describes every record / definition for the harness.
"""
from __future__ import annotations

import ast
import json
import os
import subprocess
import sys
from decimal import Decimal
from fractions import Fraction


class Reject(Exception):
    pass


class NeedMonadic(Exception):
    """internal: a pure rendering was attempted for code that can raise"""


def rej(node, msg):
    raise Reject("line %s: %s: %s" % (getattr(node, "lineno", "?"), msg,
                                      (ast.unparse(node) if isinstance(node, ast.AST) else str(node))[:160]))


# ------------------------------------------------------------------------------------------------ types
Z, Q, B, S = "Z", "Q", "bool", "string"
STAT, ASTAT, LOGIC = "Stat", "ActionStat", "logic"


def tlist(t):
    return ("list", t)


def tpair(a, b):
    return ("pair", a, b)


def trec(n):
    return ("rec", n)


def tdict(k, v):
    return ("dict", k, v)


def cty(t) -> str:
    if t in (Z, Q, B, S, STAT, ASTAT):
        return t
    if t == LOGIC:
        return "(Stat -> Q -> Q)"
    if t[0] == "list":
        return "(list %s)" % cty(t[1])
    if t[0] == "pair":
        return "(%s * %s)" % (cty(t[1]), cty(t[2]))
    if t[0] == "rec":
        return t[1]
    if t[0] == "dict":
        return "(py_dict %s %s)" % (cty(t[1]), cty(t[2]))
    if t[0] == "tuple":
        return "(" + " * ".join(cty(x) for x in t[1]) + ")"
    raise Reject("no Coq type for %r" % (t,))


RESERVED = {"option", "list", "nat", "fun", "match", "end", "in", "as", "at", "if", "then", "else", "let", "fix",
            "cofix", "forall", "exists", "return", "with", "Type", "Set", "Prop", "struct", "where", "for", "using",
            "bool", "string", "Some", "None", "fst", "snd", "map", "filter", "combine", "length", "Stat", "Q", "Z",
            "true", "false", "cons", "nil", "pair", "sum", "prod"}


def cname(py: str) -> str:
    return py + "_" if py in RESERVED else py


def zlit(n: int) -> str:
    return "(%d)" % n if n < 0 else "%d" % n


def qlit(x) -> str:
    f = Fraction(x)
    return "((%d)#%d)" % (f.numerator, f.denominator) if f < 0 else "(%d#%d)" % (f.numerator, f.denominator)


def slit(s: str) -> str:
    s = s.encode("unicode_escape").decode("ascii")
    return '"%s"%%string' % s.replace('"', '""')


# ------------------------------------------------------------------------------------------------ sources
SOURCES = {
    "hyperstat": "simaple/system/hyperstat.py",
    "union": "simaple/system/union.py",
    "link": "simaple/system/link.py",
    "optimizer": "simaple/optimizer/optimizer.py",
    "hyperstat_optimizer": "simaple/optimizer/hyperstat_optimizer.py",
    "union_optimizer": "simaple/optimizer/union_optimizer.py",
    "union_occupation_optimizer": "simaple/optimizer/union_occupation_optimizer.py",
    "link_optimizer": "simaple/optimizer/link_optimizer.py",
    "data_hyperstat": "simaple/data/system/hyperstat.py",
    "data_union_block": "simaple/data/system/union_block.py",
    "data_link": "simaple/data/system/link.py",
}
# pydantic models translated into records (fields = annotated attributes)
MODELS = ["Hyperstat", "UnionBlock", "UnionSquad", "UnionOccupation", "LinkSkill", "LinkSkillset"]
# DiscreteTarget subclasses (fields = what __init__ assigns)
TARGETS = ["HyperstatTarget", "UnionSquadTarget", "UnionOccupationTarget", "LinkSkillTarget"]
ENUMS_AS_STRING = {"StatProps", "JobType"}
# calls answered by a table obtained by RUNNING the function: name -> (table constant, type)
DATA_CALLS = {
    "get_hyperstat_lists": ("data_hyperstat_lists", tlist(tpair(S, tlist(STAT)))),
    "get_empty_hyperstat_levels": ("data_empty_hyperstat_levels", tlist(Z)),
    "get_all_blocks": ("data_all_blocks", tlist(trec("UnionBlock"))),
    "get_all_linkskills": ("data_all_linkskills", tlist(trec("LinkSkill"))),
    "get_union_occupation_values": ("data_union_occupation_values", tlist(tlist(tpair(STAT, ASTAT)))),
}
# unannotated / loosely annotated constructor parameters: the property quantifies over every armour value
PARAM_TYPE_OVERRIDE = {"armor": Q}


class Module:
    def __init__(self, key, path, text):
        self.key, self.path = key, path
        self.tree = ast.parse(text)
        self.classes, self.funcs, self.consts = {}, {}, {}
        for n in self.tree.body:
            if isinstance(n, ast.ClassDef):
                self.classes[n.name] = n
            elif isinstance(n, ast.FunctionDef):
                self.funcs[n.name] = n
            elif isinstance(n, ast.Assign) and len(n.targets) == 1 and isinstance(n.targets[0], ast.Name):
                self.consts[n.targets[0].id] = n.value


def strip_doc(body):
    if body and isinstance(body[0], ast.Expr) and isinstance(body[0].value, ast.Constant) \
            and isinstance(body[0].value.value, str):
        return body[1:]
    return body


# ------------------------------------------------------------------------------------------------ frames
class Frame:
    """ordered let / bind / guard items in front of a final expression"""

    def __init__(self, tr, monadic):
        self.tr, self.monadic, self.items = tr, monadic, []

    def bind(self, opt_text, hint="t"):
        if not self.monadic:
            raise NeedMonadic()
        v = self.tr.fresh(hint)
        self.items.append(("bind", v, opt_text))
        return v

    def let(self, pat, text):
        self.items.append(("let", pat, text))

    def guard(self, cond):
        if not self.monadic:
            raise NeedMonadic()
        self.items.append(("guard", cond))

    def render(self, final):
        out = final
        for it in reversed(self.items):
            if it[0] == "bind":
                out = "match %s with\n| Some %s => %s\n| None => None\nend" % (it[2], it[1], out)
            elif it[0] == "let":
                out = "let %s := %s in\n%s" % (it[1], it[2], out)
            else:
                out = "if %s then %s\nelse None" % (it[1], out)
        return out


def tuple_pat(names):
    if len(names) == 1:
        return names[0]
    return "'(" + ", ".join(names) + ")"


def tuple_val(names):
    if len(names) == 1:
        return names[0]
    return "(" + ", ".join(names) + ")"


# ------------------------------------------------------------------------------------------------ translator
class Translator:
    def __init__(self, repo):
        self.repo = repo
        self.mods = {}
        for k, rel in SOURCES.items():
            p = os.path.join(repo, rel)
            try:
                self.mods[k] = Module(k, rel, open(p, encoding="utf8").read())
            except (OSError, SyntaxError) as e:
                raise Reject("cannot read %s: %r" % (rel, e))
        self.classes = {}
        for m in self.mods.values():
            for n, c in m.classes.items():
                self.classes[n] = (m, c)
        self.records = {}        # name -> [(field, type)]
        self.record_order = []
        self.defs = {}           # key -> dict(coq, params, ret, fallible, text)
        self.out = []            # emitted Coq items in dependency order
        self.in_progress = set()
        self.counter = 0
        self.target_fields = {}  # target class -> ordered [(attr, type)] while/after __init__ is compiled
        self.logic_default_armor = self._read_logic_default_armor()

    def fresh(self, hint="t"):
        self.counter += 1
        return "%s%d" % (hint, self.counter)

    def _read_logic_default_armor(self):
        p = os.path.join(self.repo, "simaple/core/damage.py")
        try:
            tree = ast.parse(open(p, encoding="utf8").read())
        except (OSError, SyntaxError) as e:
            raise Reject("cannot read simaple/core/damage.py: %r" % e)
        for n in tree.body:
            if isinstance(n, ast.ClassDef) and n.name == "DamageLogic":
                for f in n.body:
                    if isinstance(f, ast.FunctionDef) and f.name == "get_damage_factor":
                        names = [a.arg for a in f.args.args]
                        if names != ["self", "stat", "armor"] or len(f.args.defaults) != 1 \
                                or not isinstance(f.args.defaults[0], ast.Constant):
                            raise Reject("DamageLogic.get_damage_factor: signature is not (self, stat, armor=<literal>)")
                        return Fraction(Decimal(repr(f.args.defaults[0].value)))
        raise Reject("DamageLogic.get_damage_factor not found")

    # -------------------------------------------------------------------------------- annotations
    def ann(self, node):
        if node is None:
            raise Reject("missing type annotation")
        if isinstance(node, ast.Constant) and isinstance(node.value, str):
            node = ast.parse(node.value, mode="eval").body
        if isinstance(node, ast.Name):
            n = node.id
            if n == "int":
                return Z
            if n == "float":
                return Q
            if n == "str":
                return S
            if n == "bool":
                return B
            if n in ("Stat",):
                return STAT
            if n == "ActionStat":
                return ASTAT
            if n == "DamageLogic":
                return LOGIC
            if n in ENUMS_AS_STRING:
                return S
            if n in MODELS:
                self.need_model(n)
                return trec(n)
            rej(node, "type annotation not handled")
        if isinstance(node, ast.Subscript):
            base = ast.unparse(node.value)
            args = node.slice.elts if isinstance(node.slice, ast.Tuple) else [node.slice]
            if base in ("list", "List") and len(args) == 1:
                return tlist(self.ann(args[0]))
            if base in ("tuple", "Tuple") and len(args) == 2:
                return tpair(self.ann(args[0]), self.ann(args[1]))
            if base in ("dict", "Dict") and len(args) == 2:
                return tdict(self.ann(args[0]), self.ann(args[1]))
        rej(node, "type annotation not handled")

    # -------------------------------------------------------------------------------- records
    def need_model(self, name):
        if name in self.records:
            return
        if name not in self.classes:
            raise Reject("class %s not found" % name)
        _m, c = self.classes[name]
        self.records[name] = None          # placeholder against recursion
        fields = []
        for st in c.body:
            if isinstance(st, ast.AnnAssign) and isinstance(st.target, ast.Name):
                if st.target.id == "model_config":
                    continue
                fields.append((st.target.id, self.ann(st.annotation)))
        if not fields:
            raise Reject("model %s has no annotated fields" % name)
        self.records[name] = fields
        self.record_order.append(name)
        self.out.append(self.record_text(name, fields))

    def record_text(self, name, fields, setters=False):
        lines = ["Record %s := mk%s {" % (name, name)]
        lines.append(";\n".join("  %s_%s : %s" % (name, f, cty(t)) for f, t in fields))
        lines.append("}.")
        if setters:
            for f, t in fields:
                args = " ".join("v" if g == f else "(%s_%s r)" % (name, g) for g, _t in fields)
                lines.append("Definition %s_with_%s (r : %s) (v : %s) : %s := mk%s %s." %
                             (name, f, name, cty(t), name, name, args))
        return "\n".join(lines)

    def fields_of(self, name):
        if name in MODELS:
            self.need_model(name)
            return self.records[name]
        if name in TARGETS:
            self.need_target(name)
            return self.records[name]
        raise Reject("no record for class %s" % name)

    # -------------------------------------------------------------------------------- class lookup
    def find_method(self, cls, name):
        """-> (defining class, FunctionDef) following single inheritance by Name bases"""
        seen = []
        cur = cls
        while cur is not None and cur not in seen:
            seen.append(cur)
            if cur not in self.classes:
                return None, None
            _m, c = self.classes[cur]
            for st in c.body:
                if isinstance(st, ast.FunctionDef) and st.name == name:
                    return cur, st
            nxt = None
            for b in c.bases:
                if isinstance(b, ast.Name) and b.id in self.classes:
                    nxt = b.id
            cur = nxt
        return None, None

    def class_const(self, cls, name):
        cur = cls
        while cur in self.classes:
            _m, c = self.classes[cur]
            for st in c.body:
                if isinstance(st, ast.Assign) and len(st.targets) == 1 and isinstance(st.targets[0], ast.Name) \
                        and st.targets[0].id == name and isinstance(st.value, ast.Constant) \
                        and type(st.value.value) is int:
                    return st.value.value
            nxt = None
            for b in c.bases:
                if isinstance(b, ast.Name) and b.id in self.classes:
                    nxt = b.id
            cur = nxt
        return None

    # -------------------------------------------------------------------------------- function compilation
    def params_of(self, fn, owner, skip_first):
        a = fn.args
        if a.vararg or a.kwarg or a.posonlyargs or a.kwonlyargs:
            rej(fn, "*args/**kwargs/keyword-only parameters are not handled")
        ps = a.args[1:] if skip_first else a.args
        out = []
        for p in ps:
            if p.arg in PARAM_TYPE_OVERRIDE:
                t = PARAM_TYPE_OVERRIDE[p.arg]
            elif p.annotation is None:
                rej(fn, "parameter %s of %s has no annotation" % (p.arg, fn.name))
            else:
                t = self.ann(p.annotation)
            out.append((p.arg, t))
        return out

    def compile_body(self, key, coq, params, self_binding, body, init_cls=None, ret_hint=None):
        """params: [(pyname, type)]; self_binding: None | ("rec", cls) ; returns the registered definition"""
        if key in self.in_progress:
            raise Reject("recursive definition %s" % (key,))
        self.in_progress.add(key)
        try:
            result = None
            for monadic in (False, True):
                env = {}
                if self_binding is not None:
                    env["self"] = ("self", self_binding)
                for p, t in params:
                    env[p] = (cname(p), t)
                cx = Body(self, monadic, init_cls)
                try:
                    text = cx.block(strip_doc(body), env, cx.no_fallthrough if init_cls is None else cx.init_done)
                except NeedMonadic:
                    continue
                result = (text, cx.ret_type, monadic)
                break
            if result is None:
                raise Reject("could not translate %s" % (key,))
        finally:
            self.in_progress.discard(key)
        text, ret, monadic = result
        if ret is None:
            raise Reject("%s never returns a value" % (key,))
        ps = []
        if self_binding is not None:
            ps.append(("self", self_binding))
        ps += params
        sig = " ".join("(%s : %s)" % (cname(p) if p != "self" else "self", cty(t)) for p, t in ps)
        rty = "(option %s)" % cty(ret) if monadic else cty(ret)
        d = {"coq": coq, "params": ps, "ret": ret, "fallible": monadic,
             "text": "Definition %s %s : %s :=\n%s." % (coq, sig, rty, text) if ps else
                     "Definition %s : %s :=\n%s." % (coq, rty, text)}
        self.defs[key] = d
        self.out.append(d["text"])
        return d

    def need_method(self, cls, name):
        """method of a model or target class (looked up through the bases), specialised to `cls`"""
        key = (cls, name)
        if key in self.defs:
            return self.defs[key]
        owner, fn = self.find_method(cls, name)
        if fn is None:
            raise Reject("%s.%s not found" % (cls, name))
        decos = [ast.unparse(d) for d in fn.decorator_list]
        self.fields_of(cls)
        if decos == ["classmethod"]:
            params = self.params_of(fn, owner, True)
            return self.compile_body(key, "%s_%s" % (cls, name), params, None, fn.body)
        if decos:
            rej(fn, "decorated method not handled")
        params = self.params_of(fn, owner, True)
        return self._method(key, cls, name, fn, params)

    def _method(self, key, cls, name, fn, params):
        body = strip_doc(fn.body)
        # a mutator: nothing but `self.f = e` statements -> returns the updated object
        if cls in TARGETS and body and all(isinstance(s, ast.Assign) and len(s.targets) == 1 and
                                           isinstance(s.targets[0], ast.Attribute) and
                                           isinstance(s.targets[0].value, ast.Name) and
                                           s.targets[0].value.id == "self" for s in body):
            return self.compile_mutator(key, cls, name, params, body)
        return self.compile_body(key, "%s_%s" % (cls, name), params, trec(cls), body)

    def compile_mutator(self, key, cls, name, params, body):
        fields = dict(self.records[cls])
        env = {"self": ("self", trec(cls))}
        for p, t in params:
            env[p] = (cname(p), t)
        cx = Body(self, False, None)
        cur = "self"
        try:
            for s in body:
                f = s.targets[0].attr
                if f not in fields:
                    rej(s, "%s has no attribute %s" % (cls, f))
                fr = Frame(self, False)
                # reads of self see the object updated so far
                env2 = dict(env)
                env2["self"] = (cur, trec(cls))
                txt, ty = cx.expr(s.value, env2, fr)
                if fr.items:
                    rej(s, "mutator too complex")
                if ty != fields[f]:
                    rej(s, "%s.%s has type %s, assigned %s" % (cls, f, cty(fields[f]), cty(ty)))
                cur = "(%s_with_%s %s %s)" % (cls, f, cur, txt)
        except NeedMonadic:
            rej(body[0], "mutator that can raise is not handled")
        ps = [("self", trec(cls))] + params
        sig = " ".join("(%s : %s)" % (cname(p) if p != "self" else "self", cty(t)) for p, t in ps)
        coq = "%s_%s" % (cls, name)
        d = {"coq": coq, "params": ps, "ret": trec(cls), "fallible": False, "mutator": True,
             "text": "Definition %s %s : %s :=\n%s." % (coq, sig, cls, cur)}
        self.defs[key] = d
        self.out.append(d["text"])
        return d

    def need_function(self, name):
        """module-level function of one of the data modules"""
        key = ("", name)
        if key in self.defs:
            return self.defs[key]
        fn = None
        for m in self.mods.values():
            if name in m.funcs:
                fn = m.funcs[name]
        if fn is None:
            raise Reject("function %s not found" % name)
        if fn.decorator_list:
            rej(fn, "decorated function not handled")
        params = self.params_of(fn, None, False)
        return self.compile_body(key, name, params, None, fn.body)

    def need_const(self, name):
        key = ("const", name)
        if key in self.defs:
            return self.defs[key]
        node = None
        for m in self.mods.values():
            if name in m.consts:
                node = m.consts[name]
        if node is None:
            raise Reject("module constant %s not found" % name)
        def lit(e):
            if isinstance(e, ast.Constant) and type(e.value) is int:
                return e.value
            if isinstance(e, ast.UnaryOp) and isinstance(e.op, ast.USub) and isinstance(e.operand, ast.Constant) \
                    and type(e.operand.value) is int:
                return -e.operand.value
            rej(node, "module constant %s is not a list of int literals" % name)
        if not isinstance(node, ast.List):
            rej(node, "module constant %s is not a list of int literals" % name)
        vals = [lit(e) for e in node.elts]
        coq = "const_" + name.lstrip("_")
        d = {"coq": coq, "params": [], "ret": tlist(Z), "fallible": False,
             "text": "Definition %s : list Z := [%s]." % (coq, "; ".join(zlit(v) for v in vals))}
        self.defs[key] = d
        self.out.append(d["text"])
        return d

    # -------------------------------------------------------------------------------- targets
    def need_target(self, cls):
        if cls in self.records:
            if self.records[cls] is None:
                raise Reject("%s is used while its __init__ is being translated" % cls)
            return
        owner, fn = self.find_method(cls, "__init__")
        if fn is None or owner != cls:
            raise Reject("%s has no __init__ of its own" % cls)
        self.records[cls] = None
        params = self.params_of(fn, cls, True)
        self.target_fields[cls] = []
        key = (cls, "__init__")
        d = self.compile_body(key, "%s_init" % cls, params, None, fn.body, init_cls=cls)
        fields = self.target_fields[cls]
        self.records[cls] = fields
        self.record_order.append(cls)
        # the record must precede the constructor function in the output
        self.out.remove(d["text"])
        self.out.append(self.record_text(cls, fields, setters=True))
        self.out.append(d["text"])
        d["ret"] = trec(cls)


class Body:
    """one attempt (pure or monadic) at one function body"""

    def __init__(self, tr: Translator, monadic: bool, init_cls):
        self.tr, self.monadic, self.init_cls = tr, monadic, init_cls
        self.ret_type = None

    # ---------------------------------------------------------------- results
    def ret(self, text, ty):
        if self.ret_type is None:
            self.ret_type = ty
        elif self.ret_type != ty:
            raise Reject("a function returns both %s and %s" % (cty(self.ret_type), cty(ty)))
        return "Some (%s)" % text if self.monadic else text

    def fail(self):
        if not self.monadic:
            raise NeedMonadic()
        return "None"

    def no_fallthrough(self, env):
        raise Reject("a function body can end without `return` (None result is not modelled)")

    def init_done(self, env):
        cls = self.init_cls
        fields = [(k[1], env[k][1]) for k in env if isinstance(k, tuple) and k[0] == "self"]
        order = self.tr.target_fields[cls]
        # keep the order of first assignment
        known = [f for f, _t in order]
        for f, t in fields:
            if f not in known:
                order.append((f, t))
                known.append(f)
        for i, (f, t) in enumerate(order):
            tt = dict(fields).get(f)
            if tt is None:
                raise Reject("%s.__init__: attribute %s is not assigned on every path" % (cls, f))
            if tt != t:
                raise Reject("%s.__init__: attribute %s has two types" % (cls, f))
        txt = "mk%s %s" % (cls, " ".join(env[("self", f)][0] for f, _t in order))
        return self.ret(txt, trec(cls))

    # ---------------------------------------------------------------- helpers
    def assigned(self, stmts):
        """names (and ("self", attr) keys) assigned anywhere in stmts, in order"""
        out = []

        def add(k):
            if k not in out:
                out.append(k)

        def target(t):
            if isinstance(t, ast.Name):
                add(t.id)
            elif isinstance(t, ast.Attribute) and isinstance(t.value, ast.Name) and t.value.id == "self":
                add(("self", t.attr))
            elif isinstance(t, ast.Subscript):
                target(t.value)
            elif isinstance(t, ast.Tuple):
                for e in t.elts:
                    target(e)
            else:
                rej(t, "assignment target not handled")

        for s in stmts:
            if isinstance(s, ast.Assign):
                for t in s.targets:
                    target(t)
            elif isinstance(s, (ast.AugAssign, ast.AnnAssign)):
                target(s.target)
            elif isinstance(s, ast.If):
                for k in self.assigned(s.body) + self.assigned(s.orelse):
                    add(k)
            elif isinstance(s, ast.For):
                for k in self.assigned(s.body):
                    add(k)
            elif isinstance(s, ast.Expr) and isinstance(s.value, ast.Call) and self.init_cls is not None:
                m = self.self_call(s.value)
                if m is not None:
                    _o, fn = self.tr.find_method(self.init_cls, m)
                    if fn is not None:
                        for k in self.assigned(strip_doc(fn.body)):
                            if isinstance(k, tuple):
                                add(k)
        return out

    @staticmethod
    def self_call(call):
        f = call.func
        if isinstance(f, ast.Attribute) and isinstance(f.value, ast.Name) and f.value.id == "self":
            return f.attr
        return None

    def always_returns(self, stmts):
        if not stmts:
            return False
        s = stmts[-1]
        if isinstance(s, (ast.Return, ast.Raise)):
            return True
        if isinstance(s, ast.If):
            return bool(s.orelse) and self.always_returns(s.body) and self.always_returns(s.orelse)
        return False

    def coq_of_key(self, k):
        return "self_" + k[1] if isinstance(k, tuple) else cname(k)

    def sub_block(self, stmts, env, mutated):
        """a branch / loop body that falls through with the tuple of `mutated`; tried pure first.
        -> (text, is_monadic)"""
        def ft(env2):
            return tuple_val([env2[k][0] for k in mutated])
        saved = self.monadic
        for mon in ((False, True) if saved else (False,)):
            self.monadic = mon
            try:
                if mon:
                    text = self.block(stmts, env, lambda e: "Some %s" % ft(e))
                else:
                    text = self.block(stmts, env, ft)
                return text, mon
            except NeedMonadic:
                continue
            finally:
                self.monadic = saved
        raise NeedMonadic()

    def cond(self, node, env, frame):
        txt, ty = self.expr(node, env, frame)
        if ty == B:
            return txt
        if ty == Z:
            return "(py_truthy_Z %s)" % txt
        rej(node, "truth value of a %s is not handled" % cty(ty))

    # ---------------------------------------------------------------- statements
    def block(self, stmts, env, fallthrough):
        if not stmts:
            return fallthrough(env)
        s, rest = stmts[0], stmts[1:]
        fr = Frame(self.tr, self.monadic)

        if isinstance(s, ast.Pass):
            return self.block(rest, env, fallthrough)

        if isinstance(s, ast.Return):
            if s.value is None:
                rej(s, "bare return")
            if self.init_cls is not None:
                rej(s, "return inside __init__")
            txt, ty = self.expr(s.value, env, fr)
            return fr.render(self.ret(txt, ty))

        if isinstance(s, ast.Raise):
            return self.fail()

        if isinstance(s, ast.Assert):
            c = self.cond(s.test, env, fr)
            fr.guard(c)
            return fr.render(self.block(rest, env, fallthrough))

        if isinstance(s, ast.FunctionDef):
            # nested helper: one `return <expr>`, typed parameters, no failure
            body = strip_doc(s.body)
            if len(body) != 1 or not isinstance(body[0], ast.Return) or s.decorator_list:
                rej(s, "nested function is not a single return")
            ps = self.tr.params_of(s, None, False)
            env2 = dict(env)
            for p, t in ps:
                env2[p] = (cname(p), t)
            f2 = Frame(self.tr, False)
            txt, ty = self.expr(body[0].value, env2, f2)
            if f2.items:
                rej(s, "nested function too complex")
            lam = "fun %s => %s" % (" ".join("(%s : %s)" % (cname(p), cty(t)) for p, t in ps), txt)
            env3 = dict(env)
            env3[s.name] = (cname(s.name), ("fun", [t for _p, t in ps], ty))
            fr.let(cname(s.name), lam)
            return fr.render(self.block(rest, env3, fallthrough))

        if isinstance(s, (ast.Assign, ast.AnnAssign)):
            if isinstance(s, ast.Assign):
                if len(s.targets) != 1:
                    rej(s, "chained assignment")
                tgt, val, ann = s.targets[0], s.value, None
            else:
                tgt, val, ann = s.target, s.value, s.annotation
                if val is None:
                    rej(s, "annotation without value")
            want = self.tr.ann(ann) if ann is not None else None
            return self.assign(tgt, val, want, env, fr, rest, fallthrough)

        if isinstance(s, ast.AugAssign):
            if not isinstance(s.op, ast.Add):
                rej(s, "augmented assignment other than +=")
            if isinstance(s.target, ast.Name):
                if s.target.id not in env:
                    rej(s, "+= on an unknown name")
                cur, ty = env[s.target.id]
                vt, vty = self.expr(s.value, env, fr)
                if ty == STAT and vty == STAT:
                    txt = "(Stat_iadd %s %s)" % (cur, vt)         # Stat.__iadd__
                elif ty == Z and vty == Z:
                    txt = "(%s + %s)" % (cur, vt)
                else:
                    rej(s, "+= on %s / %s" % (cty(ty), cty(vty)))
                env2 = dict(env)
                env2[s.target.id] = (cname(s.target.id), ty)
                fr.let(cname(s.target.id), txt)
                return fr.render(self.block(rest, env2, fallthrough))
            rej(s, "augmented assignment target not handled")

        if isinstance(s, ast.If):
            c = self.cond(s.test, env, fr)
            if self.always_returns(s.body) and (not s.orelse or self.always_returns(s.orelse)):
                a = self.block(s.body, env, self.no_fallthrough)
                b = self.block(s.orelse, env, self.no_fallthrough) if s.orelse else self.block(rest, env, fallthrough)
                if s.orelse and rest:
                    rej(s, "statements after an if/else that always returns")
                return fr.render("if %s then %s\nelse %s" % (c, a, b))
            if self.always_returns(s.orelse):
                rej(s, "else branch returns but the if branch does not")
            mutated = [k for k in self.assigned(s.body) + self.assigned(s.orelse) if k in env]
            mutated = list(dict.fromkeys(mutated))
            if not mutated:
                rej(s, "if statement without effect on known variables")
            ta, ma = self.sub_block(s.body, env, mutated)
            tb, mb = self.sub_block(s.orelse, env, mutated)
            if ma != mb:
                if not ma:
                    ta = "Some (%s)" % ta
                else:
                    tb = "Some (%s)" % tb
            env2 = dict(env)
            names = []
            for k in mutated:
                n = self.coq_of_key(k)
                names.append(n)
                env2[k] = (n, env[k][1])
            ite = "(if %s then %s\nelse %s)" % (c, ta, tb)
            if ma or mb:
                if not fr.monadic:
                    raise NeedMonadic()
                fr.items.append(("bind", tuple_val(names), ite))
            else:
                fr.let(tuple_pat(names), ite)
            return fr.render(self.block(rest, env2, fallthrough))

        if isinstance(s, ast.For):
            if s.orelse:
                rej(s, "for/else")
            it_txt, it_ty = self.expr(s.iter, env, fr)
            if it_ty[0] == "dict":
                rej(s, "iteration over a dict (use .items())")
            if it_ty[0] != "list":
                rej(s, "iteration over a %s" % cty(it_ty))
            pat, penv = self.pattern(s.target, it_ty[1])
            env_b = dict(env)
            env_b.update(penv)
            # `for ..: if test: return e` -- the first hit
            if len(s.body) == 1 and isinstance(s.body[0], ast.If) and not s.body[0].orelse \
                    and len(s.body[0].body) == 1 and isinstance(s.body[0].body[0], ast.Return) \
                    and s.body[0].body[0].value is not None and self.init_cls is None:
                f2 = Frame(self.tr, False)
                c = self.cond(s.body[0].test, env_b, f2)
                e_txt, e_ty = self.expr(s.body[0].body[0].value, env_b, f2)
                if f2.items:
                    rej(s, "search loop too complex")
                v = self.tr.fresh("r")
                hit = self.ret(v, e_ty)
                after = self.block(rest, env, fallthrough)
                return fr.render("match py_first (fun %s => if %s then Some (%s) else None) %s with\n| Some %s => %s\n| None => %s\nend"
                                 % (pat, c, e_txt, it_txt, v, hit, after))
            mutated = [k for k in self.assigned(s.body) if k in env]
            if not mutated:
                rej(s, "loop without effect on known variables")
            body, mon = self.sub_block(s.body, env_b, mutated)
            env2 = dict(env)
            names, cur = [], []
            for k in mutated:
                n = self.coq_of_key(k)
                names.append(n)
                cur.append(env[k][0])
                env2[k] = (n, env[k][1])
            # inside the body the mutated variables are read under their canonical names
            rebinding = [(n, c) for n, c in zip(names, cur) if n != c]
            if rebinding:
                rej(s, "loop-carried variable is bound under another name")
            lam = "(fun %s %s => %s)" % (tuple_pat(names), pat, body)
            if mon:
                if not fr.monadic:
                    raise NeedMonadic()
                fr.items.append(("bind", tuple_val(names) if len(names) > 1 else names[0],
                                 "py_foldM %s %s %s" % (lam, it_txt, tuple_val(cur))))
            else:
                fr.let(tuple_pat(names), "fold_left %s %s %s" % (lam, it_txt, tuple_val(cur)))
            return fr.render(self.block(rest, env2, fallthrough))

        if isinstance(s, ast.Expr) and isinstance(s.value, ast.Call) and self.init_cls is not None:
            call = s.value
            # super().__init__(...)
            if isinstance(call.func, ast.Attribute) and call.func.attr == "__init__" \
                    and isinstance(call.func.value, ast.Call) and ast.unparse(call.func.value) == "super()":
                _m, c = self.tr.classes[self.init_cls]
                bases = [b.id for b in c.bases if isinstance(b, ast.Name)]
                if len(bases) != 1:
                    rej(s, "super() with several bases")
                owner, fn = self.tr.find_method(bases[0], "__init__")
                if fn is None:
                    rej(s, "base class has no __init__")
                return self.inline(fn, call, env, fr, rest, fallthrough, own_scope=True)
            m = self.self_call(call)
            if m is not None:
                owner, fn = self.tr.find_method(self.init_cls, m)
                if fn is None:
                    rej(s, "method not found")
                return self.inline(fn, call, env, fr, rest, fallthrough, own_scope=True)
        rej(s, "statement not handled")

    def inline(self, fn, call, env, fr, rest, fallthrough, own_scope):
        """inline a method that initialises/mutates self inside __init__: its locals live in their own scope,
        the attributes of self flow through"""
        if fn.decorator_list:
            rej(fn, "decorated method inlined")
        ps = self.tr.params_of(fn, None, True)
        defaults = fn.args.defaults
        first_default = len(ps) - len(defaults)
        given = {}
        if len(call.args) > len(ps):
            rej(call, "too many arguments")
        for (p, _t), a in zip(ps, call.args):
            given[p] = a
        for kw in call.keywords:
            if kw.arg is None or kw.arg in given or kw.arg not in [p for p, _t in ps]:
                rej(call, "keyword argument not handled")
            given[kw.arg] = kw.value
        env_m = {k: v for k, v in env.items() if isinstance(k, tuple) or k == "self"}
        for i, (p, t) in enumerate(ps):
            if p in given:
                txt, ty = self.expr(given[p], env, fr)
            elif i >= first_default:
                txt, ty = self.expr(defaults[i - first_default], {}, fr)
            else:
                rej(call, "missing argument %s" % p)
            if ty != t:
                rej(call, "argument %s has type %s, expected %s" % (p, cty(ty), cty(t)))
            n = self.tr.fresh(cname(p) + "_")
            fr.let(n, txt)
            env_m[p] = (n, t)

        def after(env_after):
            env2 = dict(env)
            for k, v in env_after.items():
                if isinstance(k, tuple):
                    env2[k] = v
            return self.block(rest, env2, fallthrough)
        return fr.render(self.block(strip_doc(fn.body), env_m, after))

    def assign(self, tgt, val, want, env, fr, rest, fallthrough):
        # x = e
        if isinstance(tgt, ast.Name):
            txt, ty = self.expr(val, env, fr, want)
            env2 = dict(env)
            env2[tgt.id] = (cname(tgt.id), ty)
            fr.let(cname(tgt.id) + (" : " + cty(ty) if want is not None else ""), txt)
            return fr.render(self.block(rest, env2, fallthrough))
        # self.f = e  (only while building the object)
        if isinstance(tgt, ast.Attribute) and isinstance(tgt.value, ast.Name) and tgt.value.id == "self":
            if self.init_cls is None:
                rej(tgt, "assignment to self outside __init__")
            txt, ty = self.expr(val, env, fr, want)
            k = ("self", tgt.attr)
            if k in env and env[k][1] != ty:
                rej(tgt, "attribute %s changes its type" % tgt.attr)
            env2 = dict(env)
            env2[k] = ("self_" + tgt.attr, ty)
            order = self.tr.target_fields[self.init_cls]
            if tgt.attr not in [f for f, _t in order]:
                order.append((tgt.attr, ty))
            fr.let("self_" + tgt.attr, txt)
            return fr.render(self.block(rest, env2, fallthrough))
        # d[k] = v  /  xs[i] = v
        if isinstance(tgt, ast.Subscript):
            base = tgt.value
            if isinstance(base, ast.Name):
                key = base.id
            elif isinstance(base, ast.Attribute) and isinstance(base.value, ast.Name) and base.value.id == "self" \
                    and self.init_cls is not None:
                key = ("self", base.attr)
            else:
                rej(tgt, "subscript assignment target not handled")
            if key not in env:
                rej(tgt, "subscript assignment to an unknown variable")
            cur, ty = env[key]
            itxt, ity = self.expr(tgt.slice, env, fr)
            vtxt, vty = self.expr(val, env, fr)
            name = self.coq_of_key(key)
            if ty[0] == "dict":
                if ity != ty[1] or vty != ty[2]:
                    rej(tgt, "dict store with wrong key/value type")
                fr.let(name, "py_dict_set %s %s %s %s" % (self.eqb(ty[1], tgt), cur, itxt, vtxt))
            elif ty[0] == "list":
                if ity != Z or vty != ty[1]:
                    rej(tgt, "list store with wrong index/value type")
                v = fr.bind("py_setitem %s %s %s" % (cur, itxt, vtxt), "l")
                fr.let(name, v)
            else:
                rej(tgt, "subscript assignment on a %s" % cty(ty))
            env2 = dict(env)
            env2[key] = (name, ty)
            return fr.render(self.block(rest, env2, fallthrough))
        rej(tgt, "assignment target not handled")

    # ---------------------------------------------------------------- patterns
    def pattern(self, node, ty):
        """-> (coq binder text for `fun`, {pyname: (coqname, type)})"""
        if isinstance(node, ast.Name):
            if node.id == "_":
                return "_", {}
            return cname(node.id), {node.id: (cname(node.id), ty)}
        if isinstance(node, ast.Tuple) and len(node.elts) == 2 and ty[0] == "pair":
            pa, ea = self._pat_inner(node.elts[0], ty[1])
            pb, eb = self._pat_inner(node.elts[1], ty[2])
            ea.update(eb)
            return "'(%s, %s)" % (pa, pb), ea
        rej(node, "loop target does not match element type %s" % cty(ty))

    def _pat_inner(self, node, ty):
        if isinstance(node, ast.Name):
            if node.id == "_":
                return "_", {}
            return cname(node.id), {node.id: (cname(node.id), ty)}
        if isinstance(node, ast.Tuple) and len(node.elts) == 2 and ty[0] == "pair":
            pa, ea = self._pat_inner(node.elts[0], ty[1])
            pb, eb = self._pat_inner(node.elts[1], ty[2])
            ea.update(eb)
            return "(%s, %s)" % (pa, pb), ea
        rej(node, "pattern does not match type %s" % cty(ty))

    def eqb(self, ty, node):
        if ty == Z:
            return "Z.eqb"
        if ty == S:
            return "String.eqb"
        rej(node, "no equality test for %s" % cty(ty))

    # ---------------------------------------------------------------- expressions
    def lam(self, pat, node, env, penv, want=None):
        """body of a comprehension: -> (text of `fun pat => ...`, element type, fallible)"""
        env2 = dict(env)
        env2.update(penv)
        f2 = Frame(self.tr, False)
        try:
            txt, ty = self.expr(node, env2, f2, want)
            return "(fun %s => %s)" % (pat, f2.render(txt)), ty, False
        except NeedMonadic:
            pass
        f3 = Frame(self.tr, True)
        txt, ty = self.expr(node, env2, f3, want)
        return "(fun %s => %s)" % (pat, f3.render("Some (%s)" % txt)), ty, True

    def comprehension(self, node, env, frame):
        if len(node.generators) != 1:
            rej(node, "nested comprehension")
        g = node.generators[0]
        if g.is_async:
            rej(node, "async comprehension")
        it_txt, it_ty = self.expr(g.iter, env, frame)
        if it_ty[0] != "list":
            rej(node, "comprehension over a %s" % cty(it_ty))
        pat, penv = self.pattern(g.target, it_ty[1])
        src = it_txt
        for c in g.ifs:
            env2 = dict(env)
            env2.update(penv)
            f2 = Frame(self.tr, False)
            try:
                ctext = self.cond(c, env2, f2)
            except NeedMonadic:
                rej(c, "comprehension filter that can raise")
            if f2.items:
                rej(c, "comprehension filter too complex")
            src = "(filter (fun %s => %s) %s)" % (pat, ctext, src)
        lam, ety, fallible = self.lam(pat, node.elt, env, penv)
        if fallible:
            v = frame.bind("py_mapM %s %s" % (lam, src), "l")
            return v, tlist(ety)
        return "(map %s %s)" % (lam, src), tlist(ety)

    def expr(self, node, env, frame, want=None):
        """-> (coq text, type); steps that can raise are bound in `frame`"""
        if isinstance(node, ast.Constant):
            v = node.value
            if type(v) is int:
                if want == Q:
                    return qlit(v), Q
                return zlit(v), Z
            if type(v) is float:
                return qlit(Fraction(Decimal(repr(v)))), Q
            if type(v) is str:
                return slit(v), S
            if type(v) is bool:
                return ("true" if v else "false"), B
            rej(node, "literal not handled")

        if isinstance(node, ast.Name):
            if node.id in env:
                return env[node.id]
            if any(node.id in m.consts for m in self.tr.mods.values()):
                d = self.tr.need_const(node.id)
                return d["coq"], d["ret"]
            rej(node, "unknown name")

        if isinstance(node, ast.UnaryOp):
            if isinstance(node.op, ast.USub) and isinstance(node.operand, ast.Constant) and type(node.operand.value) is int:
                return zlit(-node.operand.value), Z
            if isinstance(node.op, ast.Not):
                c = self.cond(node.operand, env, frame)
                return "(negb %s)" % c, B
            if isinstance(node.op, ast.USub):
                t, ty = self.expr(node.operand, env, frame)
                if ty == Z:
                    return "(- %s)" % t, Z
            rej(node, "unary operator not handled")

        if isinstance(node, ast.Tuple):
            if len(node.elts) != 2:
                rej(node, "only pairs are handled")
            a, ta = self.expr(node.elts[0], env, frame)
            b, tb = self.expr(node.elts[1], env, frame)
            return "(%s, %s)" % (a, b), tpair(ta, tb)

        if isinstance(node, ast.List):
            if not node.elts:
                if want is not None and want[0] == "list":
                    return "[]", want
                rej(node, "empty list without a type")
            items = [self.expr(e, env, frame) for e in node.elts]
            ty = items[0][1]
            if any(t != ty for _x, t in items):
                rej(node, "heterogeneous list")
            return "[" + "; ".join(x for x, _t in items) + "]", tlist(ty)

        if isinstance(node, ast.Dict):
            if node.keys:
                rej(node, "non-empty dict literal")
            if want is None or want[0] != "dict":
                rej(node, "empty dict without a type annotation")
            return "[]", want

        if isinstance(node, (ast.ListComp, ast.GeneratorExp)):
            return self.comprehension(node, env, frame)

        if isinstance(node, ast.IfExp):
            c = self.cond(node.test, env, frame)
            f_a, f_b = Frame(self.tr, False), Frame(self.tr, False)
            try:
                a, ta = self.expr(node.body, env, f_a, want)
                b, tb = self.expr(node.orelse, env, f_b, want)
            except NeedMonadic:
                rej(node, "conditional expression whose branches can raise")
            if ta != tb:
                rej(node, "conditional expression of two types")
            return "(if %s then %s else %s)" % (c, f_a.render(a), f_b.render(b)), ta

        if isinstance(node, ast.BoolOp):
            parts = [self.cond(v, env, frame) for v in node.values]
            op = " && " if isinstance(node.op, ast.And) else " || "
            # Python's and/or short-circuit; the operands here cannot raise once bound, so evaluation order is immaterial
            return "(" + op.join(parts) + ")", B

        if isinstance(node, ast.BinOp):
            a, ta = self.expr(node.left, env, frame)
            b, tb = self.expr(node.right, env, frame)
            if ta == Z and tb == Z:
                ops = {ast.Add: "+", ast.Sub: "-", ast.Mult: "*", ast.FloorDiv: "/", ast.Mod: "mod"}
                for k, o in ops.items():
                    if isinstance(node.op, k):
                        return "(%s %s %s)" % (a, o, b), Z          # Z./ and Z.modulo floor like Python's // and %
                rej(node, "integer operator not handled")
            if ta == STAT and tb == STAT and isinstance(node.op, ast.Add):
                return "(Stat_add %s %s)" % (a, b), STAT            # Stat.__add__
            rej(node, "operator on %s and %s not handled" % (cty(ta), cty(tb)))

        if isinstance(node, ast.Compare):
            if len(node.ops) != 1:
                rej(node, "chained comparison")
            op, rhs = node.ops[0], node.comparators[0]
            if isinstance(op, (ast.In, ast.NotIn)):
                a, ta = self.expr(node.left, env, frame)
                b, tb = self.expr(rhs, env, frame)
                if tb[0] == "dict" and ta == tb[1]:
                    t = "(py_dict_mem %s %s %s)" % (self.eqb(ta, node), a, b)
                elif tb[0] == "list" and ta == tb[1]:
                    t = "(py_in %s %s %s)" % (self.eqb(ta, node), a, b)
                else:
                    rej(node, "membership test on %s" % cty(tb))
                return ("(negb %s)" % t if isinstance(op, ast.NotIn) else t), B
            a, ta = self.expr(node.left, env, frame)
            b, tb = self.expr(rhs, env, frame)
            if ta == Z and tb == Z:
                m = {ast.Eq: "(%s =? %s)", ast.NotEq: "(negb (%s =? %s))", ast.Lt: "(%s <? %s)", ast.LtE: "(%s <=? %s)",
                     ast.Gt: "(%s >? %s)", ast.GtE: "(%s >=? %s)"}
                for k, f in m.items():
                    if isinstance(op, k):
                        return f % (a, b), B
            if ta == S and tb == S:
                if isinstance(op, ast.Eq):
                    return "(String.eqb %s %s)" % (a, b), B
                if isinstance(op, ast.NotEq):
                    return "(negb (String.eqb %s %s))" % (a, b), B
            rej(node, "comparison of %s and %s not handled" % (cty(ta), cty(tb)))

        if isinstance(node, ast.Attribute):
            # self.CONSTANT / self.attr / obj.attr
            if isinstance(node.value, ast.Name) and node.value.id == "self" and self.init_cls is not None:
                k = ("self", node.attr)
                if k in env:
                    return env[k]
                c = self.tr.class_const(self.init_cls, node.attr)
                if c is not None:
                    return zlit(c), Z
                rej(node, "attribute read before it is assigned")
            o, to = self.expr(node.value, env, frame)
            if to[0] == "rec":
                fields = self.tr.fields_of(to[1])
                for f, t in fields:
                    if f == node.attr:
                        return "(%s_%s %s)" % (to[1], f, o), t
                c = self.tr.class_const(to[1], node.attr)
                if c is not None:
                    return zlit(c), Z
            rej(node, "attribute not handled")

        if isinstance(node, ast.Subscript):
            o, to = self.expr(node.value, env, frame)
            if isinstance(node.slice, ast.Slice):
                sl = node.slice
                if sl.lower is not None or sl.step is not None or sl.upper is None or to[0] != "list":
                    rej(node, "only xs[:k] slices are handled")
                k, tk = self.expr(sl.upper, env, frame)
                if tk != Z:
                    rej(node, "slice bound is not an int")
                return "(py_slice_to %s %s)" % (o, k), to
            if to[0] == "pair":
                if isinstance(node.slice, ast.Constant) and node.slice.value in (0, 1):
                    return ("(fst %s)" % o, to[1]) if node.slice.value == 0 else ("(snd %s)" % o, to[2])
                rej(node, "tuple index is not the literal 0 or 1")
            i, ti = self.expr(node.slice, env, frame)
            if to[0] == "list":
                if ti != Z:
                    rej(node, "list index is not an int")
                v = frame.bind("py_index %s %s" % (o, i))
                return v, to[1]
            if to[0] == "dict":
                if ti != to[1]:
                    rej(node, "dict key of the wrong type")
                v = frame.bind("py_dict_get %s %s %s" % (self.eqb(ti, node), o, i))
                return v, to[2]
            rej(node, "subscript on a %s" % cty(to))

        if isinstance(node, ast.Call):
            return self.call(node, env, frame, want)

        rej(node, "expression not handled")

    def args_for(self, d, call, env, frame, skip_self):
        ps = d["params"][1:] if skip_self else d["params"]
        given = {}
        if len(call.args) > len(ps):
            rej(call, "too many arguments")
        for (p, _t), a in zip(ps, call.args):
            given[p] = a
        for kw in call.keywords:
            if kw.arg is None or kw.arg in given or kw.arg not in [p for p, _t in ps]:
                rej(call, "keyword argument not handled")
            given[kw.arg] = kw.value
        out = []
        for p, t in ps:
            if p not in given:
                rej(call, "argument %s not given (defaults of translated functions are not applied)" % p)
            txt, ty = self.expr(given[p], env, frame, t)
            if ty != t:
                rej(call, "argument %s has type %s, expected %s" % (p, cty(ty), cty(t)))
            out.append(txt)
        return out

    def apply(self, d, args, frame):
        txt = "(%s %s)" % (d["coq"], " ".join(args)) if args else d["coq"]
        if d["fallible"]:
            return frame.bind(txt), d["ret"]
        return txt, d["ret"]

    def call(self, node, env, frame, want):
        f = node.func
        if isinstance(f, ast.Name):
            n = f.id
            if n in env and isinstance(env[n][1], tuple) and env[n][1][0] == "fun":
                _k, pts, rt = env[n][1]
                if node.keywords or len(node.args) != len(pts):
                    rej(node, "call of a nested function with wrong arguments")
                args = []
                for a, t in zip(node.args, pts):
                    txt, ty = self.expr(a, env, frame, t)
                    if ty != t:
                        rej(node, "argument of type %s, expected %s" % (cty(ty), cty(t)))
                    args.append(txt)
                return "(%s %s)" % (env[n][0], " ".join(args)), rt
            if n == "len" and len(node.args) == 1 and not node.keywords:
                o, to = self.expr(node.args[0], env, frame)
                if to[0] not in ("list", "dict"):
                    rej(node, "len of a %s" % cty(to))
                return "(py_len %s)" % o, Z
            if n == "sum" and not node.keywords and len(node.args) in (1, 2):
                o, to = self.expr(node.args[0], env, frame)
                if to[0] != "list":
                    rej(node, "sum of a %s" % cty(to))
                if len(node.args) == 1:
                    if to[1] != Z:
                        rej(node, "sum without start over %s" % cty(to[1]))
                    return "(py_sum_Z %s)" % o, Z
                s0, ts = self.expr(node.args[1], env, frame)
                if ts == STAT and to[1] == STAT:
                    return "(py_sum_with Stat_add %s %s)" % (o, s0), STAT
                if ts == ASTAT and to[1] == ASTAT:
                    return "(py_sum_with ActionStat_add %s %s)" % (o, s0), ASTAT
                rej(node, "sum with start of type %s" % cty(ts))
            if n == "zip" and not node.keywords and len(node.args) == 2:
                a, ta = self.expr(node.args[0], env, frame)
                b, tb = self.expr(node.args[1], env, frame)
                if ta[0] != "list" or tb[0] != "list":
                    rej(node, "zip of non-lists")
                return "(combine %s %s)" % (a, b), tlist(tpair(ta[1], tb[1]))
            if n == "enumerate" and not node.keywords and len(node.args) == 1:
                a, ta = self.expr(node.args[0], env, frame)
                if ta[0] != "list":
                    rej(node, "enumerate of a non-list")
                return "(py_enumerate %s)" % a, tlist(tpair(Z, ta[1]))
            if n == "range" and not node.keywords and len(node.args) == 1:
                a, ta = self.expr(node.args[0], env, frame)
                if ta != Z:
                    rej(node, "range of a non-int")
                return "(py_range %s)" % a, tlist(Z)
            if n == "list" and not node.keywords and len(node.args) == 1:
                a, ta = self.expr(node.args[0], env, frame)
                if ta[0] != "list":
                    rej(node, "list() of a non-list")
                return a, ta
            if n == "Stat" and not node.args and not node.keywords:
                return "Stat_zero", STAT
            if n == "ActionStat" and not node.args and not node.keywords:
                return "ActionStat_zero", ASTAT
            if n in MODELS:
                fields = self.tr.fields_of(n)
                if node.args:
                    rej(node, "positional constructor arguments")
                kws = {}
                for kw in node.keywords:
                    if kw.arg is None or kw.arg in kws:
                        rej(node, "constructor keyword not handled")
                    kws[kw.arg] = kw.value
                if set(kws) != {f_ for f_, _t in fields}:
                    rej(node, "constructor call does not give exactly the fields %s (defaults are not modelled)"
                        % [f_ for f_, _t in fields])
                args = []
                for f_, t in fields:
                    txt, ty = self.expr(kws[f_], env, frame, t)
                    if ty != t:
                        rej(node, "field %s has type %s, given %s" % (f_, cty(t), cty(ty)))
                    args.append(txt)
                return "(mk%s %s)" % (n, " ".join(args)), trec(n)
            if n in DATA_CALLS and not node.args and not node.keywords:
                c, t = DATA_CALLS[n]
                self.tr.used_data.add(n)
                if t[0] == "list" and isinstance(t[1], tuple) and t[1][0] == "rec":
                    self.tr.fields_of(t[1][1])
                return c, t
            # a module-level function of the data modules
            d = self.tr.need_function(n)
            args = self.args_for(d, node, env, frame, False)
            return self.apply(d, args, frame)

        if isinstance(f, ast.Attribute):
            m = f.attr
            # x.model_copy() of a value object
            o_node = f.value
            if m == "model_copy" and not node.args and not node.keywords:
                o, to = self.expr(o_node, env, frame)
                if to in (STAT, ASTAT):
                    return o, to
                rej(node, "model_copy of a %s" % cty(to))
            if m == "items" and not node.args and not node.keywords:
                o, to = self.expr(o_node, env, frame)
                if to[0] == "dict":
                    return "(py_dict_items %s)" % o, tlist(tpair(to[1], to[2]))
                rej(node, ".items() of a %s" % cty(to))
            if isinstance(o_node, ast.Name) and o_node.id == "self" and self.init_cls is not None:
                rej(node, "method call on the object under construction inside an expression")
            if isinstance(o_node, ast.Name) and o_node.id in MODELS and o_node.id not in env:
                d = self.tr.need_method(o_node.id, m)          # Hyperstat.get_maximum_cost_from_level(...)
                if d["params"] and d["params"][0][0] == "self":
                    rej(node, "instance method called on the class")
                args = self.args_for(d, node, env, frame, False)
                return self.apply(d, args, frame)
            o, to = self.expr(o_node, env, frame)
            if to == LOGIC:
                if m != "get_damage_factor":
                    rej(node, "only get_damage_factor of a damage logic is modelled")
                given = {}
                names = ["stat", "armor"]
                if len(node.args) > 2:
                    rej(node, "too many arguments")
                for p, a in zip(names, node.args):
                    given[p] = a
                for kw in node.keywords:
                    if kw.arg not in names or kw.arg in given:
                        rej(node, "keyword argument not handled")
                    given[kw.arg] = kw.value
                if "stat" not in given:
                    rej(node, "get_damage_factor without stat")
                st, ts = self.expr(given["stat"], env, frame)
                if ts != STAT:
                    rej(node, "get_damage_factor of a %s" % cty(ts))
                if "armor" in given:
                    ar, ta = self.expr(given["armor"], env, frame, Q)
                    if ta != Q:
                        rej(node, "armor of type %s" % cty(ta))
                else:
                    ar = qlit(self.tr.logic_default_armor)       # DamageLogic.get_damage_factor's own default
                return "(%s %s %s)" % (o, st, ar), Q
            if to[0] == "rec":
                d = self.tr.need_method(to[1], m)
                if not d["params"] or d["params"][0][0] != "self":
                    rej(node, "class method called on an instance")
                args = self.args_for(d, node, env, frame, True)
                return self.apply(d, [o] + args, frame)
            rej(node, "method call on a %s" % cty(to))
        rej(node, "call not handled")


# ------------------------------------------------------------------------------------------------ run half
DUMPER = r'''
import json, sys
from simaple.data.system.hyperstat import get_hyperstat_lists, get_empty_hyperstat_levels
from simaple.data.system.link import get_all_linkskills
from simaple.data.system.union_block import get_all_blocks
from simaple.system.union import get_union_occupation_values

def num(x):
    if isinstance(x, bool) or not isinstance(x, (int, float)):
        raise SystemExit("REJECT a stat field holds %r" % (x,))
    if x != x or x in (float("inf"), float("-inf")):
        raise SystemExit("REJECT a stat field holds %r" % (x,))
    return repr(x)

def dump(m):
    return {k: num(v) for k, v in m.model_dump().items()}

out = {}
out["get_hyperstat_lists"] = [[p.value, [dump(s) for s in opts]] for p, opts in get_hyperstat_lists()]
out["get_empty_hyperstat_levels"] = [int(x) for x in get_empty_hyperstat_levels()]
out["get_all_blocks"] = [{"job": b.job.value, "options": [dump(s) for s in b.options],
                          "action_stat_options": [dump(s) for s in b.action_stat_options]} for b in get_all_blocks()]
out["get_all_linkskills"] = [{"providing_jobs": [j.value for j in l.providing_jobs], "options": [dump(s) for s in l.options],
                              "name": l.name} for l in get_all_linkskills()]
out["get_union_occupation_values"] = [[[dump(s), dump(a)] for (s, a) in row] for row in get_union_occupation_values()]
sys.stdout.write("@@DUMP@@" + json.dumps(out))
'''


def run_dump(repo):
    env = dict(os.environ)
    env["PYTHONPATH"] = str(repo)
    env["PYTHONDONTWRITEBYTECODE"] = "1"
    env["PYTHONHASHSEED"] = "0"
    try:
        p = subprocess.run(["/venv/bin/python", "-c", DUMPER], env=env, cwd="/tmp", stdout=subprocess.PIPE,
                           stderr=subprocess.PIPE, text=True, timeout=300)
    except subprocess.TimeoutExpired:
        raise Reject("running the tree's table loaders timed out")
    if p.returncode != 0 or "@@DUMP@@" not in p.stdout:
        raise Reject("the tree's table loaders could not be run: " + (p.stderr or p.stdout).strip()[-600:])
    try:
        return json.loads(p.stdout.split("@@DUMP@@", 1)[1])
    except ValueError:
        raise Reject("dump not understood")


def model_fields(repo, cls):
    """annotated float fields of Stat / ActionStat in declaration order (simaple/core/base.py)"""
    p = os.path.join(repo, "simaple/core/base.py")
    tree = ast.parse(open(p, encoding="utf8").read())
    for n in tree.body:
        if isinstance(n, ast.ClassDef) and n.name == cls:
            out = []
            for st in n.body:
                if isinstance(st, ast.AnnAssign) and isinstance(st.target, ast.Name) and st.target.id != "model_config":
                    if ast.unparse(st.annotation) not in ("float", "int"):
                        raise Reject("%s.%s is not a number" % (cls, st.target.id))
                    out.append(st.target.id)
            return out
    raise Reject("class %s not found in core/base.py" % cls)


def frac(s: str) -> Fraction:
    return Fraction(Decimal(s))


class Data:
    def __init__(self, repo, raw):
        self.raw = raw
        self.stat_fields = model_fields(repo, "Stat")
        self.astat_fields = model_fields(repo, "ActionStat")

    def stat(self, d, fields, ctor):
        if sorted(d) != sorted(fields):
            raise Reject("dumped %s fields %s differ from the declared ones" % (ctor, sorted(set(d) ^ set(fields))))
        vals = [frac(d[f]) for f in fields]
        if all(v == 0 for v in vals):
            return "S0" if ctor == "S_" else "A0"
        return "(%s %s)" % (ctor, " ".join(qlit(v) for v in vals))

    def S(self, d):
        return self.stat(d, self.stat_fields, "S_")

    def A(self, d):
        return self.stat(d, self.astat_fields, "A_")

    def lst(self, xs):
        return "[" + ";\n    ".join(xs) + "]"


def emit_data(dt: Data, used):
    r = dt.raw
    L = []
    sf, af = dt.stat_fields, dt.astat_fields
    L.append("(* constructors by FIELD NAME: a field order different from gen/CoreQ.v's record is a type/definition error here *)")
    L.append("Definition S_ %s : Stat :=\n  {| %s |}." % (" ".join("(%s : Q)" % cname("v_" + f) for f in sf),
                                                       "; ".join("Stat_%s := %s" % (f, cname("v_" + f)) for f in sf)))
    L.append("Definition A_ %s : ActionStat :=\n  {| %s |}." % (" ".join("(%s : Q)" % cname("v_" + f) for f in af),
                                                            "; ".join("ActionStat_%s := %s" % (f, cname("v_" + f)) for f in af)))
    L.append("Definition S0 : Stat := S_ %s." % " ".join("(0#1)" for _ in sf))
    L.append("Definition A0 : ActionStat := A_ %s." % " ".join("(0#1)" for _ in af))
    L.append("(* every field in lowest terms (evaluation aid of the correspondence run; == fieldwise to its argument) *)")
    L.append("Definition stat_red (s : Stat) : Stat := S_ %s." % " ".join("(Qred (Stat_%s s))" % f for f in sf))
    L.append("")
    if "get_hyperstat_lists" in used:
        rows = ["(%s, %s)" % (slit(p), dt.lst([dt.S(s) for s in opts])) for p, opts in r["get_hyperstat_lists"]]
        L.append("(* get_hyperstat_lists(): (stat property, [Stat at level 0, 1, ...]) sorted by property *)")
        L.append("Definition data_hyperstat_lists : list (string * list Stat) :=\n  [%s]." % ";\n   ".join(rows))
    if "get_empty_hyperstat_levels" in used:
        L.append("Definition data_empty_hyperstat_levels : list Z := [%s]." % "; ".join(zlit(x) for x in r["get_empty_hyperstat_levels"]))
    if "get_all_blocks" in used:
        rows = ["(mkUnionBlock %s\n    %s\n    %s)" % (slit(b["job"]), dt.lst([dt.S(s) for s in b["options"]]),
                                                      dt.lst([dt.A(s) for s in b["action_stat_options"]]))
                for b in r["get_all_blocks"]]
        L.append("(* get_all_blocks(): one UnionBlock per job, options by block size 1.. *)")
        L.append("Definition data_all_blocks : list UnionBlock :=\n  [%s]." % ";\n   ".join(rows))
    if "get_all_linkskills" in used:
        rows = ["(mkLinkSkill [%s]\n    %s\n    %s)" % ("; ".join(slit(j) for j in l["providing_jobs"]),
                                                        dt.lst([dt.S(s) for s in l["options"]]), slit(l["name"]))
                for l in r["get_all_linkskills"]]
        L.append("(* get_all_linkskills(): options by link level 1.. ; names are unicode-escaped *)")
        L.append("Definition data_all_linkskills : list LinkSkill :=\n  [%s]." % ";\n   ".join(rows))
    if "get_union_occupation_values" in used:
        rows = [dt.lst(["(%s, %s)" % (dt.S(s), dt.A(a)) for s, a in row]) for row in r["get_union_occupation_values"]]
        L.append("(* get_union_occupation_values(): per occupation slot, (Stat, ActionStat) by occupied cells 0.. *)")
        L.append("Definition data_union_occupation_values : list (list (Stat * ActionStat)) :=\n  [%s]." % ";\n   ".join(rows))
    return "\n".join(L)


# ------------------------------------------------------------------------------------------------ driver
# what the proofs and the harness need; everything these reach is translated on demand
ROOTS_METHODS = [
    ("Hyperstat", "get_maximum_cost_from_level"), ("Hyperstat", "length"), ("Hyperstat", "get_cost_for_level"),
    ("Hyperstat", "get_current_cost"), ("Hyperstat", "get_stat"), ("Hyperstat", "get_level_rearranged"),
    ("UnionBlock", "get_stat"), ("UnionSquad", "length"), ("UnionSquad", "get_index"), ("UnionSquad", "get_masked"),
    ("UnionSquad", "get_stat"), ("UnionOccupation", "length"), ("UnionOccupation", "get_occupation_rearranged"),
    ("UnionOccupation", "get_stat"), ("LinkSkill", "get_stat"), ("LinkSkill", "get_max_level"),
    ("LinkSkillset", "length"), ("LinkSkillset", "get_index"), ("LinkSkillset", "get_masked"), ("LinkSkillset", "get_stat"),
]
ROOTS_TARGET_METHODS = ["get_value", "get_cost", "set_state"]
ROOTS_FUNCTIONS = ["get_hyperstat_cost", "get_kms_hyperstat", "create_with_some_large_blocks", "get_maximum_level",
                   "get_kms_link_skill_set", "get_empty_union_occupation_state",
                   "get_buff_duration_preempted_union_occupation_state"]


def type_repr(t):
    return t if isinstance(t, str) else list(type_repr(x) if not isinstance(x, str) else x for x in t)


def gen(repo="/repo"):
    repo = str(repo)
    tr = Translator(repo)
    tr.used_data = set()
    # records that the data tables mention must exist before the tables
    for m in MODELS:
        tr.need_model(m)
    n_records = len(tr.out)
    for cls, m in ROOTS_METHODS:
        tr.need_method(cls, m)
    for f in ROOTS_FUNCTIONS:
        tr.need_function(f)
    for t in TARGETS:
        tr.need_target(t)
        for m in ROOTS_TARGET_METHODS:
            tr.need_method(t, m)
    tr.used_data.add("get_union_occupation_values")     # UnionOccupation()'s default_factory table (harness / proofs)
    raw = run_dump(repo)
    dt = Data(repo, raw)
    head = ["(* GENERATED by tools/tr_targets.py -- do not edit.",
            "   Tables: obtained by RUNNING the loaders of simaple/data/system/{hyperstat,union_block,link}.py and",
            "   simaple/system/union.py (get_union_occupation_values).  Definitions: translated statement by statement",
            "   with `ast` from simaple/system/{hyperstat,union,link}.py, simaple/optimizer/{optimizer,hyperstat_optimizer,",
            "   union_optimizer,union_occupation_optimizer,link_optimizer}.py and simaple/data/system/*.py.",
            "   Python int = Z, float = Q, exception = None, damage logic = its get_damage_factor as Stat -> Q -> Q. *)",
            "From Coq Require Import List ZArith QArith Bool String.",
            "From V.Model Require Import TargetsRt.",
            "From G Require Import CoreQ.",
            "Import ListNotations.",
            "Close Scope Q_scope.",
            "Open Scope Z_scope.", ""]
    body = tr.out[:n_records] + [emit_data(dt, tr.used_data)] + tr.out[n_records:]
    text = "\n".join(head) + "\n\n".join(body) + "\n"
    meta = {
        "files": sorted(SOURCES.values()) + ["simaple/core/base.py", "simaple/core/damage.py"],
        "records": {n: [(f, type_repr(t)) for f, t in tr.records[n]] for n in tr.record_order},
        "defs": {("%s.%s" % k if k[0] not in ("", "const") else k[1]):
                 {"coq": d["coq"], "params": [(p, type_repr(t)) for p, t in d["params"]], "ret": type_repr(d["ret"]),
                  "fallible": d["fallible"]} for k, d in tr.defs.items()},
        "stat_fields": dt.stat_fields, "action_stat_fields": dt.astat_fields,
        "tables": {"hyperstat_slots": len(raw["get_hyperstat_lists"]),
                   "hyperstat_levels": sorted({len(o) for _p, o in raw["get_hyperstat_lists"]}),
                   "union_blocks": len(raw["get_all_blocks"]), "link_skills": len(raw["get_all_linkskills"]),
                   "occupation_slots": len(raw["get_union_occupation_values"]),
                   "occupation_levels": sorted({len(r) for r in raw["get_union_occupation_values"]})},
        "run": ["get_hyperstat_lists", "get_empty_hyperstat_levels", "get_all_blocks", "get_all_linkskills",
                "get_union_occupation_values"],
        "logic_default_armor": str(tr.logic_default_armor),
    }
    return {"Targets.v": text}, meta


if __name__ == "__main__":
    files, meta = gen(sys.argv[1] if len(sys.argv) > 1 else "/repo")
    out = sys.argv[2] if len(sys.argv) > 2 else "/tmp"
    for n, t in files.items():
        open(os.path.join(out, n), "w").write(t)
    print(json.dumps(meta["defs"], indent=0)[:3000])
