"""T-history: fail-closed translator  Python `ast` -> Gallina  for the bookkeeping methods of the recorded history,
simaple/simulate/policy/base.py:

    OperationLog.last
    SimulationHistory.commit, discard_after, get_hash_index, _last_playlog, last_events, _current_ckpt

-> gen/HistorySrc.v, terms over the combinators of theories/Lib/PyHist.v (option monad: None = the Python code raises).
Proofs/HistoryTie.v proves each generated term equal to the corresponding definition of the hand-written engine model
(Model/Engine.v: last_plog, last_events, last_hash, firstn (S i), the appended log of exec) and proves, about the GENERATED
get_hash_index, that in a chained history a hash locates its log (Props/C03_history.v).  So an edit of an offset (`idx - 1`), of the
field compared (`previous_hash` / `hash`), of the iteration order (`reversed`), of the guard (`if log.playlogs`), of the slice bound
(`[: idx + 1]`) or of the value committed as previous hash changes the generated term and a tie lemma stops compiling - or the
construct is outside the tiny accepted language and the translator rejects the source.

Accepted language (anything else raises Rejected):
  expressions  self._logs | local | e.<field> | e.last() | e[-1] | len(e) | list(e) | int / "" / [] constants | a + b | a - b
               | a == b | e[: k]
  statements   return e | raise ... | if t: <returning block>  (then the rest) | if t: x = a else: x = b
               | for v in [reversed(]e[)] / for i, v in enumerate(e):  if t: return r
               | self._logs = e ; self._cached_store = None            (discard_after: the method's result is the new list)
               | commit: the fixed tail `OperationLog(command=.., playlogs=.., previous_hash=<local>, description=..)`, append, optional
                 cache assignment, return
"""
from __future__ import annotations

import ast

SRC = "simaple/simulate/policy/base.py"

LOGS, LOG, PLOGS, PLOG, HASH, INT, EVS, CK, BOOL = "logs", "log", "plogs", "plog", "hash", "int", "evs", "ck", "bool"
FIELDS = {(LOG, "playlogs"): ("f_playlogs", PLOGS), (LOG, "previous_hash"): ("f_previous_hash", HASH), (LOG, "hash"): ("f_hash", HASH),
          (PLOG, "events"): ("f_events", EVS), (PLOG, "checkpoint"): ("f_checkpoint", CK)}
ELEM = {LOGS: LOG, PLOGS: PLOG}


class Rejected(Exception):
    pass


def bad(node, why):
    raise Rejected("%s (line %s): %s" % (why, getattr(node, "lineno", "?"), ast.dump(node)[:140]))


class Tr:
    def __init__(self, methods):
        self.methods = methods          # name -> generated Coq name, for calls of translated methods
        self.n = 0

    def fresh(self, base="v"):
        self.n += 1
        return "%s%d" % (base, self.n)

    # ---------------------------------------------------------------- expressions: -> (term : option tau, type)
    def expr(self, e, env):
        if isinstance(e, ast.Attribute) and isinstance(e.value, ast.Name) and e.value.id == "self":
            if e.attr == "_logs":
                return "(Some ls)", LOGS
            if (env.get("self"), e.attr) in FIELDS:
                f, t = FIELDS[(env["self"], e.attr)]
                return "(Some (%s self))" % f, t
            bad(e, "attribute of self outside the language")
        if isinstance(e, ast.Name):
            if e.id in env:
                return "(Some %s)" % e.id, env[e.id]
            bad(e, "unknown name")
        if isinstance(e, ast.Constant):
            if type(e.value) is int:
                return "(Some (%d)%%Z)" % e.value, INT
            if e.value == "":
                return "(Some H0)", HASH
            bad(e, "constant outside the language")
        if isinstance(e, ast.List) and not e.elts:
            return "(Some [])", EVS
        if isinstance(e, ast.Attribute):
            t, ty = self.expr(e.value, env)
            if (ty, e.attr) in FIELDS:
                f, rt = FIELDS[(ty, e.attr)]
                v = self.fresh()
                return "(bind %s (fun %s => Some (%s %s)))" % (t, v, f, v), rt
            bad(e, "field %s of a %s" % (e.attr, ty))
        if isinstance(e, ast.Call):
            if isinstance(e.func, ast.Attribute) and not e.args and not e.keywords:
                t, ty = self.expr(e.func.value, env)
                key = (ty, e.func.attr)
                if key in self.methods:
                    name, rt = self.methods[key]
                    v = self.fresh()
                    return "(bind %s (fun %s => %s %s))" % (t, v, name, v), rt
                bad(e, "method call outside the language")
            if isinstance(e.func, ast.Name) and len(e.args) == 1 and not e.keywords:
                t, ty = self.expr(e.args[0], env)
                if e.func.id == "len" and ty in (LOGS, PLOGS, EVS):
                    v = self.fresh()
                    return "(bind %s (fun %s => Some (py_len %s)))" % (t, v, v), INT
                if e.func.id == "list" and ty in (LOGS, PLOGS, EVS):
                    return t, ty
            bad(e, "call outside the language")
        if isinstance(e, ast.Subscript):
            t, ty = self.expr(e.value, env)
            s = e.slice
            if isinstance(s, ast.UnaryOp) and isinstance(s.op, ast.USub) and isinstance(s.operand, ast.Constant) and s.operand.value == 1 \
                    and ty in ELEM:
                v = self.fresh()
                return "(bind %s (fun %s => py_last %s))" % (t, v, v), ELEM[ty]
            if isinstance(s, ast.Slice) and s.lower is None and s.step is None and s.upper is not None and ty in ELEM:
                k, kt = self.expr(s.upper, env)
                if kt != INT:
                    bad(e, "slice bound is not an integer")
                v, w = self.fresh(), self.fresh()
                return "(bind %s (fun %s => bind %s (fun %s => Some (py_slice_to %s %s))))" % (t, v, k, w, v, w), ty
            bad(e, "subscript outside the language")
        if isinstance(e, ast.BinOp) and isinstance(e.op, (ast.Add, ast.Sub)):
            a, ta = self.expr(e.left, env)
            b, tb = self.expr(e.right, env)
            if ta == tb == INT:
                v, w = self.fresh(), self.fresh()
                return "(bind %s (fun %s => bind %s (fun %s => Some (%s %s %s)%%Z)))" % (
                    a, v, b, w, v, "+" if isinstance(e.op, ast.Add) else "-", w), INT
            bad(e, "arithmetic on non-integers")
        if isinstance(e, ast.Compare) and len(e.ops) == 1 and isinstance(e.ops[0], ast.Eq):
            a, ta = self.expr(e.left, env)
            b, tb = self.expr(e.comparators[0], env)
            if ta == tb and ta in (HASH, INT):
                v, w = self.fresh(), self.fresh()
                return "(bind %s (fun %s => bind %s (fun %s => Some (%s %s %s))))" % (
                    a, v, b, w, "H_eqb" if ta == HASH else "Z.eqb", v, w), BOOL
            bad(e, "comparison of %s with %s" % (ta, tb))
        bad(e, "expression outside the language")

    def test(self, e, env):
        t, ty = self.expr(e, env)
        if ty == BOOL:
            return t
        if ty in (LOGS, PLOGS, EVS):
            v = self.fresh()
            return "(bind %s (fun %s => Some (py_truthy %s)))" % (t, v, v)
        bad(e, "truth value of a %s" % ty)

    # ---------------------------------------------------------------- statements: -> term : option R  (None = raises)
    def block(self, stmts, env, rtype):
        """(term, returns_on_every_path)"""
        stmts = [s for s in stmts if not (isinstance(s, ast.Expr) and isinstance(s.value, ast.Constant) and isinstance(s.value.value, str))]
        if not stmts:
            return None, False
        s, rest = stmts[0], stmts[1:]
        if isinstance(s, ast.Return) and s.value is not None:
            if rest:
                bad(s, "statements after return")
            t, ty = self.expr(s.value, env)
            if ty != rtype:
                bad(s, "returns a %s, expected %s" % (ty, rtype))
            return t, True
        if isinstance(s, ast.Raise):
            if rest:
                bad(s, "statements after raise")
            return "None", True
        if isinstance(s, ast.If):
            c = self.test(s.test, env)
            # if t: x = a else: x = b ; rest
            if len(s.body) == 1 and len(s.orelse) == 1 and all(isinstance(x, ast.Assign) and len(x.targets) == 1 and
                                                                isinstance(x.targets[0], ast.Name) for x in (s.body[0], s.orelse[0])) \
                    and s.body[0].targets[0].id == s.orelse[0].targets[0].id:
                x = s.body[0].targets[0].id
                a, ta = self.expr(s.body[0].value, env)
                b, tb = self.expr(s.orelse[0].value, env)
                if ta != tb:
                    bad(s, "branches assign different types")
                r, ok = self.block(rest, dict(env, **{x: ta}), rtype)
                if not ok:
                    bad(s, "the rest does not return on every path")
                v = self.fresh("c")
                return "(bind (bind %s (fun %s => if %s then %s else %s)) (fun %s => %s))" % (c, v, v, a, b, x, r), True
            if s.orelse:
                bad(s, "if/else outside the language")
            body, ok = self.block(s.body, env, rtype)
            if not ok:
                bad(s, "if body does not return")
            r, ok2 = self.block(rest, env, rtype)
            if not ok2:
                bad(s, "no return after the if")
            v = self.fresh("c")
            return "(bind %s (fun %s => if %s then %s else %s))" % (c, v, v, body, r), True
        if isinstance(s, ast.For) and not s.orelse:
            it = s.iter
            rev = enum = False
            if isinstance(it, ast.Call) and isinstance(it.func, ast.Name) and it.func.id in ("reversed", "enumerate") and len(it.args) == 1 \
                    and not it.keywords:
                rev, enum = it.func.id == "reversed", it.func.id == "enumerate"
                it = it.args[0]
            xs, ty = self.expr(it, env)
            if ty not in ELEM:
                bad(s, "iteration over a %s" % ty)
            env2 = dict(env)
            if enum:
                if not (isinstance(s.target, ast.Tuple) and len(s.target.elts) == 2 and all(isinstance(x, ast.Name) for x in s.target.elts)):
                    bad(s, "enumerate target")
                i, v = s.target.elts[0].id, s.target.elts[1].id
                env2[i], env2[v] = INT, ELEM[ty]
                pat = "'(%s, %s)" % (i, v)
            else:
                if not isinstance(s.target, ast.Name):
                    bad(s, "loop target")
                env2[s.target.id] = ELEM[ty]
                pat = s.target.id
            if not (len(s.body) == 1 and isinstance(s.body[0], ast.If) and not s.body[0].orelse and len(s.body[0].body) == 1
                    and isinstance(s.body[0].body[0], ast.Return) and s.body[0].body[0].value is not None):
                bad(s, "loop body is not `if t: return r`")
            c = self.test(s.body[0].test, env2)
            r, rt = self.expr(s.body[0].body[0].value, env2)
            if rt != rtype:
                bad(s, "loop returns a %s, expected %s" % (rt, rtype))
            rest_t, ok = self.block(rest, env, rtype)
            if not ok:
                bad(s, "no return after the loop")
            cv, rv, lv = self.fresh("c"), self.fresh("r"), self.fresh("l")
            seq = "(rev %s)" % lv if rev else ("(py_enumerate %s)" % lv if enum else lv)
            return ("(bind %s (fun %s => py_for (fun %s => bind %s (fun %s => if %s then bind %s (fun %s => Some (Some %s)) else Some None)) %s %s))"
                    % (xs, lv, pat, c, cv, cv, r, rv, rv, seq, rest_t)), True
        bad(s, "statement outside the language")


def method(cls, name):
    for n in cls.body:
        if isinstance(n, ast.FunctionDef) and n.name == name:
            return n
    raise Rejected("method %s.%s not found" % (cls.name, name))


def args_of(fn):
    a = fn.args
    if a.vararg or a.kwarg or a.kwonlyargs or a.posonlyargs:
        bad(fn, "signature")
    return [x.arg for x in a.args]


def gen(repo):
    import os
    path = os.path.join(str(repo), SRC)
    tree = ast.parse(open(path, encoding="utf-8").read())
    classes = {n.name: n for n in tree.body if isinstance(n, ast.ClassDef)}
    for c in ("OperationLog", "SimulationHistory"):
        if c not in classes:
            raise Rejected("class %s not found in %s" % (c, SRC))
    ol, sh = classes["OperationLog"], classes["SimulationHistory"]
    out, functions = [], []

    # OperationLog.hash / _fast_dumped_string: what the digest covers (the model's lhash = hashf previous_hash command (playlogs without
    # their checkpoints); the description is not covered) - compared with the reviewed shapes
    for name, text in (("hash", "if not self._calculated_hash:\n"
                                "    stringified = self.previous_hash + self._fast_dumped_string()\n"
                                "    self._calculated_hash = hashlib.sha1(stringified.encode()).hexdigest()\n"
                                "return self._calculated_hash\n"),
                       ("_fast_dumped_string", "return self.command.model_dump_json() + '|'.join((playlog.model_dump_json(exclude=set(['checkpoint'])) "
                                               "for playlog in self.playlogs))\n")):
        got = [st for st in method(ol, name).body if not (isinstance(st, ast.Expr) and isinstance(st.value, ast.Constant))]
        want = ast.parse(text).body
        if len(got) != len(want) or any(ast.dump(a) != ast.dump(b) for a, b in zip(got, want)):
            raise Rejected("OperationLog.%s is not the reviewed shape (the digest must cover previous_hash, the command and the play logs "
                           "without their checkpoints): %s" % (name, " ".join(ast.unparse(method(ol, name)).split())[:300]))
    functions += ["OperationLog.hash (reviewed shape)", "OperationLog._fast_dumped_string (reviewed shape)"]

    # OperationLog.last
    fn = method(ol, "last")
    if args_of(fn) != ["self"]:
        bad(fn, "signature of last")
    tr = Tr({})
    t, ok = tr.block(fn.body, {"self": LOG}, PLOG)
    out.append("Definition m_last (self : oplog) : option playlog :=\n  %s." % t)
    functions.append("OperationLog.last")
    methods = {(LOG, "last"): ("m_last", PLOG)}

    # SimulationHistory._last_playlog, last_events, _current_ckpt, get_hash_index
    for name, params, rtype, coqret in (("_last_playlog", [], PLOG, "playlog"), ("last_events", [], EVS, "list Ev"),
                                        ("get_hash_index", [("log_hash", HASH, "H")], INT, "Z")):
        fn = method(sh, name)
        if args_of(fn) != ["self"] + [p[0] for p in params]:
            bad(fn, "signature of %s" % name)
        tr = Tr(methods)
        t, ok = tr.block(fn.body, {p[0]: p[1] for p in params}, rtype)
        if not ok:
            bad(fn, "does not return on every path")
        out.append("Definition src_%s (ls : list oplog)%s : option (%s) :=\n  %s." % (
            name.lstrip("_"), "".join(" (%s : %s)" % (p[0], p[2]) for p in params), coqret, t))
        functions.append("SimulationHistory." + name)
        if name == "_last_playlog":
            methods[("HIST", "_last_playlog")] = ("src_last_playlog ls", PLOG)
    # _current_ckpt: return self._last_playlog().checkpoint
    fn = method(sh, "_current_ckpt")
    b = [s for s in fn.body if not (isinstance(s, ast.Expr) and isinstance(s.value, ast.Constant))]
    if not (args_of(fn) == ["self"] and len(b) == 1 and isinstance(b[0], ast.Return) and isinstance(b[0].value, ast.Attribute)
            and b[0].value.attr == "checkpoint" and isinstance(b[0].value.value, ast.Call) and not b[0].value.value.args
            and isinstance(b[0].value.value.func, ast.Attribute) and b[0].value.value.func.attr == "_last_playlog"
            and isinstance(b[0].value.value.func.value, ast.Name) and b[0].value.value.func.value.id == "self"):
        bad(fn, "_current_ckpt is not `return self._last_playlog().checkpoint`")
    out.append("Definition src_current_ckpt (ls : list oplog) : option Ck :=\n  (bind (src_last_playlog ls) (fun v => Some (f_checkpoint v))).")
    functions.append("SimulationHistory._current_ckpt")

    # discard_after(self, idx): self._logs = <expr>; self._cached_store = None
    fn = method(sh, "discard_after")
    b = [s for s in fn.body if not (isinstance(s, ast.Expr) and isinstance(s.value, ast.Constant))]
    if not (args_of(fn) == ["self", "idx"] and len(b) == 2 and all(isinstance(s, ast.Assign) and len(s.targets) == 1 for s in b)
            and ast.unparse(b[0].targets[0]) == "self._logs" and ast.unparse(b[1].targets[0]) == "self._cached_store"
            and isinstance(b[1].value, ast.Constant) and b[1].value.value is None):
        bad(fn, "discard_after is not `self._logs = e; self._cached_store = None`")
    tr = Tr(methods)
    t, ty = tr.expr(b[0].value, {"idx": INT})
    if ty != LOGS:
        bad(fn, "discard_after assigns a %s" % ty)
    out.append("(* the new value of self._logs; the cached store is dropped (the model's of_logs has cache = None) *)\n"
               "Definition src_discard_after (ls : list oplog) (idx : Z) : option (list oplog) :=\n  %s." % t)
    functions.append("SimulationHistory.discard_after")

    # commit(self, operation, playlogs, description=None, moved_store=None)
    fn = method(sh, "commit")
    if args_of(fn) != ["self", "operation", "playlogs", "description", "moved_store"]:
        bad(fn, "signature of commit")
    b = [s for s in fn.body if not (isinstance(s, ast.Expr) and isinstance(s.value, ast.Constant))]
    if len(b) != 5:
        bad(fn, "commit has %d statements, expected 5" % len(b))
    want_tail = ast.parse(
        "operation_log = OperationLog(command=operation, playlogs=playlogs, previous_hash=previous_hash, description=description)\n"
        "self._logs.append(operation_log)\n"
        "if moved_store:\n    self._cached_store = moved_store\n"
        "return operation_log\n").body
    for got, want in zip(b[1:], want_tail):
        if ast.dump(got) != ast.dump(want):
            bad(got, "commit: statement differs from the reviewed shape `%s`" % ast.unparse(want).split("\n")[0])
    s = b[0]
    if not (isinstance(s, ast.If) and len(s.body) == 1 and len(s.orelse) == 1 and isinstance(s.body[0], ast.Assign)
            and isinstance(s.orelse[0], ast.Assign) and ast.unparse(s.body[0].targets[0]) == "previous_hash"
            and ast.unparse(s.orelse[0].targets[0]) == "previous_hash"):
        bad(s, "commit does not start by choosing previous_hash")
    tr = Tr(methods)
    ret = ast.Return(value=ast.Name(id="previous_hash", ctx=ast.Load()))
    t, ok = tr.block([s, ret], {}, HASH)
    out.append("(* the previous hash a committed log receives, and the history after the commit *)\n"
               "Definition src_commit_previous_hash (ls : list oplog) : option H :=\n  %s." % t)
    out.append("Definition src_commit (ls : list oplog) (operation : cmd T Name) (playlogs : list playlog) (description : option D)"
               " : option (list oplog) :=\n  bind (src_commit_previous_hash ls) (fun previous_hash => Some (ls ++ "
               "[Build_oplog Ev Act Ck H T D Name operation playlogs description previous_hash])).")
    functions.append("SimulationHistory.commit")

    text = HEADER + "\n\n".join(out) + "\n\nEnd HistorySrc.\n"
    return {"HistorySrc.v": text}, {"functions": functions, "source": SRC}


HEADER = """(* GENERATED by tools/tr_history.py from simaple/simulate/policy/base.py - do not edit *)
From Coq Require Import List ZArith Bool.
Import ListNotations.
From V Require Import Lib.PyHist Model.Engine.

Section HistorySrc.
  Variables Ev Act Ck H T D Name : Type.
  Variable H0 : H.                                                           (* the string "" *)
  Variable hashf : H -> cmd T Name -> list (T * Act * list Ev) -> H.         (* sha1 over previous hash + dumped command and play logs *)
  Variable H_eqb : H -> H -> bool.
  Notation oplog := (oplog Ev Act Ck H T D Name).
  Notation playlog := (playlog Ev Act Ck T).
  Definition f_playlogs (l : oplog) : list playlog := lplogs Ev Act Ck H T D Name l.
  Definition f_previous_hash (l : oplog) : H := lprev Ev Act Ck H T D Name l.
  Definition f_hash (l : oplog) : H := lhash Ev Act Ck H T D Name hashf l.
  Definition f_events (p : playlog) : list Ev := pevents Ev Act Ck T p.
  Definition f_checkpoint (p : playlog) : Ck := pck Ev Act Ck T p.

"""

if __name__ == "__main__":
    import sys
    files, meta = gen(sys.argv[1] if len(sys.argv) > 1 else "/repo")
    print(files["HistorySrc.v"])
