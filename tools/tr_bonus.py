"""T-bonus: regenerate gen/BonusTbl.v -- the REAL tables of the bonus-option inference (C18).

Two sources, both fail-closed (anything unexpected raises, nothing is guessed):

* Python ``ast`` of ``simaple/gear/compute/bonus.py``: the literals that live inside function
  bodies (`_MAX_BONUS`, `_stat_types`, the three grade lists with their boss/non-boss branches,
  `range(8)` of the table builder, `_dual_bonus_types`, `single_properties`);
* execution of the tree's own table-building code in a fresh interpreter with
  ``PYTHONPATH=<repo>``: ``CachedBonusTypeTable().lookup``, ``SDIL(v).get_index()`` on the 16
  zero/non-zero patterns, ``SDILTableBuilder().build(gear)`` for both ends of every 10-level band of the
  required level up to 309 x boss flag, and ``BonusFactory.create(kind, grade).calculate_improvement(meta)`` for the
  single-valued kinds on armour at the same levels and on weapons (three weapon classes,
  boss/non-boss, every level band of the attack formula, several base attacks).

Proofs/BonusTie.v then proves, by ``vm_compute``, that the hand-written model computes exactly
these tables (and that the real candidate table is complete).  `gen(repo)` -> (files, meta).
"""
from __future__ import annotations

import ast
import json
import os
import subprocess
import sys

KINDS = ["STR", "DEX", "INT", "LUK", "STR_DEX", "STR_INT", "STR_LUK", "DEX_INT", "DEX_LUK", "INT_LUK",
         "MHP", "MMP", "attack_power", "magic_attack", "boss_damage_multiplier", "damage_multiplier",
         "all_stat_multiplier"]
COQ_KINDS = ["KSTR", "KDEX", "KINT", "KLUK", "KSTR_DEX", "KSTR_INT", "KSTR_LUK", "KDEX_INT", "KDEX_LUK",
             "KINT_LUK", "KMHP", "KMMP", "KATT", "KMATT", "KBOSS", "KDMG", "KALL"]
COORDS = ["STR", "DEX", "INT", "LUK", "MHP", "MMP", "attack_power", "magic_attack",
          "boss_damage_multiplier", "damage_multiplier", "STR_multiplier"]
COQ_COORDS = ["cSTR", "cDEX", "cINT", "cLUK", "cMHP", "cMMP", "cATT", "cMATT", "cBOSS", "cDMG", "cALL"]
WCLASS = ["WArmor", "WWeapon", "WZeroB", "WZeroL"]

# both ends of every 10-level band up to 300 (the formulas are constant on bands of 10, 20 and 40 levels)
# and both sides of every threshold of the attack formula
ARMOUR_LEVELS = sorted({10 * k + d for k in range(31) for d in (0, 9)} | {110, 111, 150, 151, 160, 161, 180, 181})
WEAPON_LEVELS = [0, 100, 110, 111, 120, 150, 151, 160, 161, 180, 181, 200, 250]
WEAPON_BASES = [100, 103, 135, 169, 203, 293, 337]      # known to sword_zl as well


class Reject(Exception):
    pass


# ------------------------------------------------------------------------------ ast half
def _kind(node):
    if isinstance(node, ast.Attribute) and isinstance(node.value, ast.Name) and node.value.id == "BonusType" \
            and node.attr in KINDS:
        return COQ_KINDS[KINDS.index(node.attr)]
    raise Reject("expected BonusType.<kind>, found " + ast.dump(node)[:80])


def _coord(node):
    if isinstance(node, ast.Attribute) and isinstance(node.value, ast.Name) and node.value.id == "StatProps" \
            and node.attr in COORDS:
        return COQ_COORDS[COORDS.index(node.attr)]
    raise Reject("expected StatProps.<modelled field>, found " + ast.dump(node)[:80])


def _intlist(node):
    if isinstance(node, ast.List) and all(isinstance(e, ast.Constant) and type(e.value) is int for e in node.elts):
        return [e.value for e in node.elts]
    raise Reject("expected a list of int literals, found " + ast.dump(node)[:80])


def _boss_branches(node):
    """`A if gear.meta.boss_reward else B` -> (A, B)"""
    if isinstance(node, ast.IfExp) and ast.unparse(node.test) == "gear.meta.boss_reward":
        return _intlist(node.body), _intlist(node.orelse)
    raise Reject("expected `<list> if gear.meta.boss_reward else <list>`, found " + ast.unparse(node)[:80])


def _find_func(tree, cls, name):
    for n in tree.body:
        if isinstance(n, ast.ClassDef) and n.name == cls:
            for f in n.body:
                if isinstance(f, ast.FunctionDef) and f.name == name:
                    return f
    raise Reject("no %s.%s in compute/bonus.py" % (cls, name))


def _assign_in(func, target_src):
    found = [n for n in ast.walk(func) if isinstance(n, ast.Assign) and len(n.targets) == 1
             and ast.unparse(n.targets[0]) == target_src]
    if len(found) != 1:
        raise Reject("%d assignments to %s in %s (expected exactly 1)" % (len(found), target_src, func.name))
    return found[0].value


def read_ast(repo):
    path = os.path.join(repo, "simaple/gear/compute/bonus.py")
    tree = ast.parse(open(path, encoding="utf8").read())
    mod = {}
    for n in tree.body:
        if isinstance(n, ast.Assign) and len(n.targets) == 1 and isinstance(n.targets[0], ast.Name):
            mod[n.targets[0].id] = n.value
    out = {}
    mb = mod.get("_MAX_BONUS")
    if not (isinstance(mb, ast.Constant) and type(mb.value) is int):
        raise Reject("_MAX_BONUS is not an int literal")
    out["max_bonus"] = mb.value
    st = mod.get("_stat_types")
    if not isinstance(st, ast.List):
        raise Reject("_stat_types is not a list literal")
    out["stat_types"] = [_kind(e) for e in st.elts]
    build = _find_func(tree, "SDILTableBuilder", "build")
    out["grade_range"] = _boss_branches(_assign_in(build, "grade_range"))
    rng = [n for n in ast.walk(build) if isinstance(n, ast.For) and ast.unparse(n.target) == "g"]
    if len(rng) != 1 or not ast.unparse(rng[0].iter).startswith("range(") or len(rng[0].iter.args) != 1 \
            or not isinstance(rng[0].iter.args[0], ast.Constant):
        raise Reject("SDILTableBuilder.build: expected one `for g in range(<n>)`")
    out["table_rows"] = rng[0].iter.args[0].value
    out["grades_sdil"] = _boss_branches(_assign_in(_find_func(tree, "StatBonusCalculator", "compute"), "self._grades"))
    sb = _find_func(tree, "StatBonusCalculator", "_search_bonus")
    d = _assign_in(sb, "_dual_bonus_types")
    if not isinstance(d, ast.Dict):
        raise Reject("_dual_bonus_types is not a dict literal")
    out["dual_types"] = []
    for k, v in zip(d.keys, d.values):
        if not isinstance(v, (ast.Tuple, ast.List)):
            raise Reject("_dual_bonus_types value is not a tuple")
        out["dual_types"].append((_kind(k), [_kind(e) for e in v.elts]))
    comp = _find_func(tree, "BonusCalculator", "compute")
    out["grades_single"] = _boss_branches(_assign_in(comp, "grades"))
    bl = _assign_in(comp, "bonus_count_left")
    if ast.unparse(bl) != "_MAX_BONUS":
        raise Reject("bonus_count_left does not start from _MAX_BONUS")
    sp = _assign_in(comp, "single_properties")
    if not isinstance(sp, ast.List):
        raise Reject("single_properties is not a list literal")
    out["single_props"] = []
    for e in sp.elts:
        if not (isinstance(e, ast.Tuple) and len(e.elts) == 2):
            raise Reject("single_properties entry is not a pair")
        out["single_props"].append((_coord(e.elts[0]), _kind(e.elts[1])))
    return out


# ------------------------------------------------------------------------------ execution half
DUMPER = r'''
import json, sys
from simaple.core import Stat
from simaple.gear.bonus_factory import BonusFactory, BonusType
from simaple.gear.compute.bonus import SDIL, SDILTableBuilder, CachedBonusTypeTable, _stat_types
from simaple.gear.gear import Gear, GearMeta
from simaple.gear.gear_type import GearType
spec = json.load(sys.stdin)
KINDS, COORDS = spec["kinds"], spec["coords"]
TIED = ("DEX_multiplier", "INT_multiplier", "LUK_multiplier")

def gear(w, boss, level, basis):
    typ = [GearType.cap, GearType.th_sword, GearType.sword_zb, GearType.sword_zl][w]
    base = Stat() if w == 0 else Stat(attack_power=basis, magic_attack=max(basis - 9, 0))
    return Gear.create_bare_gear(GearMeta(id=1, name="verif", base_stat=base, type=typ, req_level=level,
                                          boss_reward=bool(boss), max_scroll_chance=7))

def sparse(stat):
    d = stat.model_dump()
    out = []
    for f, v in d.items():
        if f in TIED:
            if v != d["STR_multiplier"]:
                raise SystemExit("REJECT improvement sets %s differently from STR_multiplier" % f)
            continue
        if v == 0:
            continue
        if f not in COORDS:
            raise SystemExit("REJECT improvement touches the unmodelled field %s" % f)
        if v != int(v):
            raise SystemExit("REJECT improvement %s=%r is not an integer" % (f, v))
        out.append([COORDS.index(f), int(v)])
    return sorted(out)

out = {}
out["lookup"] = [[t.value for t in l] for l in CachedBonusTypeTable().lookup]
out["index"] = []
for p in range(16):
    v = [3 * ((p >> b) & 1) for b in range(4)]
    out["index"].append([v, SDIL(value=tuple(v)).get_index()])
out["stat_types_runtime"] = [t.value for t in _stat_types]
builder = SDILTableBuilder()
out["sdil"] = []
for level in spec["armour_levels"]:
    for boss in (0, 1):
        t = builder.build(gear(0, boss, level, 0))
        if list(t.keys()) != list(_stat_types):
            raise SystemExit("REJECT table keys differ from _stat_types")
        out["sdil"].append([level, boss, [[list(s.value) for s in t[k]] for k in _stat_types]])
bf = BonusFactory()
bts = {k: BonusType(k) for k in KINDS}
out["impr"] = []
def rows(g, kinds, grades):
    return [[k, [sparse(bf.create(bts[KINDS[k]], gr).calculate_improvement(g.meta)) for gr in grades]] for k in kinds]
for level in spec["armour_levels"]:
    for boss in (0, 1):
        grades = spec["range_boss"] if boss else spec["range_normal"]
        out["impr"].append([[0, boss, level, 0], rows(gear(0, boss, level, 0), list(range(10, 17)), grades)])
for w in (1, 2, 3):
    for level in spec["weapon_levels"]:
        for boss in (0, 1):
            grades = spec["range_boss"] if boss else spec["range_normal"]
            for basis in spec["weapon_bases"]:
                out["impr"].append([[w, boss, level, basis], rows(gear(w, boss, level, basis), [12, 13], grades)])
json.dump(out, sys.stdout)
'''


def run_dump(repo, ast_info):
    env = dict(os.environ)
    env["PYTHONPATH"] = str(repo)
    env["PYTHONDONTWRITEBYTECODE"] = "1"
    env["PYTHONHASHSEED"] = "0"
    spec = {"kinds": KINDS, "coords": COORDS, "armour_levels": ARMOUR_LEVELS, "weapon_levels": WEAPON_LEVELS,
            "weapon_bases": WEAPON_BASES, "range_boss": ast_info["grade_range"][0],
            "range_normal": ast_info["grade_range"][1]}
    try:
        p = subprocess.run(["/venv/bin/python", "-c", DUMPER], input=json.dumps(spec), env=env, cwd="/tmp",
                           stdout=subprocess.PIPE, stderr=subprocess.PIPE, text=True, timeout=600)
    except subprocess.TimeoutExpired:
        raise Reject("dumping the real tables timed out")
    if p.returncode != 0:
        raise Reject("the tree's table-building code could not be run: " + (p.stderr or p.stdout).strip()[-600:])
    out = p.stdout
    i = out.find("{")          # AttackTypeBonus may print a notice before
    try:
        return json.loads(out[i:])
    except ValueError:
        raise Reject("dump not understood: " + out[-300:])


# ------------------------------------------------------------------------------ emit
def z(n):
    return "(%d)" % n if n < 0 else str(n)


def zlist(xs):
    return "[" + ";".join(z(x) for x in xs) + "]"


def kname(name):
    if name not in KINDS:
        raise Reject("unknown bonus kind " + repr(name))
    return COQ_KINDS[KINDS.index(name)]


def gen(repo="/repo"):
    a = read_ast(str(repo))
    d = run_dump(str(repo), a)
    if [kname(n) for n in d["stat_types_runtime"]] != a["stat_types"]:
        raise Reject("_stat_types read from the source differs from the imported value")
    L = ["(* GENERATED by tools/tr_bonus.py from simaple/gear/compute/bonus.py, bonus_factory.py and",
         "   improvements/bonus.py (literals by ast, tables by running the tree's own code). Do not edit. *)",
         "From Coq Require Import ZArith List Bool.", "Import ListNotations.",
         "From V.Model Require Import Bonus.", "Open Scope Z_scope.", ""]
    L.append("Definition real_max_bonus : Z := %s." % z(a["max_bonus"]))
    L.append("Definition real_table_rows : Z := %s." % z(a["table_rows"]))
    L.append("Definition real_stat_types : list kind := [%s]." % "; ".join(a["stat_types"]))
    for nm in ("grades_single", "grades_sdil", "grade_range"):
        L.append("Definition real_%s_boss : list Z := %s." % (nm, zlist(a[nm][0])))
        L.append("Definition real_%s_normal : list Z := %s." % (nm, zlist(a[nm][1])))
    L.append("Definition real_dual_types : list (kind * list kind) := [%s]." %
             "; ".join("(%s, [%s])" % (k, "; ".join(v)) for k, v in a["dual_types"]))
    L.append("Definition real_single_props : list (coord * kind) := [%s]." %
             "; ".join("(%s, %s)" % ck for ck in a["single_props"]))
    L.append("Definition real_lookup : list (list kind) := [%s]." %
             ";\n  ".join("[%s]" % "; ".join(kname(n) for n in row) for row in d["lookup"]))
    L.append("Definition real_index : list (vec * Z) := [%s]." %
             "; ".join("((%s,%s,%s,%s), %s)" % (*map(z, v), z(i)) for v, i in d["index"]))
    L.append("Definition real_sdil_tables : list (Z * bool * list (list vec)) := [")
    rows = []
    for level, boss, t in d["sdil"]:
        rows.append("(%s, %s, [%s])" % (z(level), "true" if boss else "false",
                                       ";".join("[" + ";".join("(%s,%s,%s,%s)" % tuple(map(z, v)) for v in row) + "]" for row in t)))
    L.append(";\n".join(rows))
    L.append("].")
    L.append("Definition real_impr : list ((wclass * bool * Z * Z) * list (kind * list (list (Z * Z)))) := [")
    rows = []
    for (w, boss, level, basis), ks in d["impr"]:
        body = ";".join("(%s,[%s])" % (COQ_KINDS[k], ";".join("[" + ";".join("(%s,%s)" % (z(c), z(v)) for c, v in sp) + "]" for sp in per))
                        for k, per in ks)
        rows.append("((%s,%s,%s,%s),[%s])" % (WCLASS[w], "true" if boss else "false", z(level), z(basis), body))
    L.append(";\n".join(rows))
    L.append("].")
    text = "\n".join(L) + "\n"
    meta = {"files": ["simaple/gear/compute/bonus.py", "simaple/gear/bonus_factory.py", "simaple/gear/improvements/bonus.py"],
            "sdil_tables": len(d["sdil"]), "improvement_rows": len(d["impr"]),
            "improvement_values": sum(len(per) for _s, ks in d["impr"] for _k, per in ks),
            "lookup_rows": len(d["lookup"]), "ast": {k: a[k] for k in ("max_bonus", "table_rows", "grades_single", "grades_sdil", "grade_range")}}
    return {"BonusTbl.v": text}, meta


if __name__ == "__main__":
    files, meta = gen(sys.argv[1] if len(sys.argv) > 1 else "/repo")
    out = sys.argv[2] if len(sys.argv) > 2 else "/tmp"
    for n, t in files.items():
        open(os.path.join(out, n), "w").write(t)
    print(json.dumps(meta)[:600])
